//! Engine `read` (property C01): reading a minidump is total — no panic, hang or runaway
//! allocation on any bytes.
//!
//! case line:   `read cat=<generator category> <hex(bytes)>`  (corpus files: `read <hex(bytes)> [cat=..]`)
//! model line:  `read <hex(bytes)> sizes:<size_of of the 19 element types>`
//!
//! `exec` runs the REAL reader on a watchdogged worker thread with the counting allocator on:
//!   phase A (compared with the Lean model `MdModel.Dump.readAll`): `Minidump::read`, then
//!           `get_stream` of the eleven modelled stream types, rendered canonically; `get_memory`;
//!           the exception printer's parameter loop and `get_crash_address`.
//!   phase B (oracle only): `get_stream` of every other stream type the crate exports, every
//!           accessor named in the property's `observe_at`, every `print` (the `--dump` path).
//! Oracle (independent of the model): no panic anywhere (`catch_unwind`, site recorded), the case
//! ends within the time budget, and per operation the largest single allocator request is
//! ≤ `K_SINGLE`·n + `C_SINGLE` and the total requested ≤ `K_TOTAL`·n² + `C_TOTAL_LIN`·n + `C_TOTAL`
//! (n = input length); a worker that asks for more than 512 MiB at once / 1 GiB in total is parked
//! by the allocator guard and reported as `alloc-runaway:<operation>`.
//! Tie of the model's allocation log: every *exact* allocation the model predicts (≥ 256 bytes)
//! must be among the real allocator requests of phase A (`same`).

use crate::allocmeter as meter;
use crate::common::*;
use minidump::format as md;
use minidump::system_info::{Cpu, Os};
use minidump::*;
use minidump_synth as synth;
use std::fmt::Write as _;
use std::io::Write;
use std::sync::{mpsc, Arc, Once};
use std::time::{Duration, Instant};
use test_assembler::{Endian as TEndian, Section};

#[path = "read_time.rs"]
mod time_cases;

pub struct Read;

// ------------------------------------------------------------------------------------- oracle

/// largest single request allowed: `K_SINGLE * n + C_SINGLE` bytes (`K_SINGLE` = the `K` of the
/// Lean theorem `alloc_backed`; over 77 000 generated cases the real reader stays below 4n + 64 KiB)
const K_SINGLE: u64 = 32;
const C_SINGLE: u64 = 64 * 1024;
/// total requested allowed per operation: `K_TOTAL * n^2 + C_TOTAL_LIN * n + C_TOTAL` bytes. The
/// worst quadratic families that can be built for the modelled streams (aliased module names /
/// CodeView records / handle chains) stay below 0.1 n^2; generated cases never leave the linear part.
const K_TOTAL: u64 = 2;
const C_TOTAL_LIN: u64 = 1024;
const C_TOTAL: u64 = 4 * 1024 * 1024;
/// per-case time budget (a hang never ends, so the exact figure only has to absorb machine load)
fn time_budget(n: usize) -> Duration {
    Duration::from_millis(20_000 + (n as u64) / 10)
}

/// worker threads left behind (parked by the allocator guard, or spinning); beyond `MAX_STUCK` the
/// remaining cases of the run are skipped — the run has failed already.
static STUCK: std::sync::atomic::AtomicUsize = std::sync::atomic::AtomicUsize::new(0);
const MAX_STUCK: usize = 6;

thread_local! {
    static LAST_PANIC: std::cell::RefCell<String> = const { std::cell::RefCell::new(String::new()) };
}

/// Quiet panic hook that remembers where the panic happened (file:line: message).
fn install_hook() {
    static ONCE: Once = Once::new();
    ONCE.call_once(|| {
        std::panic::set_hook(Box::new(|info| {
            let loc = info.location().map(|l| format!("{}:{}", l.file(), l.line())).unwrap_or_default();
            let msg = if let Some(s) = info.payload().downcast_ref::<&str>() {
                s.to_string()
            } else if let Some(s) = info.payload().downcast_ref::<String>() {
                s.clone()
            } else {
                "panic".to_string()
            };
            LAST_PANIC.with(|p| *p.borrow_mut() = format!("{loc}: {msg}"));
        }));
    });
}

struct Out {
    oracle: Vec<(String, String)>,
    tags: Vec<String>,
    /// input length
    n: u64,
    shared: Arc<meter::Shared>,
    /// phase B: the allocator is read out after every guarded operation
    per_op: bool,
    /// phase B totals (sum over the operations), for the distribution
    b: meter::Stats,
}

fn alloc_limits(n: u64) -> (u64, u64) {
    (K_SINGLE * n + C_SINGLE, K_TOTAL.saturating_mul(n).saturating_mul(n) + C_TOTAL_LIN * n + C_TOTAL)
}

impl Out {
    fn check_alloc(&mut self, what: &str, st: &meter::Stats) {
        let (lim_single, lim_total) = alloc_limits(self.n);
        let n = self.n;
        if st.max > lim_single && self.oracle.len() < 8 {
            self.oracle.push((format!("alloc-single:{what}"), format!("{what}: one request of {} bytes for a {n}-byte input (limit {lim_single})", st.max)));
        }
        if st.total > lim_total && self.oracle.len() < 8 {
            self.oracle.push((format!("alloc-total:{what}"), format!("{what}: {} bytes requested in total for a {n}-byte input (limit {lim_total} = {K_TOTAL}n^2+{C_TOTAL_LIN}n+{C_TOTAL})", st.total)));
        }
    }

    /// run `f`; a panic becomes an oracle failure of class `panic` naming `what` and the site
    fn guard<T>(&mut self, what: &str, f: impl FnOnce() -> T) -> Option<T> {
        if let Ok(mut g) = self.shared.current_op.lock() {
            g.clear();
            g.push_str(what);
        }
        let r = catch(f);
        if self.per_op {
            let st = meter::lap();
            self.check_alloc(what, &st);
            self.b.total += st.total;
            self.b.count += st.count;
            self.b.max = self.b.max.max(st.max);
        }
        match r {
            Ok(v) => Some(v),
            Err(_) => {
                let site = LAST_PANIC.with(|p| p.borrow().clone());
                if self.oracle.len() < 8 {
                    // a panic inside the third-party /proc parser gets its own class (known finding)
                    let class = if site.contains("procfs-core") { "panic-procfs-core" } else { "panic" };
                    self.oracle.push((class.into(), format!("{what} panicked at {site}")));
                }
                None
            }
        }
    }
}

struct Sink(u64);
impl Write for Sink {
    fn write(&mut self, b: &[u8]) -> std::io::Result<usize> {
        self.0 += b.len() as u64;
        Ok(b.len())
    }
    fn flush(&mut self) -> std::io::Result<()> {
        Ok(())
    }
}

// ---------------------------------------------------------------------------- canonical output

fn name_hex(s: &str) -> String {
    let mut out = String::new();
    for (i, c) in s.chars().enumerate() {
        if i > 0 {
            out.push('.');
        }
        let _ = write!(out, "{:x}", c as u32);
    }
    out
}

fn opt_name(s: &Option<String>) -> String {
    match s {
        None => "-".into(),
        Some(s) => format!("={}", name_hex(s)),
    }
}

/// length of the private `context: Option<&[u8]>` field, read off the derived `Debug` output
fn debug_context_len(dbg: &str, after: &str) -> String {
    let Some(p) = dbg.find(after) else { return "?".into() };
    let rest = &dbg[p + after.len()..];
    if rest.starts_with("None") {
        return "-".into();
    }
    let Some(rest) = rest.strip_prefix("Some([") else { return "?".into() };
    let Some(end) = rest.find("])") else { return "?".into() };
    let inner = &rest[..end];
    if inner.is_empty() {
        "0".into()
    } else {
        (inner.matches(',').count() + 1).to_string()
    }
}

/// render a list; the rendering is the harness's own work and is not metered
fn items<T>(xs: impl Iterator<Item = T>, f: impl Fn(T) -> String) -> String {
    meter::unmetered(|| {
        let mut s = String::from("ok[");
        for x in xs {
            s.push_str(&f(x));
            s.push(';');
        }
        s.push(']');
        s
    })
}

fn err_name(e: &Error) -> String {
    format!("err {}", e.name())
}

type Dump<'a> = Minidump<'a, &'a [u8]>;

fn show_dir(dump: &Dump) -> String {
    let mut sink = meter::unmetered(|| Vec::with_capacity(1024 + 400 * dump.header.stream_count.min(1 << 16) as usize));
    let _ = dump.print(&mut sink);
    meter::unmetered(|| show_dir_text(dump, &sink))
}

fn show_dir_text(dump: &Dump, sink: &[u8]) -> String {
    let text = String::from_utf8_lossy(sink);
    let mut idxs = Vec::new();
    if let Some(p) = text.find("Streams:\n") {
        for line in text[p..].lines().skip(1) {
            if let Some(q) = line.rfind(" at index ") {
                idxs.push(line[q + 10..].trim().to_string());
            }
        }
    }
    let dirs: Vec<_> = dump.all_streams().collect();
    let mut parts = Vec::new();
    for (i, d) in dirs.iter().enumerate() {
        parts.push(format!(
            "{}@{}:{}:{}",
            d.stream_type,
            idxs.get(i).map(|s| s.as_str()).unwrap_or("?"),
            d.location.data_size,
            d.location.rva
        ));
    }
    format!("dir:[{}]", parts.join(","))
}

fn show_threads(dump: &Dump) -> String {
    match dump.get_stream::<MinidumpThreadList>() {
        Err(e) => err_name(&e),
        Ok(l) => {
            let empty = UnifiedMemoryList::default();
            items(l.threads.iter(), |t| {
                let dbg = format!("{:?}", t);
                let ctx = debug_context_len(&dbg, " }, context: ");
                let stk = match t.stack_memory(&empty) {
                    None => "-".to_string(),
                    Some(m) => format!("{}:{}", m.base_address(), m.size()),
                };
                format!("{}/{}/{}/{}", t.raw.thread_id, t.raw.teb, ctx, stk)
            })
        }
    }
}

fn show_modules(dump: &Dump) -> String {
    match dump.get_stream::<MinidumpModuleList>() {
        Err(e) => err_name(&e),
        Ok(l) => items(l.iter(), |m| {
            let cv = match &m.codeview_info {
                None => "-".to_string(),
                Some(CodeView::Pdb70(_)) => "pdb70".into(),
                Some(CodeView::Pdb20(_)) => "pdb20".into(),
                Some(CodeView::Elf(_)) => "elf".into(),
                Some(CodeView::Unknown(v)) => format!("unk{}", v.len()),
            };
            format!("{}/{}/{}/{}", m.raw.base_of_image, m.raw.size_of_image, name_hex(&m.name), cv)
        }),
    }
}

fn show_unloaded(dump: &Dump) -> String {
    match dump.get_stream::<MinidumpUnloadedModuleList>() {
        Err(e) => err_name(&e),
        Ok(l) => items(l.iter(), |m| format!("{}/{}/{}", m.raw.base_of_image, m.raw.size_of_image, name_hex(&m.name))),
    }
}

fn show_memory(dump: &Dump) -> String {
    match dump.get_stream::<MinidumpMemoryList>() {
        Err(e) => err_name(&e),
        Ok(l) => items(l.iter(), |r| format!("{}/{}/{}", r.base_address, r.size, r.desc.memory.rva)),
    }
}

fn show_memory64(dump: &Dump, all: &[u8]) -> String {
    match dump.get_stream::<MinidumpMemory64List>() {
        Err(e) => err_name(&e),
        Ok(l) => items(l.iter(), |r| {
            let rva = (r.bytes.as_ptr() as usize).wrapping_sub(all.as_ptr() as usize);
            format!("{}/{}/{}", r.base_address, r.size, rva)
        }),
    }
}

fn show_meminfo(dump: &Dump) -> String {
    match dump.get_stream::<MinidumpMemoryInfoList>() {
        Err(e) => err_name(&e),
        Ok(l) => items(l.iter(), |r| {
            format!("{}/{}/{}/{}/{}", r.raw.base_address, r.raw.region_size, r.raw.state, r.raw.protection, r.raw._type)
        }),
    }
}

fn show_thread_names(dump: &Dump, endian_big: bool) -> String {
    match dump.get_stream::<MinidumpThreadNames>() {
        Err(e) => err_name(&e),
        Ok(names) => meter::unmetered(|| {
            // the map is private: every key is a u32 found at a 4-aligned offset of the raw stream
            let raw = dump.get_raw_stream(24).unwrap_or(&[]);
            let mut ids: Vec<u32> = raw
                .chunks_exact(4)
                .map(|c| {
                    let a = [c[0], c[1], c[2], c[3]];
                    if endian_big {
                        u32::from_be_bytes(a)
                    } else {
                        u32::from_le_bytes(a)
                    }
                })
                .collect();
            ids.sort_unstable();
            ids.dedup();
            items(ids.iter().filter_map(|id| names.get_name(*id).map(|n| (*id, n.to_string()))), |(id, n)| {
                format!("{}={}", id, name_hex(&n))
            })
        }),
    }
}

fn show_thread_info(dump: &Dump) -> String {
    match dump.get_stream::<MinidumpThreadInfoList>() {
        Err(e) => err_name(&e),
        Ok(l) => items(l.thread_infos.iter(), |t| t.raw.thread_id.to_string()),
    }
}

fn show_handles(dump: &Dump) -> String {
    match dump.get_stream::<MinidumpHandleDataStream>() {
        Err(e) => err_name(&e),
        Ok(l) => items(l.handles.iter(), |h| {
            let infos: Vec<String> =
                h.object_infos.iter().map(|oi| format!("{}:{}", oi.info_type as u32, oi.raw.next_info_rva)).collect();
            format!(
                "{}/{}/{}/{}",
                h.raw.handle().copied().unwrap_or(0),
                opt_name(&h.type_name),
                opt_name(&h.object_name),
                infos.join(",")
            )
        }),
    }
}

fn show_exception(dump: &Dump) -> String {
    match dump.get_stream::<MinidumpException>() {
        Err(e) => err_name(&e),
        Ok(x) => {
            let mut sink = meter::unmetered(|| Vec::with_capacity(8192));
            let _ = x.print(&mut sink, None, None);
            let ca = x.get_crash_address(Os::Windows, Cpu::X86_64);
            meter::unmetered(|| show_exception_text(&x, &sink, ca))
        }
    }
}

fn show_exception_text(x: &MinidumpException, sink: &[u8], ca: u64) -> String {
    {
        {
            let dbg = format!("{:?}", x);
            let ctx = match dbg.rfind(", context: ") {
                Some(p) => debug_context_len(&dbg[p..], ", context: "),
                None => "?".into(),
            };
            let text = String::from_utf8_lossy(sink);
            let mut params = Vec::new();
            for line in text.lines() {
                if let Some(rest) = line.strip_prefix("  exception_record.exception_information[") {
                    if let Some((i, v)) = rest.split_once("] = ") {
                        let v = u64::from_str_radix(v.trim().trim_start_matches("0x"), 16).unwrap_or(u64::MAX);
                        params.push(format!("{}:{}", i.trim(), v));
                    }
                }
            }
            let r = &x.raw.exception_record;
            format!(
                "ok {}/{}/{}/{}/{}/{}/p={}/ca={}",
                x.thread_id,
                r.exception_code,
                r.exception_flags,
                r.exception_address,
                r.number_parameters,
                ctx,
                params.join(","),
                ca
            )
        }
    }
}

fn show_crashpad(dump: &Dump) -> String {
    match dump.get_stream::<MinidumpCrashpadInfo>() {
        Err(e) => err_name(&e),
        Ok(c) => meter::unmetered(|| {
            let dict = |d: &std::collections::BTreeMap<String, String>| {
                let items: Vec<String> = d.iter().map(|(k, v)| format!("{}:{}", hex(k.as_bytes()), hex(v.as_bytes()))).collect();
                format!("[{}]", items.join(","))
            };
            let mut s = format!("ok {}/D{}/M[", c.raw.version, dict(&c.simple_annotations));
            for m in &c.module_list {
                let l: Vec<String> = m.list_annotations.iter().map(|x| hex(x.as_bytes())).collect();
                let a: Vec<String> = m
                    .annotation_objects
                    .iter()
                    .map(|(k, v)| {
                        let v = match v {
                            MinidumpAnnotation::Invalid => "i".to_string(),
                            MinidumpAnnotation::String(x) => format!("s{}", hex(x.as_bytes())),
                            MinidumpAnnotation::UserDefined(r) => format!("u{}:{}", r.ty, r.value),
                            MinidumpAnnotation::Unsupported(r) => format!("x{}:{}", r.ty, r.value),
                            _ => "?".to_string(),
                        };
                        format!("{}:{}", hex(k.as_bytes()), v)
                    })
                    .collect();
                let _ = write!(s, "{}/{}/L[{}]/D{}/A[{}];", m.module_index, m.raw.version, l.join(","), dict(&m.simple_annotations), a.join(","));
            }
            s.push(']');
            s
        }),
    }
}


// ------------------------------------------------- canonical output, second group (`readExtra`)

/// `format!("{r:?}")` without blanks = `MdModel.Reason.Reason.render`
fn reason_tag(r: &CrashReason) -> String {
    format!("{r:?}").replace(' ', "")
}

fn opt_str(s: Option<std::borrow::Cow<str>>) -> String {
    match s {
        None => "-".into(),
        Some(s) => format!("={}", name_hex(&s)),
    }
}

/// A `Write` sink that allocates nothing and keeps what the comparison needs of a printer's output:
/// the number of lines that start with four blanks (hex-dump / stack-dump lines), the length of the
/// last such line after its `": "`, and the number of lines that start with a given marker.
struct LineScan {
    buf: [u8; 96],
    len: usize,
    total: usize,
    dump_lines: u64,
    last_value_len: usize,
    marker: &'static [u8],
    marked: u64,
}
impl LineScan {
    fn new(marker: &'static [u8]) -> Self {
        LineScan { buf: [0; 96], len: 0, total: 0, dump_lines: 0, last_value_len: 0, marker, marked: 0 }
    }
    fn end_line(&mut self) {
        let line = &self.buf[..self.len];
        if line.starts_with(b"    ") && line.len() > 4 && line[4] != b' ' {
            if let Some(p) = line.windows(2).position(|w| w == b": ") {
                self.dump_lines += 1;
                // the value may run past the kept prefix; `total` is the true line length
                self.last_value_len = self.total - (p + 2);
            }
        }
        if !self.marker.is_empty() && line.starts_with(self.marker) {
            self.marked += 1;
        }
        self.len = 0;
        self.total = 0;
    }
}
impl Write for LineScan {
    fn write(&mut self, b: &[u8]) -> std::io::Result<usize> {
        for &c in b {
            if c == b'\n' {
                self.end_line();
            } else {
                if self.len < self.buf.len() {
                    self.buf[self.len] = c;
                    self.len += 1;
                }
                self.total += 1;
            }
        }
        Ok(b.len())
    }
    fn flush(&mut self) -> std::io::Result<()> {
        Ok(())
    }
}

fn ctx_kind(c: &MinidumpContext) -> (&'static str, u64, u64) {
    // (variant name, context_flags, wrapping sum of the registers `print` reaches by index)
    use MinidumpRawContext::*;
    const MIPS_PRINTED: [usize; 12] = [16, 17, 18, 19, 20, 21, 22, 23, 28, 29, 30, 31];
    match &c.raw {
        X86(r) => ("X86", r.context_flags as u64, 0),
        Amd64(r) => ("Amd64", r.context_flags as u64, 0),
        Ppc(r) => ("Ppc", r.context_flags as u64, 0),
        Ppc64(r) => ("Ppc64", r.context_flags, 0),
        Sparc(r) => ("Sparc", r.context_flags as u64, 0),
        Arm(r) => ("Arm", r.context_flags as u64, 0),
        Arm64(r) => ("Arm64", r.context_flags as u64, r.iregs.iter().fold(0u64, |a, v| a.wrapping_add(*v))),
        OldArm64(r) => ("OldArm64", r.context_flags, r.iregs.iter().fold(0u64, |a, v| a.wrapping_add(*v))),
        Mips(r) => ("Mips", r.context_flags as u64, MIPS_PRINTED.iter().fold(0u64, |a, i| a.wrapping_add(r.iregs[*i]))),
    }
}

/// `MinidumpContext::read` on the bytes a location descriptor selects + the accessor that wraps it
/// (`accessor` = what `MinidumpThread::context` / `MinidumpException::context` returned)
fn show_ctx(
    all: &[u8],
    loc: &md::MINIDUMP_LOCATION_DESCRIPTOR,
    endian: scroll::Endian,
    sys: &MinidumpSystemInfo,
    accessor: Option<std::borrow::Cow<MinidumpContext>>,
    sink: &mut Sink,
) -> String {
    let start = loc.rva as usize;
    let bytes = start.checked_add(loc.data_size as usize).and_then(|end| all.get(start..end));
    let Some(bytes) = bytes else {
        return if accessor.is_none() { "-".into() } else { "MISMATCH:accessor-without-bytes".into() };
    };
    match MinidumpContext::read(bytes, endian, sys, None) {
        Err(ContextError::ReadFailure) => if accessor.is_none() { "e:read".into() } else { "MISMATCH:accessor".into() },
        Err(ContextError::UnknownCpuContext) => if accessor.is_none() { "e:unknown".into() } else { "MISMATCH:accessor".into() },
        Ok(direct) => {
            let Some(c) = accessor else { return "MISMATCH:accessor-none".into() };
            let _ = c.print(sink);
            let (kind, flags, printed) = ctx_kind(&c);
            let (k2, f2, _) = ctx_kind(&direct);
            if (kind, flags) != (k2, f2) {
                return "MISMATCH:accessor-differs".into();
            }
            format!("{}:{}:{}:{}:{}", kind, flags, c.get_instruction_pointer(), c.get_stack_pointer(), printed)
        }
    }
}

fn show_sys(dump: &Dump) -> String {
    match dump.get_stream::<MinidumpSystemInfo>() {
        Err(e) => err_name(&e),
        Ok(s) => meter::unmetered(|| {
            let r = &s.raw;
            format!(
                "ok {}/{}/{}/{}/{}/{}/{}/{}/{}/{}/{}/{}/csd{}/{}/i{}",
                r.processor_architecture,
                r.processor_level,
                r.processor_revision,
                r.number_of_processors,
                r.product_type,
                r.major_version,
                r.minor_version,
                r.build_number,
                r.platform_id,
                r.csd_version_rva,
                r.suite_mask,
                hex(&r.cpu.data),
                opt_str(s.csd_version()),
                s.cpu,
                match s.cpu_info() {
                    None => "-".to_string(),
                    Some(t) => format!("={}", hex(t.as_bytes())),
                }
            )
        }),
    }
}

fn show_threads_x(dump: &Dump, all: &[u8]) -> String {
    let Ok(l) = dump.get_stream::<MinidumpThreadList>() else { return "-".into() };
    let sys = dump.get_stream::<MinidumpSystemInfo>().ok();
    let mem = dump.get_memory().unwrap_or_default();
    let cpu = sys.as_ref().map(|s| s.cpu).unwrap_or(Cpu::Unknown(0));
    let mut sink = Sink(0);
    let mut out = meter::unmetered(|| String::from("ok["));
    for t in &l.threads {
        let ctx = match &sys {
            None => "-".to_string(),
            Some(s) => show_ctx(all, &t.raw.thread_context, dump.endian, s, t.context(s, None), &mut sink),
        };
        let stk = match t.stack_memory(&mem) {
            None => "-".to_string(),
            Some(m) => format!("{}:{}:{}", m.base_address(), m.size(), (m.bytes().as_ptr() as usize).wrapping_sub(all.as_ptr() as usize)),
        };
        let les: Vec<String> = [cpu, Cpu::X86, Cpu::X86_64]
            .iter()
            .map(|c| match t.last_error(*c, &mem) {
                None => "-".to_string(),
                Some(r) => reason_tag(&r),
            })
            .collect();
        let mut scan = LineScan::new(b"");
        let _ = t.print(&mut scan, Some(&mem), sys.as_ref(), None, false);
        let printed = scan.dump_lines * (scan.last_value_len.saturating_sub(2) as u64 / 2);
        meter::unmetered(|| {
            let _ = write!(out, "{}/{}/{}/{}/{};", t.raw.thread_id, ctx, stk, les.join(","), printed);
        });
    }
    out.push(']');
    out
}

fn show_exc_x(dump: &Dump, all: &[u8]) -> (String, String) {
    let (Ok(x), Ok(sys)) = (dump.get_stream::<MinidumpException>(), dump.get_stream::<MinidumpSystemInfo>()) else {
        return ("-".into(), "-".into());
    };
    let mut sink = Sink(0);
    let ctx = show_ctx(all, &x.raw.thread_context, dump.endian, &sys, x.context(&sys, None), &mut sink);
    let ctx = if ctx == "-" { "0".to_string() } else { ctx };
    let rsn = format!("{}/{}", reason_tag(&x.get_crash_reason(sys.os, sys.cpu)), x.get_crash_address(sys.os, sys.cpu));
    (ctx, rsn)
}

fn show_mem_printed(dump: &Dump) -> String {
    let Some(mem) = dump.get_memory() else { return "-".into() };
    let Some(r) = mem.iter().next() else { return "-".into() };
    if r.bytes().len() > 65536 {
        return "-".into();
    }
    let mut scan = LineScan::new(b"");
    let _ = r.print(&mut scan, false);
    (scan.dump_lines * 16).to_string()
}

fn span_of(base: *const u8, s: &[u8]) -> String {
    format!("{}+{}", (s.as_ptr() as usize).wrapping_sub(base as usize), s.len())
}

macro_rules! show_kv_stream {
    ($dump:expr, $t:ty) => {
        match $dump.get_stream::<$t>() {
            Err(e) => err_name(&e),
            Ok(s) => {
                let raw = s.raw_bytes();
                let base = raw.as_ptr();
                let mut out = meter::unmetered(|| String::from("ok["));
                for (k, v) in s.iter() {
                    meter::unmetered(|| {
                        let _ = write!(out, "{}:{};", span_of(base, k.as_bytes()), span_of(base, v.as_bytes()));
                    });
                }
                out.push(']');
                out
            }
        }
    };
}

fn show_limits(dump: &Dump) -> String {
    match dump.get_stream::<MinidumpLinuxProcLimits>() {
        Err(e) => err_name(&e),
        Ok(s) => {
            let raw = s.raw_bytes();
            let base = raw.as_ptr();
            let mut out = meter::unmetered(|| String::from("ok["));
            for l in s.iter() {
                meter::unmetered(|| {
                    let _ = write!(out, "{};", span_of(base, l.as_bytes()));
                });
            }
            out.push(']');
            out
        }
    }
}

fn show_breakpad(dump: &Dump) -> String {
    match dump.get_stream::<MinidumpBreakpadInfo>() {
        Err(e) => err_name(&e),
        Ok(i) => {
            let o = |v: Option<u32>| v.map(|x| x.to_string()).unwrap_or_else(|| "-".into());
            // `raw` is private: the validity word is read off the printer's output
            let mut text = meter::unmetered(|| Vec::with_capacity(512));
            let _ = i.print(&mut text);
            meter::unmetered(|| {
                let text = String::from_utf8_lossy(&text);
                let validity = text
                    .lines()
                    .find_map(|l| l.trim().strip_prefix("validity").map(|r| r.trim().trim_start_matches('=').trim().to_string()))
                    .and_then(|v| u32::from_str_radix(v.trim_start_matches("0x"), 16).ok());
                format!("ok {}/{}/{}", validity.map(|v| v.to_string()).unwrap_or_else(|| "?".into()), o(i.dump_thread_id), o(i.requesting_thread_id))
            })
        }
    }
}

fn show_assertion(dump: &Dump) -> String {
    match dump.get_stream::<MinidumpAssertion>() {
        Err(e) => err_name(&e),
        Ok(a) => {
            let (ex, fun, file) = (a.expression(), a.function(), a.file());
            meter::unmetered(|| format!("ok {}/{}/{}/{}/{}", opt_name(&ex), opt_name(&fun), opt_name(&file), a.raw.line, a.raw._type))
        }
    }
}

fn show_mac(dump: &Dump) -> String {
    match dump.get_stream::<MinidumpMacCrashInfo>() {
        Err(e) => format!("{}/0", err_name(&e)),
        Ok(m) => {
            let mut scan = LineScan::new(b"  RECORD[");
            let _ = m.print(&mut scan);
            meter::unmetered(|| {
                let mut s = String::from("ok[");
                for r in &m.raw {
                    let strs = |v: [&String; 5]| v.iter().map(|x| hex(x.as_bytes())).collect::<Vec<_>>().join(",");
                    match r {
                        RawMacCrashInfo::V1(f, _) => {
                            let _ = write!(s, "1/{},{}/;", f.stream_type, f.version);
                        }
                        RawMacCrashInfo::V4(f, t) => {
                            let _ = write!(
                                s,
                                "4/{},{},{},{}/{};",
                                f.stream_type,
                                f.version,
                                f.thread,
                                f.dialog_mode,
                                strs([&t.module_path, &t.message, &t.signature_string, &t.backtrace, &t.message2])
                            );
                        }
                        RawMacCrashInfo::V5(f, t) => {
                            let _ = write!(
                                s,
                                "5/{},{},{},{},{}/{};",
                                f.stream_type,
                                f.version,
                                f.thread,
                                f.dialog_mode,
                                f.abort_cause,
                                strs([&t.module_path, &t.message, &t.signature_string, &t.backtrace, &t.message2])
                            );
                        }
                    }
                }
                let _ = write!(s, "]/{}", scan.marked);
                s
            })
        }
    }
}

fn show_bootargs(dump: &Dump) -> String {
    match dump.get_stream::<MinidumpMacBootargs>() {
        Err(e) => err_name(&e),
        Ok(b) => meter::unmetered(|| format!("ok {}/{}/{}", b.raw.stream_type, b.raw.bootargs, opt_name(&b.bootargs))),
    }
}

// ------------------------------------------------- canonical output, third group (`readMore`)

/// strict UTF-16 decoding of the units before the first NUL (`std`, not `encoding_rs`)
fn utf16_prefix(data: &[u16]) -> Option<String> {
    let n = data.iter().position(|c| *c == 0).unwrap_or(data.len());
    String::from_utf16(&data[..n]).ok()
}

/// `misc:` — the revision read, the sixteen scalar accessors, the time zone, the two build strings and
/// the enabled XSTATE features, all through the public accessors; the strings are additionally looked
/// up in the printer's text (`print` decodes them with its own `utf16_to_string`)
fn show_misc(dump: &Dump) -> String {
    let m = match dump.get_stream::<MinidumpMiscInfo>() {
        Err(e) => return err_name(&e),
        Ok(m) => m,
    };
    let mut text = meter::unmetered(|| Vec::with_capacity(16 * 1024));
    let _ = m.print(&mut text);
    let _ = m.process_create_time();
    meter::unmetered(|| {
        let text = String::from_utf8_lossy(&text);
        let r = &m.raw;
        let ver = match r {
            RawMiscInfo::MiscInfo(_) => 1,
            RawMiscInfo::MiscInfo2(_) => 2,
            RawMiscInfo::MiscInfo3(_) => 3,
            RawMiscInfo::MiscInfo4(_) => 4,
            RawMiscInfo::MiscInfo5(_) => 5,
        };
        let simple: Vec<Option<u32>> = vec![
            r.size_of_info().copied(),
            r.flags1().copied(),
            r.process_id().copied(),
            r.process_create_time().copied(),
            r.process_user_time().copied(),
            r.process_kernel_time().copied(),
            r.processor_max_mhz().copied(),
            r.processor_current_mhz().copied(),
            r.processor_mhz_limit().copied(),
            r.processor_max_idle_state().copied(),
            r.processor_current_idle_state().copied(),
            r.process_integrity_level().copied(),
            r.process_execute_flags().copied(),
            r.protected_process().copied(),
            r.time_zone_id().copied(),
            r.process_cookie().copied(),
        ];
        let simple: Vec<String> = simple.iter().map(|v| v.map(|x| x.to_string()).unwrap_or_else(|| "-".into())).collect();
        let mut bad = false;
        let mut in_text = |label: &str, v: &Option<String>| {
            let line = format!("{label}{}\n", v.clone().unwrap_or_else(|| "(invalid)".into()));
            if !text.contains(&line) {
                bad = true;
            }
        };
        let date = |d: &md::SYSTEMTIME| {
            [d.year, d.month, d.day_of_week, d.day, d.hour, d.minute, d.second, d.milliseconds].iter().map(|x| x.to_string()).collect::<Vec<_>>().join(".")
        };
        let tz = match r.time_zone() {
            None => "-".to_string(),
            Some(t) => {
                let (sn, dn) = (utf16_prefix(&t.standard_name), utf16_prefix(&t.daylight_name));
                in_text("    standard_name = ", &sn);
                in_text("    daylight_name = ", &dn);
                format!(
                    "={}:{}:{}:{}:{}:{}:{}",
                    t.bias as u32,
                    opt_name(&sn),
                    date(&t.standard_date),
                    t.standard_bias as u32,
                    opt_name(&dn),
                    date(&t.daylight_date),
                    t.daylight_bias as u32
                )
            }
        };
        let bs = r.build_string().and_then(|s| utf16_prefix(&s[..]));
        let dbs = r.dbg_bld_str().and_then(|s| utf16_prefix(&s[..]));
        in_text("  build_string                 = ", &bs);
        in_text("  dbg_bld_str                  = ", &dbs);
        let xs = match r.xstate_data() {
            None => "-".to_string(),
            Some(x) => {
                let fs: Vec<String> = x.iter().map(|(i, f)| format!("{}:{}:{}", i, f.offset, f.size)).collect();
                for (i, f) in x.iter() {
                    if !text.contains(&format!("    feature {i:2} - ")) || !text.contains(&format!(":  offset {:4}, size {:4}\n", f.offset, f.size)) {
                        bad = true;
                    }
                }
                format!("={}", fs.join(","))
            }
        };
        if bad {
            return "MISMATCH:print-text".to_string();
        }
        format!("ok {}/{}/tz{}/bs{}/dbs{}/xs{}", ver, simple.join(","), tz, opt_name(&bs), opt_name(&dbs), xs)
    })
}

/// the three panic sites of procfs-core 0.17's maps parser (src/process/mod.rs), by line number
fn maps_panic_class(site: &str) -> &'static str {
    if !site.contains("procfs-core") {
        "other"
    } else if site.contains("process/mod.rs:473:") {
        "stack"
    } else if site.contains("process/mod.rs:478:") {
        "sysv"
    } else if site.contains("process/mod.rs:538:") {
        "smaps"
    } else {
        "other"
    }
}

/// `maps:` — every entry of `MinidumpLinuxMaps` (addresses, permission bits, offset, device, inode, path
/// kind) and `memory_info_at_address` at both ends of every entry and next to them
fn show_maps(dump: &Dump) -> String {
    use procfs_core::process::MMapPath as P;
    use std::os::unix::ffi::OsStrExt;
    let maps = match dump.get_stream::<MinidumpLinuxMaps>() {
        Err(e) => return err_name(&e),
        Ok(m) => m,
    };
    let mut probes: Vec<(u64, Option<usize>)> = meter::unmetered(Vec::new);
    let ends: Vec<(u64, u64)> = meter::unmetered(|| maps.iter().map(|r| r.map.address).collect());
    let first = maps.iter().next().map(|r| r as *const MinidumpLinuxMapInfo);
    for (lo, hi) in ends {
        let mut addrs = [None; 4];
        if lo > 0 {
            addrs[0] = Some(lo - 1);
        }
        addrs[1] = Some(lo);
        addrs[2] = Some(hi);
        if hi < u64::MAX {
            addrs[3] = Some(hi + 1);
        }
        for a in addrs.into_iter().flatten() {
            let hit = maps.memory_info_at_address(a).map(|h| h as *const MinidumpLinuxMapInfo);
            // the regions live in one vector: the index is the pointer distance
            let idx = match (hit, first) {
                (Some(h), Some(f)) => Some((h as usize - f as usize) / std::mem::size_of::<MinidumpLinuxMapInfo>()),
                _ => None,
            };
            meter::unmetered(|| probes.push((a, idx)));
        }
    }
    meter::unmetered(|| {
        let mut s = String::from("ok [");
        for (k, r) in maps.iter().enumerate() {
            let x = &r.map;
            if k > 0 {
                s.push(';');
            }
            let path = match &x.pathname {
                P::Path(p) => format!("p{}", hex(p.as_os_str().as_bytes())),
                P::Heap => "h".into(),
                P::Stack => "s".into(),
                P::TStack(t) => format!("t{t}"),
                P::Vdso => "d".into(),
                P::Vvar => "v".into(),
                P::Vsyscall => "y".into(),
                P::Rollup => "r".into(),
                P::Anonymous => "a".into(),
                P::Vsys(k) => format!("k{}", *k as u32),
                P::Other(o) => format!("o{}", hex(o.as_bytes())),
            };
            let _ = write!(s, "{},{},{},{},{},{},{},{}", x.address.0, x.address.1, x.perms.bits(), x.offset, x.dev.0 as u32, x.dev.1 as u32, x.inode, path);
        }
        s.push_str("]|");
        s.push_str(&show_probes(&probes));
        s
    })
}

/// lookups: in full for up to 160 of them, else their number and a hash (`MdModel.Bytes.showProbes`)
fn show_probes(ps: &[(u64, Option<usize>)]) -> String {
    if ps.len() <= 160 {
        ps.iter()
            .map(|(a, i)| match i {
                None => format!("{a}:~"),
                Some(i) => format!("{a}:{i}"),
            })
            .collect::<Vec<_>>()
            .join(",")
    } else {
        let mut h: u64 = 0;
        for (a, i) in ps {
            h = (h * 1000003 + (a % 4294967296) + 7 * i.map(|x| x as u64 + 1).unwrap_or(0)) % 4294967296;
        }
        format!("#{}:{}", ps.len(), h)
    }
}

fn show_indices(is: &[usize]) -> String {
    if is.len() <= 160 {
        is.iter().map(|i| i.to_string()).collect::<Vec<_>>().join(",")
    } else {
        let mut h: u64 = 0;
        for i in is {
            h = (h * 1000003 + *i as u64 + 1) % 4294967296;
        }
        format!("#{}:{}", is.len(), h)
    }
}

/// `uni:` — `UnifiedMemoryInfoList::new(memory info list, linux maps)`: which one it serves, `iter().count()`,
/// `by_addr()` and `memory_info_at_address` at both ends of every region (indices = pointer distances)
fn show_unified(dump: &Dump) -> String {
    let info = dump.get_stream::<MinidumpMemoryInfoList>().ok();
    let maps = dump.get_stream::<MinidumpLinuxMaps>().ok();
    let Some(u) = UnifiedMemoryInfoList::new(info, maps) else { return "-".into() };
    let mut sink = Sink(0);
    let _ = u.print(&mut sink);
    let mut addrs: Vec<u64> = meter::unmetered(|| vec![0, 0x1000, u64::MAX]);
    let (kind, first, stride): (&str, usize, usize) = match (u.info(), u.maps()) {
        (Some(l), _) => {
            meter::unmetered(|| {
                for r in l.iter() {
                    let (b, z) = (r.raw.base_address, r.raw.region_size);
                    if b > 0 {
                        addrs.push(b - 1);
                    }
                    addrs.push(b);
                    if z > 0 {
                        if let Some(e) = b.checked_add(z - 1) {
                            addrs.push(e);
                        }
                    }
                    if let Some(e) = b.checked_add(z) {
                        addrs.push(e);
                    }
                }
            });
            ("info", l.iter().next().map(|r| r as *const MinidumpMemoryInfo as usize).unwrap_or(0), std::mem::size_of::<MinidumpMemoryInfo>())
        }
        (None, Some(l)) => {
            meter::unmetered(|| {
                for r in l.iter() {
                    let (lo, hi) = r.map.address;
                    if lo > 0 {
                        addrs.push(lo - 1);
                    }
                    addrs.push(lo);
                    addrs.push(hi);
                    if hi < u64::MAX {
                        addrs.push(hi + 1);
                    }
                }
            });
            ("maps", l.iter().next().map(|r| r as *const MinidumpLinuxMapInfo as usize).unwrap_or(0), std::mem::size_of::<MinidumpLinuxMapInfo>())
        }
        (None, None) => return "MISMATCH:unified-empty".into(),
    };
    let idx_of = |x: UnifiedMemoryInfo| -> usize {
        let p = match x {
            UnifiedMemoryInfo::Info(r) => r as *const MinidumpMemoryInfo as usize,
            UnifiedMemoryInfo::Map(r) => r as *const MinidumpLinuxMapInfo as usize,
        };
        (p - first) / stride
    };
    let count = u.iter().count();
    let mut by_addr: Vec<usize> = meter::unmetered(Vec::new);
    for x in u.by_addr() {
        let i = idx_of(x);
        meter::unmetered(|| by_addr.push(i));
    }
    let mut probes: Vec<(u64, Option<usize>)> = meter::unmetered(|| Vec::with_capacity(addrs.len()));
    for a in &addrs {
        let hit = u.memory_info_at_address(*a).map(idx_of);
        probes.push((*a, hit));
    }
    meter::unmetered(|| format!("{}/{}/[{}]/{}", kind, count, show_indices(&by_addr), show_probes(&probes)))
}

fn show_os_parts(dump: &Dump) -> String {
    let Ok(s) = dump.get_stream::<MinidumpSystemInfo>() else { return "-".into() };
    let (v, b) = s.os_parts();
    meter::unmetered(|| format!("{}/{}", name_hex(&v), opt_name(&b)))
}

/// `ids:` — per module the four identifier accessors and the number of bytes `print` renders as hex
fn show_module_ids(dump: &Dump) -> String {
    let Ok(l) = dump.get_stream::<MinidumpModuleList>() else { return "-".into() };
    let mut out = meter::unmetered(|| String::from("ok["));
    for m in l.iter() {
        let dbg = m.debug_identifier().map(|d| d.breakpad().to_string());
        let code = m.code_identifier().map(|c| c.to_string());
        let file = m.debug_file().map(|f| f.into_owned());
        let ver = m.version().map(|v| v.into_owned());
        let mut text = meter::unmetered(|| Vec::with_capacity(4096));
        let _ = m.print(&mut text);
        meter::unmetered(|| {
            let o = |s: &Option<String>| match s {
                None => "-".to_string(),
                Some(s) => format!("={s}"),
            };
            let hexed: Option<&[u8]> = match &m.codeview_info {
                Some(CodeView::Elf(r)) => Some(&r.build_id),
                Some(CodeView::Unknown(b)) => Some(b),
                _ => None,
            };
            let n = hexed.map(|b| b.len()).unwrap_or(0);
            if let Some(b) = hexed {
                let text = String::from_utf8_lossy(&text);
                let hx = if b.is_empty() { String::new() } else { hex(b) };
                if !text.contains(&format!("= {hx}\n")) {
                    out.push_str("MISMATCH:print-hex;");
                }
            }
            let _ = write!(out, "{}/{}/{}/{}/{};", o(&dbg), o(&code), opt_name(&file), o(&ver), n);
        });
    }
    out.push(']');
    out
}

fn show_unloaded_ids(dump: &Dump) -> String {
    let Ok(l) = dump.get_stream::<MinidumpUnloadedModuleList>() else { return "-".into() };
    let mut out = meter::unmetered(|| String::from("ok["));
    for m in l.iter() {
        if m.debug_file().is_some() || m.debug_identifier().is_some() || m.version().is_some() {
            return "MISMATCH:unloaded-accessor".into();
        }
        let code = m.code_identifier().map(|c| c.to_string()).unwrap_or_else(|| "?".into());
        meter::unmetered(|| {
            out.push_str(&code);
            out.push(';');
        });
    }
    out.push(']');
    out
}

fn show_soft(dump: &Dump) -> String {
    match dump.get_stream::<MinidumpSoftErrors>() {
        Err(e) => err_name(&e),
        Ok(s) => format!("ok {}", s.as_ref().len()),
    }
}

/// the register accessors of one context: `valid_registers()`, `get_register` of every general-purpose
/// register, `register_size()`, `format_register` of the first and the last general-purpose register
fn show_regs_of(c: Option<std::borrow::Cow<MinidumpContext>>) -> String {
    let Some(c) = c else { return "-".into() };
    let (kind, _, _) = ctx_kind(&c);
    let valid: Vec<(&'static str, u64)> = c.valid_registers().collect();
    let names = c.general_purpose_registers();
    let got: Vec<Option<u64>> = names.iter().map(|n| c.get_register(n)).collect();
    let mut fmt = Vec::new();
    if let (Some(a), Some(b)) = (names.first(), names.last()) {
        fmt.push(c.format_register(a));
        fmt.push(c.format_register(b));
    }
    let size = c.register_size();
    meter::unmetered(|| {
        format!(
            "{}:{}|{}|{}|{}",
            kind,
            valid.iter().map(|(n, v)| format!("{n}={v:x}")).collect::<Vec<_>>().join(","),
            got.iter().map(|v| v.map(|x| format!("{x:x}")).unwrap_or_else(|| "none".into())).collect::<Vec<_>>().join(","),
            size,
            fmt.join(",")
        )
    })
}

fn show_regs(dump: &Dump) -> String {
    let (Ok(l), Ok(sys)) = (dump.get_stream::<MinidumpThreadList>(), dump.get_stream::<MinidumpSystemInfo>()) else { return "-".into() };
    let mut out = meter::unmetered(|| String::from("ok["));
    for t in &l.threads {
        let r = show_regs_of(t.context(&sys, None));
        meter::unmetered(|| {
            out.push_str(&r);
            out.push(';');
        });
    }
    out.push(']');
    out
}

fn show_exc_regs(dump: &Dump) -> String {
    let (Ok(x), Ok(sys)) = (dump.get_stream::<MinidumpException>(), dump.get_stream::<MinidumpSystemInfo>()) else { return "-".into() };
    show_regs_of(x.context(&sys, None))
}

// ------------------------------------------------------------------------------ phase B (sweep)

fn sweep(dump: &Dump, o: &mut Out) {
    let mut sink = Sink(0);
    let sys = o.guard("get_stream::<MinidumpSystemInfo>", || dump.get_stream::<MinidumpSystemInfo>().ok()).flatten();
    let misc = o.guard("get_stream::<MinidumpMiscInfo>", || dump.get_stream::<MinidumpMiscInfo>().ok()).flatten();
    let mem = o.guard("get_memory", || dump.get_memory()).flatten();
    let (os, cpu) = sys.as_ref().map(|s| (s.os, s.cpu)).unwrap_or((Os::Unknown(0), Cpu::Unknown(0)));

    o.guard("Minidump::print", || {
        let _ = dump.print(&mut sink);
        let _ = dump.unknown_streams().count();
        let _ = dump.unimplemented_streams().count();
        for d in dump.all_streams() {
            let _ = dump.get_raw_stream(d.stream_type);
        }
    });
    if sys.is_some() {
        let os_name = match os {
            Os::Unknown(_) => "Unknown".to_string(),
            other => format!("{:?}", other),
        };
        o.tags.push(format!("sweep:MinidumpSystemInfo=ok os={os_name}"));
    }
    if misc.is_some() {
        o.tags.push("sweep:MinidumpMiscInfo=ok".into());
    }
    if let Some(s) = &sys {
        o.guard("MinidumpSystemInfo accessors/print", || {
            let _ = s.print(&mut sink);
            let _ = s.csd_version();
            let _ = s.cpu_info();
            let _ = s.os_parts();
        });
    }
    if let Some(m) = &misc {
        o.guard("MinidumpMiscInfo accessors/print", || {
            let _ = m.print(&mut sink);
            let _ = m.process_create_time();
        });
    }
    let mut nctx = 0u32;
    o.guard("MinidumpThreadList accessors/print", || {
        if let Ok(l) = dump.get_stream::<MinidumpThreadList>() {
            let _ = l.print(&mut sink, mem.as_ref(), sys.as_ref(), misc.as_ref(), false);
            let _ = l.print(&mut sink, None, None, None, true);
            let dummy = UnifiedMemoryList::default();
            for t in &l.threads {
                let _ = l.get_thread(t.raw.thread_id);
                if let Some(s) = &sys {
                    if let Some(ctx) = t.context(s, misc.as_ref()) {
                        nctx += 1;
                        let _ = ctx.print(&mut sink);
                        let _ = ctx.get_instruction_pointer();
                        let _ = ctx.get_stack_pointer();
                        for (_name, _v) in ctx.valid_registers() {}
                    }
                }
                let m = mem.as_ref().unwrap_or(&dummy);
                if let Some(st) = t.stack_memory(m) {
                    let _ = st.memory_range();
                    let _ = st.get_memory_at_address::<u64>(st.base_address());
                    let _ = st.get_memory_at_address::<u32>(st.base_address().wrapping_add(st.size()).wrapping_sub(4));
                }
                for c in [cpu, Cpu::X86, Cpu::X86_64] {
                    let _ = t.last_error(c, m).map(|r| r.to_string());
                }
            }
        }
    });
    if nctx > 0 {
        o.tags.push(format!("thread-context-printed={:?}", cpu));
    }
    o.guard("MinidumpModuleList accessors/print", || {
        if let Ok(l) = dump.get_stream::<MinidumpModuleList>() {
            let _ = l.print(&mut sink);
            let _ = l.main_module();
            let _ = l.by_addr().count();
            for m in l.iter() {
                let _ = (m.base_address(), m.size(), m.code_file().len());
                let _ = m.code_identifier();
                let _ = m.debug_file();
                let _ = m.debug_identifier();
                let _ = m.version();
                for a in [m.base_address(), m.base_address().wrapping_add(m.size()).wrapping_sub(1), m.base_address().wrapping_add(m.size())] {
                    let _ = l.module_at_address(a);
                }
            }
            for a in [0, 1, u64::MAX, u64::MAX - 1, 1 << 31, 1 << 32] {
                let _ = l.module_at_address(a);
            }
        }
    });
    o.guard("MinidumpUnloadedModuleList accessors/print", || {
        if let Ok(l) = dump.get_stream::<MinidumpUnloadedModuleList>() {
            let _ = l.print(&mut sink);
            let _ = l.by_addr().count();
            for m in l.iter() {
                let _ = (m.base_address(), m.size(), m.code_file().len());
                let _ = m.code_identifier();
                let _ = m.debug_file();
                let _ = m.debug_identifier();
                let _ = m.version();
                let _ = l.modules_at_address(m.base_address()).count();
                let _ = l.modules_at_address(m.base_address().wrapping_add(m.size())).count();
            }
            let _ = l.modules_at_address(u64::MAX).count();
        }
    });
    o.guard("MinidumpHandleDataStream print", || {
        if let Ok(l) = dump.get_stream::<MinidumpHandleDataStream>() {
            let _ = l.print(&mut sink);
            for h in l.iter() {
                for oi in &h.object_infos {
                    let _ = write!(sink, "{oi}");
                }
            }
        }
    });
    o.guard("memory lists accessors/print", || {
        if let Some(m) = &mem {
            let _ = m.print(&mut sink, false);
            let _ = m.by_addr().count();
            for r in m.iter() {
                let _ = r.memory_range();
                let _ = m.memory_at_address(r.base_address());
                let _ = m.memory_at_address(r.base_address().wrapping_add(r.size()).wrapping_sub(1));
                let _ = r.get_memory_at_address::<u64>(r.base_address());
                let _ = r.get_memory_at_address::<u8>(r.base_address().wrapping_add(r.size()));
                let _ = r.bytes().len();
            }
            let _ = m.memory_at_address(u64::MAX);
        }
        if let Ok(l) = dump.get_stream::<MinidumpMemoryList>() {
            let _ = l.print(&mut sink, false);
            let _ = l.by_addr().count();
        }
        if let Ok(l) = dump.get_stream::<MinidumpMemory64List>() {
            let _ = l.print(&mut sink, true);
            let _ = l.by_addr().count();
        }
    });
    let mut has_maps = false;
    o.guard("memory info / linux maps accessors/print", || {
        let info = dump.get_stream::<MinidumpMemoryInfoList>().ok();
        let maps = dump.get_stream::<MinidumpLinuxMaps>().ok();
        has_maps = maps.is_some();
        if let Some(l) = &info {
            let _ = l.print(&mut sink);
            let _ = l.by_addr().count();
            for r in l.iter() {
                let _ = r.memory_range();
                let _ = (r.is_readable(), r.is_writable(), r.is_executable());
                let _ = l.memory_info_at_address(r.raw.base_address);
            }
            let _ = l.memory_info_at_address(u64::MAX);
        }
        if let Some(l) = &maps {
            let _ = l.print(&mut sink);
            let _ = l.by_addr().count();
            let _ = l.memory_map_count();
            for r in l.iter() {
                let _ = r.memory_range();
                let _ = (r.is_readable(), r.is_writable(), r.is_executable());
            }
            let _ = l.memory_info_at_address(0);
        }
        if let Some(u) = UnifiedMemoryInfoList::new(info, maps) {
            let _ = u.print(&mut sink);
            let _ = u.iter().count();
            let _ = u.by_addr().count();
            let _ = u.memory_info_at_address(0x1000);
        }
    });
    if has_maps {
        o.tags.push("sweep:MinidumpLinuxMaps=ok".into());
    }
    o.guard("MinidumpException accessors/print", || {
        if let Ok(x) = dump.get_stream::<MinidumpException>() {
            let _ = x.print(&mut sink, sys.as_ref(), misc.as_ref());
            let _ = x.get_crashing_thread_id();
            if let Some(s) = &sys {
                if let Some(ctx) = x.context(s, misc.as_ref()) {
                    let _ = ctx.print(&mut sink);
                }
            }
            let oses = [os, Os::Windows, Os::MacOs, Os::Ios, Os::Linux, Os::Android, Os::Unknown(0)];
            let cpus = [cpu, Cpu::X86, Cpu::X86_64, Cpu::Arm, Cpu::Arm64, Cpu::Ppc, Cpu::Unknown(0)];
            for o_ in oses {
                for c in cpus {
                    let _ = x.get_crash_address(o_, c);
                    let r = x.get_crash_reason(o_, c);
                    let _ = write!(sink, "{r}");
                }
            }
        }
    });
    macro_rules! simple_print {
        ($t:ty, $name:literal) => {
            let _ = $name;
            let cls = o
                .guard(concat!("get_stream::<", stringify!($t), "> + print"), || match dump.get_stream::<$t>() {
                    Ok(s) => {
                        let _ = s.print(&mut sink);
                        Some("ok")
                    }
                    Err(Error::StreamNotFound) => None,
                    Err(_) => Some("err"),
                })
                .flatten();
            if let Some(c) = cls {
                o.tags.push(format!("sweep:{}={}", stringify!($t), c));
            }
        };
    }
    simple_print!(MinidumpAssertion, "MinidumpAssertion print");
    simple_print!(MinidumpBreakpadInfo, "MinidumpBreakpadInfo print");
    simple_print!(MinidumpCrashpadInfo, "MinidumpCrashpadInfo print");
    simple_print!(MinidumpMacCrashInfo, "MinidumpMacCrashInfo print");
    simple_print!(MinidumpMacBootargs, "MinidumpMacBootargs print");
    simple_print!(MinidumpThreadNames, "MinidumpThreadNames print");
    simple_print!(MinidumpThreadInfoList, "MinidumpThreadInfoList print");
    o.guard("MinidumpAssertion accessors", || {
        if let Ok(a) = dump.get_stream::<MinidumpAssertion>() {
            let _ = (a.expression(), a.function(), a.file());
        }
    });
    o.guard("MinidumpThreadInfoList accessors", || {
        if let Ok(l) = dump.get_stream::<MinidumpThreadInfoList>() {
            for t in &l.thread_infos {
                let _ = l.get_thread_info(t.raw.thread_id);
                let _ = t.print(&mut sink);
            }
        }
    });
    macro_rules! text_stream {
        ($t:ty, $name:literal) => {
            let _ = $name;
            let cls = o
                .guard(concat!("get_stream::<", stringify!($t), "> + iter"), || match dump.get_stream::<$t>() {
                    Ok(s) => {
                        let _ = s.iter().count();
                        let _ = s.raw_bytes().len();
                        Some("ok")
                    }
                    Err(Error::StreamNotFound) => None,
                    Err(_) => Some("err"),
                })
                .flatten();
            if let Some(c) = cls {
                o.tags.push(format!("sweep:{}={}", stringify!($t), c));
            }
        };
    }
    text_stream!(MinidumpLinuxLsbRelease, "MinidumpLinuxLsbRelease iter");
    text_stream!(MinidumpLinuxEnviron, "MinidumpLinuxEnviron iter");
    text_stream!(MinidumpLinuxCpuInfo, "MinidumpLinuxCpuInfo iter");
    text_stream!(MinidumpLinuxProcStatus, "MinidumpLinuxProcStatus iter");
    text_stream!(MinidumpLinuxProcLimits, "MinidumpLinuxProcLimits iter");
    o.guard("MinidumpSoftErrors", || {
        if let Ok(s) = dump.get_stream::<MinidumpSoftErrors>() {
            let _ = s.as_ref().len();
        }
    });
    o.tags.push(format!("printed-bytes-log2={}", 64 - sink.0.leading_zeros()));
}

// ------------------------------------------------------------------------------------ one case

struct CaseOut {
    line: String,
    oracle: Vec<(String, String)>,
    tags: Vec<String>,
    nontrivial: bool,
    a: meter::Stats,
    b: meter::Stats,
}

fn run_case(all: &[u8], shared: &Arc<meter::Shared>) -> CaseOut {
    let mut o = Out { oracle: vec![], tags: vec![], n: all.len() as u64, shared: shared.clone(), per_op: false, b: Default::default() };
    meter::start(shared);
    let mut nontrivial = false;
    let line;
    let mut dump_opt = None;
    match o.guard("Minidump::read", || Minidump::read(all)) {
        None => line = "hdr:PANIC".to_string(),
        Some(Err(e)) => {
            o.tags.push(format!("hdr=err-{}", e.name()));
            line = format!("hdr:err {}", e.name());
        }
        Some(Ok(dump)) => {
            let be = dump.endian == scroll::Endian::Big;
            o.tags.push(format!("hdr=ok-{}", if be { "be" } else { "le" }));
            let mut parts = vec![format!(
                "hdr:ok {} ver={} n={} dir={}",
                if be { "be" } else { "le" },
                dump.header.version,
                dump.header.stream_count,
                dump.header.stream_directory_rva
            )];
            parts.push(o.guard("Minidump::print", || show_dir(&dump)).unwrap_or_else(|| "dir:PANIC".into()));
            let mut present = 0;
            let mut add = |o: &mut Out, tag: &str, what: &str, f: &dyn Fn() -> String| {
                let s = o.guard(what, f).unwrap_or_else(|| "PANIC".into());
                // the harness's own bookkeeping is not charged to the code under test
                meter::unmetered(|| {
                    let class = if s.starts_with("ok") { "ok" } else { s.as_str() };
                    if class != "err StreamNotFound" {
                        present += 1;
                        o.tags.push(format!("{tag}={}", class.replace(' ', "-")));
                    }
                    parts.push(format!("{tag}:{s}"));
                });
            };
            add(&mut o, "thr", "get_stream::<MinidumpThreadList>", &|| show_threads(&dump));
            add(&mut o, "mod", "get_stream::<MinidumpModuleList>", &|| show_modules(&dump));
            add(&mut o, "unl", "get_stream::<MinidumpUnloadedModuleList>", &|| show_unloaded(&dump));
            add(&mut o, "mem", "get_stream::<MinidumpMemoryList>", &|| show_memory(&dump));
            add(&mut o, "mem64", "get_stream::<MinidumpMemory64List>", &|| show_memory64(&dump, all));
            add(&mut o, "minfo", "get_stream::<MinidumpMemoryInfoList>", &|| show_meminfo(&dump));
            add(&mut o, "tnames", "get_stream::<MinidumpThreadNames>", &|| show_thread_names(&dump, be));
            add(&mut o, "tinfo", "get_stream::<MinidumpThreadInfoList>", &|| show_thread_info(&dump));
            add(&mut o, "hnd", "get_stream::<MinidumpHandleDataStream>", &|| show_handles(&dump));
            add(&mut o, "exc", "get_stream::<MinidumpException> + print + get_crash_address", &|| show_exception(&dump));
            add(&mut o, "cp", "get_stream::<MinidumpCrashpadInfo>", &|| show_crashpad(&dump));
            // second group (`MdModel.DumpFull.readExtra`); rendered after `getmem`
            let mut extra: Vec<String> = Vec::new();
            let mut addx = |o: &mut Out, tag: &str, what: &str, f: &dyn Fn() -> String| {
                let s = o.guard(what, f).unwrap_or_else(|| "PANIC".into());
                meter::unmetered(|| {
                    let class = if s.starts_with("ok") { "ok" } else if s.starts_with("err ") { s.split('/').next().unwrap_or("") } else { "other" };
                    if tag == "tx" || tag == "xctx" {
                        for k in ["X86:", "Amd64:", "Ppc:", "Ppc64:", "Sparc:", "Arm:", "Arm64:", "OldArm64:", "Mips:", "e:read", "e:unknown", "MISMATCH"] {
                            let pat = if tag == "tx" { format!("/{k}") } else { k.to_string() };
                            if (tag == "tx" && s.contains(&pat)) || (tag == "xctx" && s.starts_with(&pat)) {
                                o.tags.push(format!("{tag}-ctx={}", k.trim_end_matches(':')));
                            }
                        }
                        if tag == "tx" {
                            if s.contains("Windows") {
                                o.tags.push("tx-last-error=some".into());
                            }
                            // a stack served by the memory list (not the thread's own descriptor) cannot be told
                            // apart here; the generator's TEB-region cases cover it
                        }
                    }
                    if (tag == "regs" || tag == "xregs") && s != "-" {
                        for k in ["X86:", "Amd64:", "Ppc:", "Ppc64:", "Sparc:", "Arm:", "Arm64:", "OldArm64:", "Mips:"] {
                            if s.contains(&format!("[{k}")) || s.contains(&format!(";{k}")) || s.starts_with(k) {
                                o.tags.push(format!("{tag}-ctx={}", k.trim_end_matches(':')));
                            }
                        }
                    }
                    if tag == "uni" && s != "-" {
                        o.tags.push(format!("uni={}", s.split('/').next().unwrap_or("").replace(':', "-")));
                    }
                    if tag == "osp" && s != "-" {
                        o.tags.push(format!("osp={}", if s.ends_with("/-") { "no-build" } else { "build" }));
                    }
                    if tag == "maps" && s.starts_with("PANIC:") {
                        o.tags.push(format!("maps={}", s.replace(':', "-")));
                    }
                    if class != "err StreamNotFound" && class != "other" {
                        present += 1;
                        o.tags.push(format!("{tag}={}", class.replace(' ', "-")));
                    }
                    extra.push(format!("{tag}:{s}"));
                });
            };
            addx(&mut o, "sys", "get_stream::<MinidumpSystemInfo>", &|| show_sys(&dump));
            addx(&mut o, "tx", "MinidumpThread::{context, stack_memory, last_error, print}", &|| show_threads_x(&dump, all));
            let (xctx, rsn) = o
                .guard("MinidumpException::{context, get_crash_reason, get_crash_address}", || show_exc_x(&dump, all))
                .unwrap_or_else(|| ("PANIC".into(), "PANIC".into()));
            addx(&mut o, "xctx", "-", &|| xctx.clone());
            addx(&mut o, "rsn", "-", &|| rsn.clone());
            addx(&mut o, "mpr", "MinidumpMemory::print (first region)", &|| show_mem_printed(&dump));
            addx(&mut o, "lsb", "MinidumpLinuxLsbRelease::iter", &|| show_kv_stream!(dump, MinidumpLinuxLsbRelease));
            addx(&mut o, "env", "MinidumpLinuxEnviron::iter", &|| show_kv_stream!(dump, MinidumpLinuxEnviron));
            addx(&mut o, "cpui", "MinidumpLinuxCpuInfo::iter", &|| show_kv_stream!(dump, MinidumpLinuxCpuInfo));
            addx(&mut o, "stat", "MinidumpLinuxProcStatus::iter", &|| show_kv_stream!(dump, MinidumpLinuxProcStatus));
            addx(&mut o, "lim", "MinidumpLinuxProcLimits::iter", &|| show_limits(&dump));
            addx(&mut o, "bp", "get_stream::<MinidumpBreakpadInfo>", &|| show_breakpad(&dump));
            addx(&mut o, "asrt", "get_stream::<MinidumpAssertion> + accessors", &|| show_assertion(&dump));
            addx(&mut o, "mac", "get_stream::<MinidumpMacCrashInfo> + print", &|| show_mac(&dump));
            addx(&mut o, "boot", "get_stream::<MinidumpMacBootargs>", &|| show_bootargs(&dump));
            // third group (`MdModel.DumpFull.readMore`)
            addx(&mut o, "misc", "get_stream::<MinidumpMiscInfo> + accessors + print", &|| show_misc(&dump));
            // the Linux-maps reader can panic (known finding): the group then names the panic site's class
            let maps_s = match o.guard("get_stream::<MinidumpLinuxMaps> + memory_info_at_address", || show_maps(&dump)) {
                Some(s) => s,
                None => format!("PANIC:{}", maps_panic_class(&LAST_PANIC.with(|p| p.borrow().clone()))),
            };
            addx(&mut o, "maps", "-", &|| maps_s.clone());
            let uni_s = match o.guard("UnifiedMemoryInfoList::{new, iter, by_addr, memory_info_at_address, print}", || show_unified(&dump)) {
                Some(s) => s,
                None => format!("PANIC:{}", maps_panic_class(&LAST_PANIC.with(|p| p.borrow().clone()))),
            };
            addx(&mut o, "uni", "-", &|| uni_s.clone());
            addx(&mut o, "osp", "MinidumpSystemInfo::os_parts", &|| show_os_parts(&dump));
            addx(&mut o, "ids", "MinidumpModule::{debug_identifier, code_identifier, debug_file, version, print}", &|| show_module_ids(&dump));
            addx(&mut o, "uids", "MinidumpUnloadedModule::code_identifier", &|| show_unloaded_ids(&dump));
            addx(&mut o, "soft", "get_stream::<MinidumpSoftErrors>", &|| show_soft(&dump));
            addx(&mut o, "regs", "MinidumpContext::{valid_registers, get_register, format_register, register_size} (threads)", &|| show_regs(&dump));
            addx(&mut o, "xregs", "MinidumpContext::{valid_registers, get_register, format_register, register_size} (exception)", &|| show_exc_regs(&dump));
            let gm = o
                .guard("get_memory", || match dump.get_memory() {
                    Some(UnifiedMemoryList::Memory64(_)) => "mem64",
                    Some(UnifiedMemoryList::Memory(_)) => "mem",
                    None => "none",
                })
                .unwrap_or("PANIC");
            nontrivial = present > 0;
            line = meter::unmetered(|| {
                parts.push(format!("getmem:{gm}"));
                parts.extend(extra);
                parts.join(" | ")
            });
            dump_opt = Some(dump);
        }
    }
    let a = meter::lap();
    o.check_alloc("Minidump::read + get_stream of the modelled streams", &a);
    o.per_op = true;
    if let Some(dump) = &dump_opt {
        sweep(dump, &mut o);
    }
    let _ = meter::stop();
    let b = o.b.clone();
    CaseOut { line, oracle: o.oracle, tags: o.tags, nontrivial, a, b }
}

/// `read cat=<category> <hex>` (generated cases; the runner groups failures by the first two fields,
/// so the category goes first) or `read <hex> [cat=<category>]` (corpus files, older replays)
fn parse_case(case: &str) -> Option<(Vec<u8>, String)> {
    let mut it = case.split(' ').filter(|s| !s.is_empty());
    if it.next()? != "read" {
        return None;
    }
    let mut bytes = None;
    let mut cat = String::from("corpus");
    for f in it {
        if let Some(c) = f.strip_prefix("cat=") {
            cat = c.to_string();
        } else if bytes.is_none() {
            bytes = Some(unhex(f)?);
        } else {
            return None;
        }
    }
    Some((bytes?, cat))
}

fn mem_sizes() -> String {
    use std::mem::size_of as s;
    [
        s::<md::MINIDUMP_THREAD>(),
        s::<MinidumpThread>(),
        s::<md::MINIDUMP_MODULE>(),
        s::<MinidumpModule>(),
        s::<md::MINIDUMP_UNLOADED_MODULE>(),
        s::<MinidumpUnloadedModule>(),
        s::<md::MINIDUMP_MEMORY_DESCRIPTOR>(),
        s::<MinidumpMemory>(),
        s::<md::MINIDUMP_MEMORY_DESCRIPTOR64>(),
        s::<MinidumpMemory64>(),
        s::<md::MINIDUMP_MEMORY_INFO>(),
        s::<MinidumpMemoryInfo>(),
        s::<md::MINIDUMP_THREAD_NAME>(),
        s::<MinidumpHandleDescriptor>(),
        s::<MinidumpHandleObjectInformation>(),
        s::<md::MINIDUMP_THREAD_INFO>(),
        s::<MinidumpThreadInfo>(),
        s::<String>(),
        s::<MinidumpModuleCrashpadInfo>(),
    ]
    .iter()
    .map(|n| n.to_string())
    .collect::<Vec<_>>()
    .join(",")
}

fn size_bucket(n: usize) -> &'static str {
    match n {
        0..=31 => "len<32",
        32..=255 => "len<256",
        256..=4095 => "len<4K",
        4096..=65535 => "len<64K",
        _ => "len>=64K",
    }
}

// ----------------------------------------------------------------------------------- generators

fn tend(be: bool) -> TEndian {
    if be {
        TEndian::Big
    } else {
        TEndian::Little
    }
}

fn rand_name(rng: &mut Rng) -> String {
    let pool = ["a", "libxul.so", "C:\\Windows\\ntdll.dll", "κόσμε", "日本語", "😀 emoji", "", "x y", "/usr/lib/libc.so.6"];
    let mut s = pool[rng.below(pool.len() as u64) as usize].to_string();
    if rng.chance(1, 4) {
        for _ in 0..rng.below(40) {
            s.push((b'a' + rng.below(26) as u8) as char);
        }
    }
    s
}

/// The CPU context records `MinidumpContext::read` knows: (processor_architecture, wire size,
/// CPU bit of context_flags, offset of context_flags, context_flags is 64 bits wide).
fn arch_table() -> Vec<(u16, usize, u32, usize, bool)> {
    use scroll::ctx::SizeWith;
    let le = scroll::LE;
    vec![
        (0, md::CONTEXT_X86::size_with(&le), 0x10000, 0, false),
        (10, md::CONTEXT_X86::size_with(&le), 0x10000, 0, false),
        (9, md::CONTEXT_AMD64::size_with(&le), 0x100000, 48, false),
        (3, md::CONTEXT_PPC::size_with(&le), 0x2000_0000, 0, false),
        (0x8002, md::CONTEXT_PPC64::size_with(&le), 0x100_0000, 0, true),
        (0x8001, md::CONTEXT_SPARC::size_with(&le), 0x1000_0000, 0, false),
        (5, md::CONTEXT_ARM::size_with(&le), 0x4000_0000, 0, false),
        (12, md::CONTEXT_ARM64::size_with(&le), 0x40_0000, 0, false),
        (0x8003, md::CONTEXT_ARM64_OLD::size_with(&le), 0x8000_0000, 0, true),
        (1, md::CONTEXT_MIPS::size_with(&le), 0x4_0000, 0, false),
    ]
}

/// A context record for the given architecture. `vary = false`: one that `MinidumpContext::read`
/// accepts (right size, right CPU bit in `context_flags`, arbitrary register contents).
/// `vary = true`: the record size is the accepted one, one byte less / more, 16 more, half, or 0,
/// and the flags carry the right CPU bit alone, with XSTATE / unknown bits (ignored by
/// `from_bits_truncate`), together with another CPU's bit, another CPU's bit alone, or nothing.
fn context_blob_var(arch: (u16, usize, u32, usize, bool), be: bool, rng: &mut Rng, vary: bool) -> Vec<u8> {
    let (_, size, bit, at, wide) = arch;
    let fill = rng.below(3);
    let len = if !vary {
        size
    } else {
        match rng.below(10) {
            0 => size - 1,
            1 => size + 1,
            2 => size + 16,
            3 => size / 2,
            4 => 0,
            5 => at + if wide { 8 } else { 4 },
            _ => size,
        }
    };
    let mut b: Vec<u8> = (0..len)
        .map(|_| match fill {
            0 => 0,
            1 => 0xff,
            _ => rng.next() as u8,
        })
        .collect();
    let other = [0x10000u32, 0x100000, 0x4000_0000, 0x40_0000, 0x8000_0000, 0x4_0000, 0x2000_0000, 0x100_0000, 0x1000_0000, 0x8_0000, 0x2_0000];
    let flags: u64 = if !vary {
        (bit | rng.below(0x40) as u32) as u64
    } else {
        match rng.below(12) {
            0 => (bit | 0x40) as u64,                                  // XSTATE
            1 => (bit | 0x200 | 0x8000 | 0x800) as u64,                // bits no constant declares
            2 => (bit | *rng.pick(&other)) as u64,                     // two CPUs at once (rejected unless equal)
            3 => *rng.pick(&other) as u64,                             // another CPU
            4 => 0,
            5 => 0xffff_ffff,
            6 => (bit as u64) | (rng.next() << 32),                    // high half of a 64-bit flags word
            7 => (rng.next() as u32 & 0xff) as u64,                    // only the non-CPU byte
            _ => (bit | rng.below(0x40) as u32) as u64,
        }
    };
    if wide {
        if b.len() >= at + 8 {
            b[at..at + 8].copy_from_slice(&if be { flags.to_be_bytes() } else { flags.to_le_bytes() });
        }
    } else if b.len() >= at + 4 {
        let f = flags as u32;
        b[at..at + 4].copy_from_slice(&if be { f.to_be_bytes() } else { f.to_le_bytes() });
    }
    b
}

fn context_blob(arch: (u16, usize, u32, usize, bool), be: bool, rng: &mut Rng) -> Vec<u8> {
    context_blob_var(arch, be, rng, false)
}

/// A valid dump built with minidump-synth: a random subset of every stream kind it supports.
fn synth_dump(rng: &mut Rng, be: bool) -> Vec<u8> {
    let e = tend(be);
    let mut d = synth::SynthMinidump::with_endian(e);
    let mut extra: Vec<Section> = Vec::new();
    // system info first (it steers how the others are interpreted)
    let table = arch_table();
    let arch = *rng.pick(&table);
    if rng.chance(7, 8) {
        let plats = [2u32, 3, 0x8101, 0x8201, 0x8203, 0x8102, 0x8204, 1, 0xdead];
        let pa = if rng.chance(1, 10) { *rng.pick(&[6u16, 0x8004, 0xffff]) } else { arch.0 };
        d = d.add_system_info(synth::SystemInfo::new(e).set_processor_architecture(pa).set_platform_id(*rng.pick(&plats)));
    }
    // memory + threads
    let nthreads = rng.below(4);
    for t in 0..nthreads {
        let stack_len = rng.below(200) as usize;
        let stack = synth::Memory::with_section(
            Section::with_endian(e).append_repeated(rng.below(256) as u8, stack_len),
            0x1000_0000 + 0x10000 * t,
        );
        let ctx = match rng.below(8) {
            0 => synth::x86_context(e, 0xabcd1234, 0x1010),
            1 => synth::amd64_context(e, 0x1234abcd1234abcd, 0x1000000010000000),
            2 => synth::arm64_context(e, 0x1234abcd1234abcd, 0x1000000010000000),
            3 => Section::with_endian(e).append_repeated(0x5a, rng.below(64) as usize),
            _ => Section::with_endian(e).append_bytes(&context_blob(arch, be, rng)),
        };
        let thread = synth::Thread::new(e, 0x100 + t as u32 * (1 + rng.below(2) as u32), &stack, &ctx);
        d = d.add_thread(thread).add(ctx);
        if rng.chance(1, 2) {
            d = d.add_memory(stack);
        } else {
            d = d.add(stack);
        }
        if rng.chance(1, 2) {
            let name = synth::DumpString::new(&rand_name(rng), e);
            let tn = synth::ThreadName::new(e, 0x100 + t as u32, if rng.chance(4, 5) { Some(&name) } else { None });
            d = d.add_thread_name(tn).add(name);
        }
    }
    for i in 0..rng.below(3) {
        let m = synth::Memory::with_section(
            Section::with_endian(e).append_repeated(i as u8, rng.below(64) as usize),
            if rng.chance(1, 8) { u64::MAX - rng.below(64) } else { 0x2000_0000 + 0x1000 * i },
        );
        if rng.chance(1, 2) {
            d = d.add_memory(m);
        } else {
            d = d.add_memory64(m);
        }
    }
    // modules
    for i in 0..rng.below(4) {
        let name = synth::DumpString::new(&rand_name(rng), e);
        let base = if rng.chance(1, 8) { u64::MAX - rng.below(0x2000) } else { 0x4000_0000 + 0x10_0000 * i };
        let size = if rng.chance(1, 8) { 0 } else { 0x1000 + rng.below(0x8000) as u32 };
        let mut module = synth::Module::new(e, base, size, &name, 0xb1054d2a, 0x34571371, None);
        let cv = match rng.below(5) {
            0 => Some(
                Section::with_endian(e)
                    .D32(md::CvSignature::Pdb70 as u32)
                    .D32(0xabcd1234)
                    .D16(0xf00d)
                    .D16(0xbeef)
                    .append_bytes(b"\x01\x02\x03\x04\x05\x06\x07\x08")
                    .D32(1)
                    .append_bytes(b"c:\\foo\\file.pdb\0"),
            ),
            1 => Some(
                Section::with_endian(e).D32(md::CvSignature::Pdb20 as u32).D32(0).D32(0xabcd1234).D32(1).append_bytes(b"file.pdb\0"),
            ),
            2 => Some(Section::with_endian(e).D32(md::CvSignature::Elf as u32).append_repeated(0x42, rng.below(40) as usize)),
            3 => Some(Section::with_endian(e).D32(0x12345678).append_repeated(1, rng.below(600) as usize)),
            _ => None,
        };
        if let Some(cv) = &cv {
            module = module.cv_record(cv);
        }
        d = d.add_module(module).add(name);
        if let Some(cv) = cv {
            d = d.add(cv);
        }
    }
    for i in 0..rng.below(3) {
        let name = synth::DumpString::new(&rand_name(rng), e);
        let um = synth::UnloadedModule::new(e, 0x5000_0000 + 0x1000 * i, 0x1000 + rng.below(2) as u32 * 0x1000, &name, 0x1, 0x2);
        d = d.add_unloaded_module(um).add(name);
    }
    for i in 0..rng.below(4) {
        d = d.add_memory_info(synth::MemoryInfo::new(
            e,
            if rng.chance(1, 8) { u64::MAX - 0x10 } else { 0x7000_0000 + 0x1000 * i },
            0x7000_0000,
            md::MemoryProtection::PAGE_EXECUTE_READ.bits(),
            if rng.chance(1, 8) { 0 } else { 0x1000 },
            md::MemoryState::MEM_COMMIT.bits(),
            md::MemoryProtection::PAGE_READWRITE.bits(),
            md::MemoryType::MEM_PRIVATE.bits(),
        ));
    }
    for i in 0..rng.below(3) {
        let tn = synth::DumpString::new("File", e);
        let on = synth::DumpString::new(&rand_name(rng), e);
        let h = synth::HandleDescriptor::new(e, 0x1234 + i, Some(&tn), if rng.chance(1, 2) { Some(&on) } else { None }, 0x12, 0x34, 1, 2);
        d = d.add_handle_descriptor(h).add(tn).add(on);
    }
    if rng.chance(1, 2) {
        let mut x = synth::Exception::new(e);
        x.thread_id = 0x100;
        x.exception_record.exception_code = *rng.pick(&[0xC0000005u32, 0xC0000006, 11, 6, 0x80000003, 1, 0xdeadbeef]);
        x.exception_record.exception_flags = rng.below(4) as u32;
        x.exception_record.exception_address = rng.next();
        x.exception_record.number_parameters = *rng.pick(&[0u32, 1, 2, 3, 14, 15, 16, 17, 255, u32::MAX]);
        for k in 0..15 {
            x.exception_record.exception_information[k] = rng.next() >> rng.below(64);
        }
        let ctx = synth::x86_context(e, 0x1111, 0x2222);
        extra.push(ctx);
        d = d.add_exception(x);
    }
    if rng.chance(1, 3) {
        let mut misc = synth::MiscStream::new(e);
        misc.process_id = Some(1234);
        if rng.chance(1, 2) {
            misc.process_times = Some(synth::MiscFieldsProcessTimes { process_create_time: 0xf0f0b0b0, process_user_time: 1, process_kernel_time: 2 });
        }
        d = d.add_stream(misc);
    }
    if rng.chance(1, 3) {
        let module = synth::ModuleCrashpadInfo::new(rng.below(3) as u32, e)
            .add_list_annotation("annotation")
            .add_simple_annotation("simple", "module")
            .add_annotation_object("string", synth::AnnotationValue::String("value".to_owned()))
            .add_annotation_object("invalid", synth::AnnotationValue::Invalid)
            .add_annotation_object("custom", synth::AnnotationValue::Custom(0x8001, vec![42]));
        let ci = synth::CrashpadInfo::new(e).add_module(module).add_simple_annotation("simple", "info");
        d = d.add_crashpad_info(ci);
    }
    if rng.chance(1, 3) {
        let maps: Vec<u8> = match rng.below(4) {
            0 => b"00400000-00452000 r-xp 00000000 08:01 1234                       /bin/foo\n7f0000000000-7f0000021000 rw-p 00000000 00:00 0                          [stack]\nffffffffff600000-ffffffffff601000 --xp 00000000 00:00 0                  [vsyscall]\n".to_vec(),
            1 => b"00400000-00452000 r-xp 00000000 08:01 1234 /bin/foo\n7f00-7fff rw-p 0 00:00 0 [stack]\nbad line\n".to_vec(),
            _ => maps_text(rng),
        };
        // half of the time the key/value text streams are grammar-generated (hostile quoting, missing
        // separators, lone quotes, NULs, non-UTF-8, CRLF), otherwise the plain samples
        let gen = rng.chance(1, 2);
        let (lsb, status, limits, cpu, env) = if gen {
            (kv_text(rng, b'=', b'\n'), kv_text(rng, b':', b'\n'), kv_text(rng, b' ', b'\n'), kv_text(rng, b':', b'\n'), kv_text(rng, b'=', 0))
        } else {
            (
                b"DISTRIB_ID=Ubuntu\nDISTRIB_RELEASE=\"20.04\"\n".to_vec(),
                b"Name:\tfoo\nPid:\t42\n".to_vec(),
                b"Limit Soft Hard Units\nMax cpu time unlimited unlimited seconds\nx\n".to_vec(),
                b"processor : 0\nmodel name : x\n\nmicrocode : 0x1\n".to_vec(),
                b"A=b\0C=d\0junk\0".to_vec(),
            )
        };
        d = d
            .set_linux_maps(&maps)
            .set_linux_lsb_release(&lsb)
            .set_linux_proc_status(&status)
            .set_linux_proc_limits(&limits)
            .set_linux_cpu_info(&cpu)
            .set_linux_environ(&env)
            .set_soft_errors(*rng.pick(&["[{\"a\":1}]", "[]", "{}", "[1,2", "", "null", "[{\"a\":\"\\ud800\"}]"]));
    }
    for s in extra {
        d = d.add(s);
    }
    d.finish().unwrap_or_default()
}

/// One token of a key/value text stream: ordinary words and everything a sloppy quote/trim helper gets wrong.
fn kv_token(rng: &mut Rng) -> Vec<u8> {
    match rng.below(18) {
        0 => vec![],
        1 => b"\"".to_vec(),          // a lone quote
        2 => b"\"\"".to_vec(),        // empty quoted string
        3 => b"\"quoted value\"".to_vec(),
        4 => b"\"open".to_vec(),
        5 => b"close\"".to_vec(),
        6 => b" \" ".to_vec(),        // lone quote surrounded by blanks (trimmed first)
        7 => b"  padded  ".to_vec(),
        8 => b"\t".to_vec(),
        9 => b"caf\xc3\xa9 \xf0\x9f\xa6\x80".to_vec(),
        10 => b"bad\xff\xfe".to_vec(),
        11 => b"\xc3".to_vec(),       // truncated UTF-8 sequence
        12 => vec![b'x'; rng.range(100, 5000) as usize],
        13 => b"'".to_vec(),
        14 => b"\"\"\"".to_vec(),
        _ => {
            let n = rng.range(1, 10);
            (0..n).map(|_| b"abcXYZ019_-./ "[rng.below(14) as usize]).collect()
        }
    }
}

/// Text of a `key<sep>value` stream (lsb-release, environ, cpuinfo, status, limits): 0..10 lines.
fn kv_text(rng: &mut Rng, sep: u8, eol: u8) -> Vec<u8> {
    let mut out = vec![];
    for _ in 0..rng.below(11) {
        match rng.below(10) {
            0 => {}                                   // blank line
            1 => out.extend(kv_token(rng)),           // no separator at all
            2 => {
                out.push(sep);                        // empty key
                out.extend(kv_token(rng));
            }
            3 => {
                out.extend(kv_token(rng));            // empty value
                out.push(sep);
            }
            4 => {
                out.extend(kv_token(rng));            // separator repeated inside the value
                out.push(sep);
                out.extend(kv_token(rng));
                out.push(sep);
                out.extend(kv_token(rng));
            }
            _ => {
                out.extend(kv_token(rng));
                if rng.chance(1, 3) {
                    out.extend(*rng.pick(&[&b" "[..], b"\t", b"  "]));
                }
                out.push(sep);
                if rng.chance(1, 3) {
                    out.extend(*rng.pick(&[&b" "[..], b"\t", b"  "]));
                }
                out.extend(kv_token(rng));
            }
        }
        match rng.below(8) {
            0 => out.extend(b"\r\n"),
            1 => out.push(0),
            2 if rng.chance(1, 2) => {}               // lines glued together / missing final terminator
            _ => out.push(eol),
        }
    }
    out
}

/// `/proc/<pid>/maps` text with hostile fields.
fn maps_text(rng: &mut Rng) -> Vec<u8> {
    let mut out = String::new();
    if rng.chance(1, 3) {
        // well-formed lines only (the parser stops at the first malformed one), then ONE line with a
        // path shape procfs-core's `MMapPath::from` slices, or an smaps attribute with a huge value
        for i in 0..rng.below(3) {
            out.push_str(&format!("{:08x}-{:08x} rw-p 00000000 00:00 0 [heap]\n", 0x10000 * (i + 1), 0x10000 * (i + 1) + 0x1000));
        }
        // well-formed entries whose address pair is a boundary of `memory_range()` / the lookup table: both ends 0,
        // the whole address space, one byte, start above end, the top of the address space
        if rng.chance(1, 2) {
            let (lo, hi) = *rng.pick(&[(0u64, 0u64), (0, u64::MAX), (0x5000, 0x5000), (0x5001, 0x5000), (u64::MAX, u64::MAX), (u64::MAX - 1, u64::MAX), (0, 1)]);
            out.push_str(&format!("{:x}-{:x} r--p 00000000 00:00 0 {}\n", lo, hi, rng.pick(&["", "[vdso]", "/lib/y.so"])));
        }
        let path = *rng.pick(&[
            "/SYSV00000000 (deleted)", "/SYSV12", "/SYSV", "/SYSV1234567\u{e9}", "/SYSVzzzzzzzz", "[stack:12]", "[stack:", "[stack:7\u{e9}",
            "[stack:x]", "[anon:\u{e9}]", "[", "[\u{e9}", "/usr/lib/libc.so.6", "[stack:\u{e9}]",
        ]);
        out.push_str(&format!("00400000-0040b000 r-xp 00000000 08:01 {} {}\n", rng.below(1 << 20), path));
        if rng.chance(1, 2) {
            out.push_str(*rng.pick(&["Rss: 4 kB\n", "Size: 18446744073709551615 kB\n", "Rss: 18014398509481984 kB\n", "VmFlags: rd ex mr\n", "Rss: x kB\n", "Rss:\n", "Pss: 18014398509481983 kB\n"]));
        }
        return out.into_bytes();
    }
    if rng.chance(1, 4) {
        // an smaps-style text: benign entries, each followed by attribute lines — among them the shapes around the
        // `v * 1024` overflow (2^54 kB overflows, 2^54 - 1 does not; no suffix = no multiplication; `VmFlags…` is exempt)
        for i in 0..1 + rng.below(3) {
            out.push_str(&format!("{:08x}-{:08x} rw-p 00000000 00:00 0 {}\n", 0x10000 * (i + 1), 0x10000 * (i + 1) + 0x1000, rng.pick(&["[heap]", "", "/lib/x.so", "[stack:12]", "/SYSV00000000 (deleted)"])));
            for _ in 0..rng.below(4) {
                out.push_str(*rng.pick(&[
                    "Rss: 4 kB\n", "Size: 18446744073709551615 kB\n", "Rss: 18014398509481984 kB\n", "Pss: 18014398509481983 kB\n", "VmFlags: rd ex mr\n",
                    "VmFlagsX 18014398509481984 kB\n", "Rss: 18014398509481984\n", "Rss:\t18014398509481984\tkB extra\n", "Rss: +18014398509481984 kB\n", "Rss: x kB\n", "Rss:\n",
                    "THPeligible:    0\n", "Name 18446744073709551616 kB\n",
                ]));
            }
        }
        return out.into_bytes();
    }
    let hex = |rng: &mut Rng| -> String {
        match rng.below(10) {
            0 => "0".into(),
            1 => "ffffffffffffffff".into(),
            2 => "10000000000000000".into(),
            3 => "zz".into(),
            4 => String::new(),
            5 => format!("{:x}", u64::MAX - rng.below(0x2000)),
            _ => format!("{:x}", rng.below(1 << 47)),
        }
    };
    for _ in 0..rng.below(12) {
        let (lo, hi) = (hex(rng), hex(rng));
        let perms = *rng.pick(&["r-xp", "rw-p", "---p", "rwxs", "", "r", "rwxpp", "\u{e9}---"]);
        match rng.below(8) {
            0 => out.push_str(&format!("{lo}-{hi}\n")),
            1 => out.push_str(&format!("{lo} {hi} {perms}\n")),
            2 => out.push_str(&format!("{lo}-{hi} {perms} {} 08:01\n", hex(rng))),
            3 => out.push_str("\n"),
            4 => out.push_str(&format!("{lo}-{hi} {perms} {} 08:01 {} /a b/c (deleted)\r\n", hex(rng), rng.below(99999))),
            5 => {
                // the path shapes procfs-core's `MMapPath::from` slices, and smaps attribute lines
                let path = *rng.pick(&[
                    "/SYSV00000000 (deleted)", "/SYSV12", "/SYSV", "/SYSV1234567\u{e9}", "/SYSVzzzzzzzz", "[stack:12]", "[stack:", "[stack:7\u{e9}",
                    "[stack:x]", "[heap]", "[anon:\u{e9}]", "[", "[\u{e9}",
                ]);
                if rng.chance(2, 3) {
                    // a well-formed prefix, so that the parser gets as far as the path column
                    out.push_str(&format!("{:08x}-{:08x} r-xp 00000000 08:01 {} {}\n", 0x400000 + rng.below(64) * 0x1000, 0x800000 + rng.below(64) * 0x1000, rng.below(1 << 20), path));
                } else {
                    out.push_str(&format!("{lo}-{hi} {perms} {} 00:00 {} {}\n", hex(rng), rng.below(1 << 20), path));
                }
                if rng.chance(1, 2) {
                    out.push_str(*rng.pick(&["Rss: 4 kB\n", "Size: 18446744073709551615 kB\n", "Rss: 18014398509481984 kB\n", "VmFlags: rd ex mr\n", "Rss: x kB\n", "Rss:\n"]));
                }
            }
            _ => out.push_str(&format!("{lo}-{hi} {perms} {} 00:00 {} {}\n", hex(rng), rng.below(1 << 33), rng.pick(&["", "[stack]", "/lib/x.so", "[vsyscall]", "\"", "   "]))),
        }
    }
    out.into_bytes()
}

/// Little hand-rolled dump writer: full control over the layout (handle descriptors of the
/// 40-byte form with object-info chains, Memory64, thread-info, duplicated directory entries,
/// deliberately cyclic / self-referential RVAs) — things minidump-synth cannot express.
struct W {
    buf: Vec<u8>,
    be: bool,
}
impl W {
    fn u32(&mut self, v: u32) {
        if self.be {
            self.buf.extend_from_slice(&v.to_be_bytes())
        } else {
            self.buf.extend_from_slice(&v.to_le_bytes())
        }
    }
    fn u64(&mut self, v: u64) {
        if self.be {
            self.buf.extend_from_slice(&v.to_be_bytes())
        } else {
            self.buf.extend_from_slice(&v.to_le_bytes())
        }
    }
    fn put32(&mut self, at: usize, v: u32) {
        let b = if self.be { v.to_be_bytes() } else { v.to_le_bytes() };
        self.buf[at..at + 4].copy_from_slice(&b);
    }
    fn here(&self) -> u32 {
        self.buf.len() as u32
    }
    fn utf16(&mut self, s: &str) -> u32 {
        let at = self.here();
        let units: Vec<u16> = s.encode_utf16().collect();
        self.u32(units.len() as u32 * 2);
        for u in units {
            if self.be {
                self.buf.extend_from_slice(&u.to_be_bytes())
            } else {
                self.buf.extend_from_slice(&u.to_le_bytes())
            }
        }
        at
    }
}

/// A raw MISC_INFO stream of `size` bytes: `flags1` as given, the UTF-16 arrays filled per `units`
/// (0 = plain text with a terminator somewhere, 1 = no NUL at all, 2 = lone surrogates, 3 = all NUL,
/// 4 = random mix), `xstate_data.enabled_features` = `enabled`.
fn misc_blob(rng: &mut Rng, be: bool, size: usize, flags: u32, units: u32, enabled: u64) -> Vec<u8> {
    let mut w = W { buf: Vec::new(), be };
    let mut k = 0u32;
    while w.buf.len() + 2 <= size + 2 {
        let u: u16 = match units {
            0 => if k % 29 == 17 { 0 } else { 0x41 + (k % 26) as u16 },
            1 => 0x61 + (k % 26) as u16,
            2 => match k % 5 { 0 => 0xd800, 1 => 0x41, 2 => 0xdc00, 3 => 0xd83d, _ => 0xde00 },
            3 => 0,
            _ => match rng.below(10) { 0 => 0, 1 => 0xd800, 2 => 0xdc00, 3 => 0xfffe, _ => (0x20 + rng.below(0x60)) as u16 },
        };
        if be { w.buf.extend_from_slice(&u.to_be_bytes()) } else { w.buf.extend_from_slice(&u.to_le_bytes()) }
        k += 1;
    }
    w.buf.truncate(size);
    if size >= 8 {
        w.put32(0, size as u32);
        w.put32(4, flags);
    }
    // the scalar fields between the header and the time zone: small numbers
    let mut at = 8;
    while at + 4 <= size.min(60) {
        w.put32(at, rng.below(5000) as u32);
        at += 4;
    }
    if size >= 848 {
        let b = if be { enabled.to_be_bytes() } else { enabled.to_le_bytes() };
        w.buf[840..848].copy_from_slice(&b);
    }
    w.buf
}

/// A CodeView record blob of the given kind, cut / padded / with hostile file names:
/// `kind` 0 = PDB 7.0 (`RSDS`), 1 = PDB 2.0 (`NB10`), 2 = ELF build id (`BpEL`), 3 = unknown signature.
fn cv_blob(rng: &mut Rng, be: bool, kind: u32) -> Vec<u8> {
    let mut w = W { buf: Vec::new(), be };
    let names: [&[u8]; 14] = [
        b"app.pdb\0",
        b"app.pdb",
        b"",
        b"\0",
        b"a\0b\0",
        b"\xff\xfe.pdb\0",
        b"caf\xc3\xa9.pdb\0",
        b"cut\xc3",
        b"\xc0\x80overlong\0",
        b"\xed\xa0\x80surrogate\0",
        b"\xf0\x9f\x98\x80ok\0",
        b"\xf0\x9f\x98",
        b"\xe2\x82x\xf4\x90\x80\x80y\x80\0",
        b"line\nbreak\r\n\0",
    ];
    match kind {
        0 => {
            w.u32(0x5344_5352);
            // GUID: nil, all ones, random
            match rng.below(4) {
                0 => w.buf.extend_from_slice(&[0; 16]),
                1 => w.buf.extend_from_slice(&[0xff; 16]),
                _ => {
                    w.u32(rng.next() as u32);
                    let (a, b) = (rng.next() as u16, rng.next() as u16);
                    if be {
                        w.buf.extend_from_slice(&a.to_be_bytes());
                        w.buf.extend_from_slice(&b.to_be_bytes());
                    } else {
                        w.buf.extend_from_slice(&a.to_le_bytes());
                        w.buf.extend_from_slice(&b.to_le_bytes());
                    }
                    for _ in 0..8 {
                        w.buf.push(rng.next() as u8);
                    }
                }
            }
            w.u32(*rng.pick(&[0u32, 1, 0xa, u32::MAX, 0x1234_5678]));
            w.buf.extend_from_slice(*rng.pick(&names[..]));
        }
        1 => {
            w.u32(0x3031_424e);
            w.u32(rng.below(3) as u32);
            w.u32(*rng.pick(&[0u32, 0x4b3f_2a1d, u32::MAX]));
            w.u32(*rng.pick(&[0u32, 1, 0xabc, u32::MAX]));
            w.buf.extend_from_slice(*rng.pick(&names[..]));
        }
        2 => {
            w.u32(0x4270_454c);
            let n = *rng.pick(&[0usize, 1, 3, 8, 15, 16, 17, 20, 32, 64]);
            let zero = rng.chance(1, 4);
            for k in 0..n {
                w.buf.push(if zero || (rng.chance(1, 6) && k < 16) { 0 } else { rng.next() as u8 });
            }
        }
        _ => {
            let r = rng.next() as u32;
            w.u32(*rng.pick(&[0u32, 0x5344_5353, 0x3031_424d, u32::MAX, r]));
            for _ in 0..rng.below(40) {
                w.buf.push(rng.next() as u8);
            }
        }
    }
    // cut anywhere now and then (a record shorter than its fixed part, a GUID / age cut in the middle)
    if rng.chance(1, 3) {
        let k = rng.below(w.buf.len() as u64 + 1) as usize;
        w.buf.truncate(k);
    }
    w.buf
}

/// Directed: the records the identifier accessors, `os_parts`, `UnifiedMemoryInfoList` and the soft-errors
/// reader work on — a system info of a chosen platform / version / CSD text, a module list whose CodeView
/// records are `cv_blob`s, an unloaded-module list, a memory-info list with empty / huge / overlapping /
/// wrapping regions, optionally Linux maps, optionally a soft-errors stream (UTF-8 or not).
fn ids_dump(rng: &mut Rng, be: bool, idx: usize) -> Vec<u8> {
    let mut w = start_dump(be);
    let mut dir: Vec<(u32, u32, u32)> = Vec::new();
    let csds = [
        "Linux 5.4.0-42-generic #46-Ubuntu SMP Fri Jul 10 00:24:02 UTC 2020 x86_64 Linux/GNU",
        "Linux 5.4.0-42-generic #46-Ubuntu SMP x86_64",
        "Linux 4.9.0 Linux/GNU",
        "Linux 0.0.0 #1 x86_64 Linux/GNU",
        "Linux",
        "Linux ",
        "Linux  x  Linux/GNU",
        "Linux 6.1 Linux/GNU Linux/GNU",
        "Linux/GNU",
        "",
        " ",
        "\u{2003}Service Pack 1\u{a0}",
        "\t\n 19H2 \u{3000}",
        "a b",
    ];
    let s_csd = w.utf16(csds[idx % csds.len()]);
    let s_name = w.utf16(*rng.pick(&["libxul.so", "C:\\w\\app.exe", "", "caf\u{e9}\u{1F600}", "/SYSV00000000 (deleted)"]));
    // CodeView blobs
    let mut cvs = Vec::new();
    for k in 0..3u32 {
        let blob = cv_blob(rng, be, (idx as u32 / 2 + k) % 4);
        let at = w.here();
        w.buf.extend_from_slice(&blob);
        cvs.push((blob.len() as u32, at));
    }
    // system info
    if idx % 9 != 8 {
        let at = w.here();
        let put16 = |w: &mut W, v: u16| {
            if w.be {
                w.buf.extend_from_slice(&v.to_be_bytes())
            } else {
                w.buf.extend_from_slice(&v.to_le_bytes())
            }
        };
        put16(&mut w, *rng.pick(&[0u16, 9, 12, 5]));
        put16(&mut w, 6);
        put16(&mut w, 0x0d08);
        w.buf.push(2);
        w.buf.push(1);
        let zero_ver = idx % 3 != 2;
        w.u32(if zero_ver { 0 } else { *rng.pick(&[10u32, 0, u32::MAX]) });
        w.u32(if zero_ver { 0 } else { rng.below(3) as u32 });
        w.u32(if zero_ver { 0 } else { *rng.pick(&[19041u32, 0, 1]) });
        w.u32([0x8201u32, 0x8201, 2, 0x8101, 0x8203, 0x8102, 0x7fff_ffff][idx % 7]);
        w.u32(*rng.pick(&[s_csd, s_csd, s_csd, s_csd, 0, u32::MAX]));
        put16(&mut w, 0);
        put16(&mut w, 0);
        w.buf.extend_from_slice(b"GenuineIntel\x01\x02\x03\x04\x05\x06\x07\x08\x09\x0a\x0b\x0c");
        dir.push((7, w.here() - at, at));
    }
    // module list
    {
        let at = w.here();
        w.u32(cvs.len() as u32);
        for (k, (sz, rva)) in cvs.iter().enumerate() {
            w.u64(0x40_0000 + 0x10_0000 * k as u64);
            w.u32(0x8000);
            w.u32(0);
            w.u32(*rng.pick(&[0x4b3f_2a1du32, 0, u32::MAX]));
            w.u32(s_name);
            // VS_FIXEDFILEINFO: a real signature / struct version most of the time
            let good = rng.chance(3, 4);
            w.u32(if good { 0xfeef_04bd } else { rng.next() as u32 });
            w.u32(if good { 0x0001_0000 } else { 0 });
            for _ in 0..11 {
                w.u32(*rng.pick(&[0u32, 1, 0x0005_0002, 0xffff_ffff, 0x0001_0000]));
            }
            // cv_record: the blob, one byte more / less, or absent
            let dsz = match rng.below(8) {
                0 => sz.wrapping_sub(1),
                1 => sz + 1,
                2 => 0,
                _ => *sz,
            };
            w.u32(dsz);
            w.u32(*rva);
            w.u32(0);
            w.u32(0);
            w.u64(0);
            w.u64(0);
        }
        dir.push((4, w.here() - at, at));
    }
    // unloaded modules
    if idx % 2 == 0 {
        let at = w.here();
        w.u32(12);
        w.u32(24);
        w.u32(2);
        for k in 0..2u64 {
            w.u64(0x7000_0000 + 0x1_0000 * k);
            w.u32(*rng.pick(&[0x1000u32, 1, u32::MAX]));
            w.u32(0);
            w.u32(*rng.pick(&[0u32, 0x5f00_0000, u32::MAX]));
            w.u32(s_name);
        }
        dir.push((14, w.here() - at, at));
    }
    // memory info list: empty, huge, overlapping, identical, wrapping regions
    if idx % 4 != 3 {
        let at = w.here();
        let n = 1 + rng.below(6) as u32;
        w.u32(16);
        w.u32(48);
        w.u64(n as u64);
        for _ in 0..n {
            let base = *rng.pick(&[0u64, 0x1000, 0x2000, 0x2800, u64::MAX - 0xfff, u64::MAX, 0x7fff_0000_0000]);
            let size = *rng.pick(&[0u64, 1, 0x1000, 0x1000, 0x1800, u64::MAX, 0x1_0000_0000]);
            w.u64(base);
            w.u64(base);
            w.u32(4);
            w.u32(0);
            w.u64(size);
            w.u32(0x1000);
            w.u32(*rng.pick(&[0x04u32, 0x20, 0x40, 0x01, 0]));
            w.u32(0x2_0000);
            w.u32(0);
        }
        dir.push((16, w.here() - at, at));
    }
    if idx % 4 >= 2 {
        let t = maps_text(rng);
        let at = w.here();
        w.buf.extend_from_slice(&t);
        dir.push((0x4767_0009, t.len() as u32, at));
    }
    if idx % 3 == 0 {
        let t: &[u8] = *rng.pick(&[&b"[]"[..], b"[{\"error\": \"x\"}]", b"", b"\xff\xfe", b"caf\xc3\xa9", b"cut\xc3", b"\xed\xa0\x80"]);
        let at = w.here();
        w.buf.extend_from_slice(t);
        dir.push((0x4d7a_0004, t.len() as u32, at));
    }
    finish_dump(w, &dir)
}

fn crafted_dump(rng: &mut Rng, be: bool, idx: usize) -> Vec<u8> {
    let mut w = W { buf: Vec::new(), be };
    // header, patched at the end
    w.u32(md::MINIDUMP_SIGNATURE);
    w.u32(md::MINIDUMP_VERSION | ((rng.below(4) as u32) << 16));
    w.u32(0);
    w.u32(0);
    w.u32(0);
    w.u32(0x4b3f_2a1d);
    w.u64(0);
    let mut dir: Vec<(u32, u32, u32)> = Vec::new(); // (type, size, rva)

    // system info + context records of the matching architecture (one accepted, one varied)
    let table = arch_table();
    let arch = table[idx % table.len()];
    let ctx_blob = context_blob(arch, be, rng);
    let ctx_at = w.here();
    w.buf.extend_from_slice(&ctx_blob);
    let ctx2_blob = context_blob_var(arch, be, rng, true);
    let ctx2_at = w.here();
    w.buf.extend_from_slice(&ctx2_blob);
    // bytes behind the varied record, so that `data_size + 1` still lies in the file
    w.u64(0x1122_3344_5566_7788);
    let s_csd = w.utf16(*rng.pick(&["Service Pack 2", "", "Linux 5.4.0-42-generic #46-Ubuntu SMP x86_64", "19H2 \u{1F980}"]));
    // a region of "process memory" holding TEBs and a stack: threads refer to it by address only
    let teb_base: u64 = *rng.pick(&[0x7ffd_e000u64, 0x7ffd_e000, u64::MAX - 0x1ff, 0x1000]);
    let teb_mem_at = w.here();
    for k in 0..0x200u32 {
        w.buf.push((k * 7 + 1) as u8);
    }
    let put16 = |w: &mut W, v: u16| {
        if w.be {
            w.buf.extend_from_slice(&v.to_be_bytes())
        } else {
            w.buf.extend_from_slice(&v.to_le_bytes())
        }
    };
    if rng.chance(7, 8) {
        let at = w.here();
        let r16 = rng.next() as u16;
        let pa = if rng.chance(1, 6) { *rng.pick(&[6u16, 0x8004, 0xffff, 2, 4, 7, 8, 11, 13, 0x8000, r16]) } else { arch.0 };
        put16(&mut w, pa);
        put16(&mut w, *rng.pick(&[6u16, 7, 8, 0, 0xffff]));
        put16(&mut w, rng.next() as u16);
        w.buf.push(4);
        w.buf.push(1);
        w.u32(10);
        w.u32(0);
        w.u32(19041);
        w.u32(*rng.pick(&[2u32, 3, 0x8101, 0x8102, 0x8201, 0x8203, 0x8204, 7]));
        w.u32(*rng.pick(&[s_csd, s_csd, s_csd, 0, ctx_at, u32::MAX, s_csd + 1, s_csd + 2]));
        put16(&mut w, 0);
        put16(&mut w, 0);
        if pa == 5 {
            // ARMCpuInfo: cpuid (known vendor/part now and then), elf_hwcaps
            let (r1, r2) = (rng.next() as u32, rng.next() as u32);
            w.u32(*rng.pick(&[0x410f_c090u32, 0x510f_06f2, 0x4100_b360, 0x6900_0000, 0, r1]));
            w.u32(*rng.pick(&[0u32, 1, 0x0006_0000, u32::MAX, r2]));
            for _ in 0..16 {
                w.buf.push(rng.next() as u8);
            }
        } else {
            for k in 0..24 {
                w.buf.push(if k < 12 { b"GenuineIntel"[k] } else { rng.next() as u8 });
            }
        }
        // sometimes one byte short / long
        let sz = (w.here() - at).wrapping_add(*rng.pick(&[0u32, 0, 0, 0, 0, 0, 1, u32::MAX]));
        dir.push((7, sz, at));
    }
    // a thread list whose contexts are those records
    if rng.chance(3, 4) {
        let at = w.here();
        let n = 1 + rng.below(3) as u32;
        w.u32(n);
        for i in 0..n {
            w.u32(0x200 + i);
            w.u32(0);
            w.u32(0);
            w.u32(0);
            // teb: so that teb + 13 * pointer-width falls into / next to / far from the TEB region
            w.u64(*rng.pick(&[teb_base, teb_base.wrapping_add(0x100), teb_base.wrapping_add(0x1f8 - 52), teb_base.wrapping_add(0x1f8 - 104), 0, u64::MAX, u64::MAX - 100, teb_base.wrapping_sub(60)]));
            // stack: own memory, or (rva 0 / size 0) only an address inside the TEB region
            w.u64(*rng.pick(&[0xa000_0000u64, teb_base.wrapping_add(0x80), teb_base, teb_base.wrapping_add(0x1ff), teb_base.wrapping_add(0x200)]));
            w.u32(*rng.pick(&[64u32, 0, u32::MAX, 0x200, 7, 8, 9]));
            w.u32(*rng.pick(&[ctx_at, 0, 0, 32, teb_mem_at]));
            let (blob_at, blob_len) = if rng.chance(1, 2) { (ctx_at, ctx_blob.len() as u32) } else { (ctx2_at, ctx2_blob.len() as u32) };
            w.u32(match rng.below(8) {
                0 => blob_len.wrapping_sub(1),
                1 => blob_len + 1,
                2 => 0,
                3 => u32::MAX,
                _ => blob_len,
            });
            w.u32(*rng.pick(&[blob_at, blob_at, blob_at, blob_at, 0, u32::MAX]));
        }
        dir.push((3, w.here() - at, at));
    }
    // the key/value text streams, grammar-generated, at the raw byte level
    if rng.chance(1, 2) {
        for (ty, sep) in [(0x4767_0005u32, b'='), (0x4767_0007, b'='), (0x4767_0003, b':'), (0x4767_0004, b':'), (0x4d7a_0003, b' ')] {
            if rng.chance(3, 4) {
                let eol = if ty == 0x4767_0007 && rng.chance(1, 2) { 0 } else { b'\n' };
                let t = kv_text(rng, sep, eol);
                let at = w.here();
                w.buf.extend_from_slice(&t);
                dir.push((ty, t.len() as u32, at));
            }
        }
    }
    let teb_region = (teb_base, 0x200u32, teb_mem_at);

    // strings
    let s_type = w.utf16("Event");
    let s_obj = w.utf16(&rand_name(rng));

    // object-info records: n records, chained in a shape chosen below
    let n_info = 1 + rng.below(6) as usize;
    let info_at: Vec<u32> = (0..n_info).map(|i| w.here() + 12 * i as u32).collect();
    let shape = rng.below(8);
    for i in 0..n_info {
        let next = match shape {
            0 => info_at.get(i + 1).copied().unwrap_or(0),                // proper chain
            1 => info_at[i],                                              // self loop
            2 => info_at[(i + 1) % n_info],                               // cycle through all
            3 => info_at.get(i + 1).copied().unwrap_or(info_at[0]),       // lasso
            4 => info_at.get(i + 1).copied().unwrap_or(0xffff_fff0),      // runs off the file
            5 => info_at.get(i + 1).copied().unwrap_or(4),                // into the header
            6 => info_at.get(i + 1).copied().unwrap_or(info_at[i] + 4),   // overlapping records
            _ => *rng.pick(&info_at),                                     // random graph
        };
        w.u32(next);
        w.u32(if rng.chance(1, 10) { *rng.pick(&[10u32, 99, u32::MAX]) } else { rng.below(10) as u32 });
        w.u32(12);
    }

    // handle data stream, descriptor size 40 (or 32 / something odd)
    {
        let at = w.here();
        let desc_size: u32 = *rng.pick(&[40u32, 40, 40, 32, 0, 1, 36, 48]);
        let n = rng.below(4) as u32;
        let hdr = *rng.pick(&[16u32, 16, 16, 12, 20, 0]);
        w.u32(hdr);
        w.u32(desc_size);
        w.u32(if rng.chance(1, 12) { *rng.pick(&[u32::MAX, 1 << 31, 1000]) } else { n });
        w.u32(0);
        for _ in 16..hdr {
            w.buf.push(0);
        }
        for i in 0..n {
            w.u64(0x40 + i as u64);
            w.u32(if rng.chance(1, 5) { 0 } else { s_type });
            w.u32(if rng.chance(1, 5) { *rng.pick(&[0u32, 1, u32::MAX]) } else { s_obj });
            w.u32(1);
            w.u32(2);
            w.u32(3);
            w.u32(4);
            if desc_size >= 40 {
                w.u32(if rng.chance(1, 6) { 0 } else { *rng.pick(&info_at) });
                w.u32(0);
            }
            for _ in 40..desc_size.min(64) {
                w.buf.push(0);
            }
        }
        dir.push((12, w.here() - at, at));
    }
    // memory64 list (its first region is the TEB region when the data directly follows it)
    if rng.chance(1, 2) {
        let n = rng.below(4);
        let sizes: Vec<u64> = (0..n).map(|_| rng.below(40)).collect();
        let data_at = w.here();
        for (i, s) in sizes.iter().enumerate() {
            for _ in 0..*s {
                w.buf.push(i as u8);
            }
        }
        let at = w.here();
        w.u64(if rng.chance(1, 10) { *rng.pick(&[u64::MAX, 1 << 60, n + 1]) } else { n });
        w.u64(if rng.chance(1, 10) { *rng.pick(&[u64::MAX, u64::MAX - 8, 0]) } else { data_at as u64 });
        for (i, s) in sizes.iter().enumerate() {
            w.u64(0x9000_0000 + 0x1000 * i as u64);
            w.u64(if rng.chance(1, 12) { *rng.pick(&[u64::MAX, 1 << 63, 1 << 32]) } else { *s });
        }
        dir.push((9, w.here() - at, at));
    }
    // thread info list (ex list, entry size 64)
    if rng.chance(1, 2) {
        let at = w.here();
        let n = rng.below(3) as u32;
        let hdr = *rng.pick(&[12u32, 12, 16, 8, 0]);
        w.u32(hdr);
        w.u32(*rng.pick(&[64u32, 64, 64, 60, 0]));
        w.u32(n);
        for _ in 12..hdr {
            w.buf.push(0);
        }
        for i in 0..n {
            w.u32(0x200 + i);
            for _ in 0..60 {
                w.buf.push(i as u8);
            }
        }
        dir.push((17, w.here() - at, at));
    }
    // exception
    if rng.chance(2, 3) {
        let at = w.here();
        w.u32(0x200);
        w.u32(0);
        w.u32(*rng.pick(&[0xC0000005u32, 0xC0000006, 11, 0]));
        w.u32(0);
        w.u64(0);
        w.u64(rng.next());
        w.u32(*rng.pick(&[0u32, 1, 2, 15, 16, 17, 1 << 31, u32::MAX]));
        w.u32(0);
        for k in 0..15u64 {
            w.u64(k * 0x1111_1111_1111);
        }
        if rng.chance(1, 3) {
            w.u32(ctx_blob.len() as u32);
            w.u32(ctx_at);
        } else if rng.chance(1, 2) {
            w.u32((ctx2_blob.len() as u32).wrapping_add(*rng.pick(&[0u32, 0, 1, u32::MAX])));
            w.u32(ctx2_at);
        } else {
            w.u32(*rng.pick(&[0u32, 16, u32::MAX]));
            w.u32(*rng.pick(&[0u32, 32, at, u32::MAX]));
        }
        dir.push((6, w.here() - at, at));
    }
    // memory list whose descriptors point at themselves / the directory
    if rng.chance(2, 3) {
        let at = w.here();
        let n = 1 + rng.below(3) as u32;
        w.u32(n);
        if rng.chance(1, 3) {
            w.u32(0); // 4 bytes of padding
        }
        for i in 0..n {
            if i == 0 && rng.chance(2, 3) {
                // the TEB / stack region threads refer to by address
                w.u64(teb_region.0);
                w.u32(teb_region.1);
                w.u32(teb_region.2);
                continue;
            }
            w.u64(if rng.chance(1, 6) { u64::MAX - 3 } else { 0xa000_0000 + i as u64 * 0x100 });
            w.u32(*rng.pick(&[16u32, 0, 4, u32::MAX]));
            w.u32(*rng.pick(&[at, 0, 32, u32::MAX, at + 4]));
        }
        // trailing bytes: the list rule accepts exactly 0 or 4 bytes beyond count * size + 4
        for _ in 0..*rng.pick(&[0u32, 0, 0, 4, 8, 8, 12, 1]) {
            w.buf.push(0);
        }
        dir.push((5, w.here() - at, at));
    }
    // thread names with wild 64-bit RVAs
    if rng.chance(1, 2) {
        let at = w.here();
        let n = 1 + rng.below(3) as u32;
        w.u32(n);
        for i in 0..n {
            w.u32(0x300 + (i % 2));
            w.u64(*rng.pick(&[s_obj as u64, s_type as u64, u64::MAX, 1 << 32, at as u64, 0]));
        }
        for _ in 0..*rng.pick(&[0u32, 0, 0, 4, 8, 8, 16]) {
            w.buf.push(0);
        }
        dir.push((24, w.here() - at, at));
    }
    // the vendor streams minidump-synth cannot write: breakpad info, assertion, mac crash info, mac boot args
    if rng.chance(1, 2) {
        let at = w.here();
        w.u32(rng.below(4) as u32);
        w.u32(0x200);
        w.u32(*rng.pick(&[0x200u32, 0x201, 0, u32::MAX]));
        dir.push((0x4767_0001, w.here() - at, at));
    }
    if rng.chance(1, 3) {
        let at = w.here();
        for k in 0..3 * 128u32 {
            // UTF-16 text, sometimes unterminated, sometimes with lone surrogates
            let u: u16 = match rng.below(12) {
                0 => 0,
                1 => 0xd800,
                2 => 0xdc00,
                _ => 0x41 + (k % 26) as u16,
            };
            if w.be {
                w.buf.extend_from_slice(&u.to_be_bytes())
            } else {
                w.buf.extend_from_slice(&u.to_le_bytes())
            }
        }
        w.u32(42);
        w.u32(rng.below(4) as u32);
        dir.push((0x4767_0002, w.here() - at, at));
    }
    // a raw MISC_INFO stream: every revision's size, one byte off, between revisions; flag words that
    // enable everything / nothing / single groups; fixed UTF-16 arrays without terminator or with lone
    // surrogates; every XSTATE feature enabled
    if rng.chance(1, 2) {
        let base = *rng.pick(&[24usize, 44, 232, 832, 1364]);
        let size = match rng.below(8) {
            0 => base - 1,
            1 => base + 1,
            2 => base + 7,
            3 => rng.below(1500) as usize,
            _ => base,
        };
        let r32 = rng.next() as u32;
        let flags = *rng.pick(&[0u32, u32::MAX, 0x3f7, 0x100, 0x40, 0x200, 0x2, r32 & 0x3ff, r32]);
        let r64 = rng.next();
        let enabled = *rng.pick(&[0u64, u64::MAX, 1, 1 << 63, (1 << 63) | 1, 1 << 62, 3 << 62, 0x8000_0000_0000_01ff, r64, r64 | (1 << 63)]);
        let units = rng.below(5) as u32;
        let blob = misc_blob(rng, be, size, flags, units, enabled);
        let at = w.here();
        w.buf.extend_from_slice(&blob);
        dir.push((15, blob.len() as u32, at));
    }
    if rng.chance(1, 2) {
        // records first, then the header pointing at them. Every record version, string tables that
        // end early (missing terminator / record cut inside a string), `record_start_size` at, below
        // and beyond the fixed part, more than 20 records claimed, mixed versions.
        let version = *rng.pick(&[1u64, 2, 3, 4, 4, 5, 5, 5, 6, 0, u64::MAX]);
        let fixed: u32 = match version {
            0..=3 => 16,
            4 => 32,
            _ => 40,
        };
        let start = *rng.pick(&[fixed, fixed, fixed, fixed + 8, fixed - 1, fixed - 8, 0, 8, 16, 32, 40, 41, 0x1000, u32::MAX]);
        let n = rng.below(4) as u32;
        let mut recs = Vec::new();
        for _ in 0..n {
            let at = w.here();
            w.u64(if rng.chance(1, 8) { rng.next() } else { 0x4d7a_0001 });
            w.u64(if rng.chance(1, 8) { *rng.pick(&[1u64, 4, 5, 0, version.wrapping_add(1)]) } else { version });
            for _ in 2..fixed / 8 {
                w.u64(rng.next());
            }
            for _ in fixed..start.min(64) {
                w.buf.push(0x2e);
            }
            let nstr = *rng.pick(&[5u32, 5, 5, 4, 6, 0, 1]);
            for k in 0..nstr {
                match rng.below(12) {
                    0 => {}                                                    // empty string
                    1 => w.buf.extend_from_slice(b"caf\xc3\xa9 \xf0\x9f\xa6\x80"),
                    2 => w.buf.extend_from_slice(b"bad \xff\xfe utf8"),
                    3 => w.buf.extend(std::iter::repeat(b'x').take(rng.range(200, 1200) as usize)),
                    _ => w.buf.extend_from_slice(format!("string number {k}").as_bytes()),
                }
                if !rng.chance(1, 16) {
                    w.buf.push(0); // (else: missing terminator, the next string is glued on)
                }
            }
            let full = w.here() - at;
            // the descriptor's size: the whole record, cut somewhere (inside the string table or the
            // fixed part), one byte short, empty, or reaching past the record into what follows
            let sz = match rng.below(10) {
                0 => full - 1,
                1 => rng.below(full as u64 + 1) as u32,
                2 => 0,
                3 => full + 4,
                4 => fixed,
                5 => start.min(full),
                _ => full,
            };
            recs.push((sz, at));
        }
        w.u32(0); // something readable behind the last record
        let at = w.here();
        w.u32(if rng.chance(1, 8) { rng.next() as u32 } else { 0x4d7a_0001 });
        w.u32(if rng.chance(1, 6) { *rng.pick(&[20u32, 21, 255, u32::MAX]) } else { n });
        w.u32(start);
        for k in 0..20 {
            // beyond the real records: empty descriptors, or aliases of the first record
            let (sz, rva) = recs.get(k).copied().unwrap_or(if rng.chance(1, 3) { recs.first().copied().unwrap_or((0, 0)) } else { (0, 0) });
            w.u32(sz);
            w.u32(if rng.chance(1, 16) { *rng.pick(&[u32::MAX, 0, at]) } else { rva });
        }
        let sz = (w.here() - at).wrapping_sub(*rng.pick(&[0u32, 0, 0, 0, 0, 1, 8]));
        dir.push((0x4d7a_0001, sz, at));
    }
    if rng.chance(1, 3) {
        let at = w.here();
        w.u32(0x4d7a_0002);
        w.u64(*rng.pick(&[s_obj as u64, s_type as u64, 0, u64::MAX, 1 << 40]));
        dir.push((0x4d7a_0002, w.here() - at, at));
    }
    // directory (sometimes with duplicates, sometimes pointing at itself)
    if rng.chance(1, 3) && !dir.is_empty() {
        let d0 = dir[rng.below(dir.len() as u64) as usize];
        dir.push((d0.0, d0.1 / 2, d0.2));
    }
    let dir_at = w.here();
    if rng.chance(1, 4) {
        dir.push((*rng.pick(&[3u32, 4, 5, 12, 14, 16]), 12 * (dir.len() as u32 + 1), dir_at));
    }
    for (t, s, r) in &dir {
        w.u32(*t);
        w.u32(*s);
        w.u32(*r);
    }
    w.put32(8, dir.len() as u32);
    w.put32(12, dir_at);
    w.buf
}


/// header (patched by `finish_dump`) — the directed writers below share it
fn start_dump(be: bool) -> W {
    let mut w = W { buf: Vec::new(), be };
    w.u32(md::MINIDUMP_SIGNATURE);
    w.u32(md::MINIDUMP_VERSION);
    for _ in 0..6 {
        w.u32(0);
    }
    w
}

fn finish_dump(mut w: W, dir: &[(u32, u32, u32)]) -> Vec<u8> {
    let dir_at = w.here();
    for (t, s_, r) in dir {
        w.u32(*t);
        w.u32(*s_);
        w.u32(*r);
    }
    w.put32(8, dir.len() as u32);
    w.put32(12, dir_at);
    w.buf
}

fn put_sysinfo(w: &mut W, arch: u16, platform: u32, csd: u32) -> (u32, u32, u32) {
    let at = w.here();
    let put16 = |w: &mut W, v: u16| {
        if w.be {
            w.buf.extend_from_slice(&v.to_be_bytes())
        } else {
            w.buf.extend_from_slice(&v.to_le_bytes())
        }
    };
    put16(w, arch);
    put16(w, 6);
    put16(w, 0x0d08);
    w.buf.push(2);
    w.buf.push(1);
    w.u32(10);
    w.u32(0);
    w.u32(19041);
    w.u32(platform);
    w.u32(csd);
    put16(w, 0);
    put16(w, 0);
    w.buf.extend_from_slice(b"GenuineIntel\x01\x02\x03\x04\x05\x06\x07\x08\x09\x0a\x0b\x0c");
    (7, w.here() - at, at)
}

/// Directed: ONE context record of architecture `arch`, of the accepted size + `delta` bytes (the
/// descriptor says `size + ddelta`), flags variant `fv`, read through a thread and through the
/// exception stream. System info says `sys_arch`.
fn ctx_matrix_dump(arch: (u16, usize, u32, usize, bool), sys_arch: u16, delta: i32, ddelta: i32, fv: u32, be: bool) -> Vec<u8> {
    let mut w = start_dump(be);
    let (_, size, bit, at, wide) = arch;
    let len = (size as i32 + delta).max(0) as usize;
    let mut blob: Vec<u8> = (0..len).map(|k| (k * 13 + 5) as u8).collect();
    let flags: u64 = match fv {
        0 => bit as u64,
        1 => (bit | 0x7f) as u64,            // every non-CPU bit of the low byte (XSTATE included)
        2 => (bit | 0xff00) as u64,          // bits no `ContextFlagsCpu` constant declares
        3 => (bit | if bit == 0x10000 { 0x100000 } else { 0x10000 }) as u64, // a second CPU
        4 => 0,
        5 => (bit as u64) | 0xdead_beef_0000_0000, // high half (64-bit flag words only)
        _ => if bit == 0x10000 { 0x100000 } else { 0x10000 },
    };
    if wide {
        if blob.len() >= at + 8 {
            blob[at..at + 8].copy_from_slice(&if be { flags.to_be_bytes() } else { flags.to_le_bytes() });
        }
    } else if blob.len() >= at + 4 {
        let f = flags as u32;
        blob[at..at + 4].copy_from_slice(&if be { f.to_be_bytes() } else { f.to_le_bytes() });
    }
    let ctx_at = w.here();
    w.buf.extend_from_slice(&blob);
    for _ in 0..24 {
        w.buf.push(0xee); // what a too-long descriptor reads into
    }
    let dsize = (size as i32 + ddelta).max(0) as u32;
    let mut dir = vec![put_sysinfo(&mut w, sys_arch, 2, 0)];
    // thread list: one thread, TEB far away, no stack
    let tl = w.here();
    w.u32(1);
    w.u32(0x111);
    w.u32(0);
    w.u32(0);
    w.u32(0);
    w.u64(0x7ffd_e000);
    w.u64(0);
    w.u32(0);
    w.u32(0);
    w.u32(dsize);
    w.u32(ctx_at);
    dir.push((3, w.here() - tl, tl));
    // exception
    let ex = w.here();
    w.u32(0x111);
    w.u32(0);
    w.u32(0xC000_0005);
    w.u32(0);
    w.u64(0);
    w.u64(0x4011_2233);
    w.u32(2);
    w.u32(0);
    for k in 0..15u64 {
        w.u64(k + 1);
    }
    w.u32(dsize);
    w.u32(ctx_at);
    dir.push((6, w.here() - ex, ex));
    finish_dump(w, &dir)
}

/// Directed: one macOS crash-info record of `version` whose descriptor is cut after `cut` bytes
/// (every prefix of the record: inside the fixed part, at the start of the string table, inside and
/// between the strings), strings starting at `start`.
fn mac_cut_dump(version: u64, start_delta: i32, cut: u32, nrec: u32, be: bool) -> (Vec<u8>, u32) {
    let mut w = start_dump(be);
    let fixed: u32 = match version {
        0..=3 => 16,
        4 => 32,
        _ => 40,
    };
    let start = (fixed as i32 + start_delta).max(0) as u32;
    let at = w.here();
    w.u64(0x4d7a_0001);
    w.u64(version);
    for k in 2..fixed / 8 {
        w.u64(0x1000 + k as u64);
    }
    for _ in fixed..start {
        w.buf.push(b'.');
    }
    for s_ in [&b"/usr/lib/libfoo.dylib"[..], b"message", b"", b"bt \xc3\xa9", b"m2"] {
        w.buf.extend_from_slice(s_);
        w.buf.push(0);
    }
    let full = w.here() - at;
    w.u32(0x5a5a_5a5a);
    let hdr = w.here();
    w.u32(0x4d7a_0001);
    w.u32(nrec);
    w.u32(start);
    for _ in 0..20 {
        w.u32(cut.min(full + 4));
        w.u32(at);
    }
    let dir = vec![(0x4d7a_0001u32, w.here() - hdr, hdr)];
    (finish_dump(w, &dir), full)
}

/// Long lists (thousands of entries): recursion depth / quadratic behaviour / allocation sizes at scale.
fn large_dump(rng: &mut Rng, be: bool, target: usize) -> Vec<u8> {
    let mut w = W { buf: Vec::new(), be };
    w.u32(md::MINIDUMP_SIGNATURE);
    w.u32(md::MINIDUMP_VERSION);
    for _ in 0..6 {
        w.u32(0);
    }
    let mut dir: Vec<(u32, u32, u32)> = Vec::new();
    let name = w.utf16("a module with a fairly long name.dll");
    // a chain of object infos shared by every handle
    let n_info = 1 + rng.below(20) as u32;
    let info0 = w.here();
    for i in 0..n_info {
        w.u32(if i + 1 < n_info { info0 + 12 * (i + 1) } else { *rng.pick(&[0u32, info0]) });
        w.u32(rng.below(10) as u32);
        w.u32(12);
    }
    let per = target / 4;
    {
        let n = (per / 40) as u32;
        let at = w.here();
        w.u32(16);
        w.u32(40);
        w.u32(n);
        w.u32(0);
        for i in 0..n {
            w.u64(i as u64);
            w.u32(if i % 7 == 0 { name } else { 0 });
            w.u32(0);
            w.u32(0);
            w.u32(0);
            w.u32(1);
            w.u32(1);
            w.u32(if i % 5 == 0 { info0 } else { 0 });
            w.u32(0);
        }
        dir.push((12, w.here() - at, at));
    }
    {
        let n = (per / 16) as u32;
        let at = w.here();
        w.u32(n);
        for i in 0..n {
            w.u64(0x1000 * i as u64);
            w.u32(16 + (i % 64));
            w.u32(32 + (i % 512));
        }
        dir.push((5, w.here() - at, at));
    }
    {
        let n = (per / 108) as u32;
        let at = w.here();
        w.u32(n);
        for i in 0..n {
            w.u64(0x10_0000 * i as u64);
            w.u32(if i % 9 == 0 { 0 } else { 0x1000 });
            w.u32(0);
            w.u32(0);
            w.u32(name);
            for _ in 0..(108 - 24) / 4 {
                w.u32(0);
            }
        }
        dir.push((4, w.here() - at, at));
    }
    {
        let n = (per / 48) as u32;
        let at = w.here();
        w.u32(n);
        for i in 0..n {
            w.u32(i);
            w.u32(0);
            w.u32(0);
            w.u32(0);
            w.u64(0);
            w.u64(0x7000_0000 + 0x1000 * i as u64);
            w.u32(64);
            w.u32(32);
            w.u32(16);
            w.u32(64);
        }
        dir.push((3, w.here() - at, at));
    }
    let dir_at = w.here();
    for (t, s_, r) in &dir {
        w.u32(*t);
        w.u32(*s_);
        w.u32(*r);
    }
    w.put32(8, dir.len() as u32);
    w.put32(12, dir_at);
    w.buf
}

/// The 4-byte-aligned positions worth overwriting in a (valid) dump: header count / directory RVA,
/// every directory entry's size and RVA, and the leading fields of every stream.
fn interesting_offsets(b: &[u8]) -> (bool, Vec<usize>) {
    let rd = |at: usize, be: bool| -> Option<u32> {
        let s = b.get(at..at + 4)?;
        let a = [s[0], s[1], s[2], s[3]];
        Some(if be { u32::from_be_bytes(a) } else { u32::from_le_bytes(a) })
    };
    let be = rd(0, true) == Some(md::MINIDUMP_SIGNATURE);
    let mut v = vec![4, 8, 12];
    let (Some(n), Some(dir)) = (rd(8, be), rd(12, be)) else { return (be, v) };
    for i in 0..n.min(64) as usize {
        let e = dir as usize + 12 * i;
        v.extend([e, e + 4, e + 8]);
        if let (Some(sz), Some(rva)) = (rd(e + 4, be), rd(e + 8, be)) {
            let (sz, rva) = (sz as usize, rva as usize);
            let mut k = 0;
            while k < sz.min(48) {
                v.push(rva + k);
                k += 4;
            }
            // a few positions deeper in the stream (entry fields)
            let mut k = 48;
            while k + 4 <= sz && k < 48 + 12 * 16 {
                v.push(rva + k);
                k += 12;
            }
        }
    }
    v.retain(|&o| o + 4 <= b.len());
    v.sort_unstable();
    v.dedup();
    (be, v)
}

fn case_line(bytes: &[u8], cat: &str) -> String {
    format!("read cat={} {}", cat, hex(bytes))
}

impl Engine for Read {
    fn name(&self) -> &'static str {
        "read"
    }
    fn rule(&self) -> String {
        "inputs: arbitrary bytes; valid dumps (minidump-synth: threads/contexts, modules+CodeView, unloaded modules, memory, memory64, \
         memory info, thread names, handles, exception, system/misc/crashpad info, linux text streams; a hand-rolled writer for 40-byte \
         handle descriptors with object-info chains, memory64, thread info, per-CPU context records of every architecture in rotation (accepted and \
         varied: size +-1/+16/half/0, flags with XSTATE/undeclared bits/a second CPU/another CPU), system infos naming the same, another, an unknown architecture, \
         a TEB region reached by address (stack fallback, last_error), grammar-generated key/value text streams, Breakpad info, assertion info, macOS crash info \
         of every version with cut / unterminated / non-UTF-8 string tables, boot args; directed: every architecture x size delta x flags variant, one macOS record \
         cut at every byte; the in-tree testdata/*.dmp), both byte orders; truncations; header/directory/stream fields replaced by 0,1,len-1,len,len+1,2^31,2^32-1; \
         cyclic and self-referential RVAs; byte flips; /proc/maps text with the path shapes procfs-core slices. \
         Non-trivial: the header parses and at least one modelled stream type is present in the directory (its read may fail). \
         Oracle (per operation): no panic, time budget, largest request <= 32n+64KiB, total <= 2n^2+1024n+4MiB, never > 1 GiB (allocator guard); \
         model (MdModel.DumpFull.readFull): outcome class and parsed numbers of Minidump::read + 11 list/record stream readers + exception print loop + crash address, and of the \
         system info (cpu_info text), every thread's and the exception's CPU context (through the accessor and a direct read), stack_memory, last_error x3, the stack / memory dump \
         loops of the printers, crash reason + address, the five text-stream iterators (every key/value as offset+length into the stream), Breakpad / assertion / macOS crash info / boot args; \
         the model's exact allocations must occur among the real allocator's requests. \
         Round 4 (MdModel.DumpFull.readMore, 11 more groups): misc info (revision, the sixteen scalar accessors, time zone, build strings as decoded by print, enabled XSTATE features), \
         linux maps (every entry, memory_info_at_address around every entry; a panic of the reader is compared by panic-site class stack / sysv / smaps), UnifiedMemoryInfoList \
         (which list, iter, by_addr, lookups), os_parts, per module debug_identifier / code_identifier / debug_file / version / the bytes print renders as hex, unloaded modules' \
         code identifiers, soft errors, and per thread / exception context valid_registers + get_register of every general-purpose register + register_size + format_register; \
         directed families: MISC_INFO of every revision size x flag word x array contents x enabled_features (all ones / bit 63 / bit 0 / both), CodeView records of every kind cut anywhere \
         with hostile file names, `uname` texts, memory-info lists with empty / huge / overlapping regions, smaps texts around the v*1024 overflow. \
         Oracle-only (not modelled): the text every print emits, the remaining accessors."
            .into()
    }

    fn generate(&self, tier: Tier, rng: &mut Rng, emit: &mut dyn FnMut(String)) {
        // ---- the `time` leaf: format_time_t / format_system_time through the printers (read_time.rs)
        time_cases::generate(tier == Tier::Quick, &mut rng.fork(), emit);
        let scale: u64 = if tier == Tier::Quick { 6 } else { 24 };
        let cap: usize = if tier == Tier::Quick { 200 * 1024 } else { 1024 * 1024 };
        // ---- seeds
        let mut seeds: Vec<Vec<u8>> = Vec::new();
        let mut big_seeds: Vec<Vec<u8>> = Vec::new();
        let repo = std::env::var("VERIF_REPO").unwrap_or_else(|_| "/repo".into());
        if let Ok(rd) = std::fs::read_dir(format!("{repo}/testdata")) {
            let mut files: Vec<_> = rd.filter_map(|e| e.ok()).map(|e| e.path()).collect();
            files.sort();
            for f in files {
                if f.extension().map(|e| e == "dmp").unwrap_or(false) {
                    if let Ok(b) = std::fs::read(&f) {
                        if !b.is_empty() && b.len() <= cap / 2 {
                            big_seeds.push(b);
                        }
                    }
                }
            }
        }
        for (i, target) in (if tier == Tier::Quick { vec![60_000usize, 150_000] } else { vec![60_000, 150_000, 400_000, 900_000] }).into_iter().enumerate() {
            big_seeds.push(large_dump(rng, i % 2 == 1, target));
        }
        for i in 0..40 * scale {
            seeds.push(synth_dump(rng, i % 2 == 1));
        }
        for i in 0..40 * scale {
            seeds.push(crafted_dump(rng, i % 4 == 3, i as usize));
        }
        for s in seeds.iter().chain(big_seeds.iter()) {
            emit(case_line(s, "valid"));
        }
        // ---- directed: every architecture's context record at the accepted size and one byte off,
        // with every flags variant, through a thread and the exception stream; a system info that
        // names another architecture
        let table = arch_table();
        for (ai, arch) in table.iter().enumerate() {
            for (delta, ddelta) in [(0, 0), (-1, -1), (1, 1), (0, 1), (0, -1), (16, 16), (0, 24)] {
                for fv in 0..7u32 {
                    if (delta, ddelta) != (0, 0) && fv > 1 && tier == Tier::Quick {
                        continue;
                    }
                    emit(case_line(&ctx_matrix_dump(*arch, arch.0, delta, ddelta, fv, (ai + fv as usize) % 2 == 1), "directed-ctx"));
                }
            }
            for other in [table[(ai + 1) % table.len()].0, 6, 0x8004, 0xffff, 2] {
                emit(case_line(&ctx_matrix_dump(*arch, other, 0, 0, 0, ai % 2 == 0), "directed-ctx"));
            }
        }
        // ---- directed: macOS crash-info records of every version, cut at every byte
        for version in [0u64, 1, 3, 4, 5, 6, u64::MAX] {
            let (_, full) = mac_cut_dump(version, 0, 0, 1, false);
            let step = if tier == Tier::Quick { 3 } else { 1 };
            let mut cut = 0;
            while cut <= full + 4 {
                emit(case_line(&mac_cut_dump(version, 0, cut, 1, (cut / step) % 2 == 1).0, "directed-mac"));
                cut += step;
            }
            for sd in [-1, -8, 1, 8, 200, -100] {
                for nrec in [1u32, 2, 20, 21, u32::MAX] {
                    emit(case_line(&mac_cut_dump(version, sd, full, nrec, false).0, "directed-mac"));
                }
            }
        }
        // ---- directed: MISC_INFO streams of every revision size (exact, one byte short / long) x flag words
        // x contents of the fixed UTF-16 arrays x byte order
        for (bi, base) in [24usize, 44, 232, 832, 1364].into_iter().enumerate() {
            for delta in [0i64, -1, 1] {
                for (fi, flags) in [0u32, u32::MAX, 0x3f7].into_iter().enumerate() {
                    for units in 0..4u32 {
                        let be = (bi + fi + units as usize) % 2 == 1;
                        let size = (base as i64 + delta) as usize;
                        // `enabled_features`: all ones, only bit 63, only bit 0, bits 63 and 0 — the last iterations of `XstateFeatureIter`
                        let enabled = [u64::MAX, 1 << 63, 1, (1 << 63) | 1][(units as usize + fi) % 4];
                        let blob = misc_blob(rng, be, size, flags, units, enabled);
                        let mut w = start_dump(be);
                        let at = w.here();
                        w.buf.extend_from_slice(&blob);
                        emit(case_line(&finish_dump(w, &[(15, blob.len() as u32, at)]), "directed-misc"));
                    }
                }
            }
        }
        // ---- directed: CodeView records of every kind (cut, hostile file names, zero / short build ids), Linux
        // `uname` texts for `os_parts`, memory-info lists for `UnifiedMemoryInfoList`, soft-errors streams
        for i in 0..(if tier == Tier::Quick { 504 } else { 2016 }) {
            emit(case_line(&ids_dump(rng, i % 5 == 4, i), "directed-ids"));
        }
        // ---- arbitrary bytes
        for i in 0..300 * scale {
            let n = match i % 5 {
                0 => rng.below(40),
                1 => rng.below(300),
                _ => 32 + rng.below(200),
            } as usize;
            let mut b: Vec<u8> = (0..n).map(|_| rng.next() as u8).collect();
            if i % 5 >= 2 && b.len() >= 32 {
                // plausible header, random rest
                let be = i % 2 == 0;
                let mut w = W { buf: Vec::new(), be };
                w.u32(md::MINIDUMP_SIGNATURE);
                w.u32(md::MINIDUMP_VERSION);
                w.u32(*rng.pick(&[0u32, 1, 2, 5, 17, u32::MAX]));
                w.u32(*rng.pick(&[32u32, 0, 31, n as u32, u32::MAX]));
                b[..16].copy_from_slice(&w.buf);
                // make the directory mention modelled stream types now and then
                let mut at = 32;
                while at + 12 <= b.len() && rng.chance(2, 3) {
                    let t = *rng.pick(&[3u32, 4, 5, 6, 9, 12, 14, 16, 17, 24, 7, 15]);
                    let tb = if be { t.to_be_bytes() } else { t.to_le_bytes() };
                    b[at..at + 4].copy_from_slice(&tb);
                    let small = |rng: &mut Rng| (rng.below(n as u64 + 2) as u32);
                    let (s, r) = (small(rng), small(rng));
                    b[at + 4..at + 8].copy_from_slice(&if be { s.to_be_bytes() } else { s.to_le_bytes() });
                    b[at + 8..at + 12].copy_from_slice(&if be { r.to_be_bytes() } else { r.to_le_bytes() });
                    at += 12;
                }
            }
            emit(case_line(&b, "arbitrary"));
        }
        // ---- truncations
        for s in seeds.iter().take(12 * scale as usize) {
            for _ in 0..30 {
                let k = rng.below(s.len() as u64 + 1) as usize;
                emit(case_line(&s[..k], "truncated"));
            }
            for k in [0usize, 1, 31, 32, 33, 43, 44] {
                if k <= s.len() {
                    emit(case_line(&s[..k], "truncated"));
                }
            }
        }
        let heavy = |s: &Vec<u8>, n: u64| if s.len() > 256 * 1024 { (n / 8).max(2) } else { n };
        for s in &big_seeds {
            for _ in 0..heavy(s, 6 * scale) {
                let k = rng.below(s.len() as u64 + 1) as usize;
                emit(case_line(&s[..k], "truncated"));
            }
        }
        // ---- boundary substitution
        let subst = |s: &Vec<u8>, count: u64, rng: &mut Rng, emit: &mut dyn FnMut(String)| {
            let (be, offs) = interesting_offsets(s);
            if offs.is_empty() {
                return;
            }
            let len = s.len() as u64;
            let vals = [0u64, 1, len.wrapping_sub(1), len, len + 1, 1 << 31, (1u64 << 32) - 1, 4, 12, len.wrapping_sub(4), 0xffff_fffe];
            for _ in 0..count {
                let mut b = s.clone();
                let nsub = if rng.chance(1, 4) { 2 } else { 1 };
                for _ in 0..nsub {
                    let at = *rng.pick(&offs);
                    let v = (*rng.pick(&vals) & 0xffff_ffff) as u32;
                    let vb = if be { v.to_be_bytes() } else { v.to_le_bytes() };
                    b[at..at + 4].copy_from_slice(&vb);
                    if rng.chance(1, 8) && at + 8 <= b.len() {
                        // a 64-bit field: all ones
                        b[at..at + 8].copy_from_slice(&[0xff; 8]);
                    }
                }
                emit(case_line(&b, "boundary"));
            }
        };
        for s in &seeds {
            subst(s, 22, rng, emit);
        }
        for s in &big_seeds {
            subst(s, heavy(s, 12 * scale), rng, emit);
        }
        // ---- byte flips
        for s in seeds.iter().chain(big_seeds.iter()) {
            for _ in 0..6 {
                let mut b = s.clone();
                if b.is_empty() {
                    continue;
                }
                for _ in 0..1 + rng.below(6) {
                    let at = rng.below(b.len() as u64) as usize;
                    b[at] = match rng.below(3) {
                        0 => 0xff,
                        1 => 0,
                        _ => rng.next() as u8,
                    };
                }
                emit(case_line(&b, "flipped"));
            }
        }
    }

    fn model_request(&self, case: &str) -> Option<String> {
        if time_cases::is_time_case(case) {
            return time_cases::parse(case).map(|tc| time_cases::model_request(&tc));
        }
        let (bytes, _) = parse_case(case)?;
        Some(format!("read {} sizes:{}", hex(&bytes), mem_sizes()))
    }

    fn same(&self, impl_out: &str, model_out: &str) -> bool {
        if matches!(impl_out, "SKIPPED" | "RUNAWAY-ALLOC" | "HANG" | "WORKER-DIED") {
            return true; // no answer to compare; the oracle has reported the case (or it was skipped)
        }
        if let Some(t) = impl_out.strip_prefix("time=") {
            return t == model_out; // a `read time …` case: the printed text, byte for byte
        }
        let (Some((il, ir)), Some((ml, mr))) = (impl_out.split_once(" ## "), model_out.split_once(" ## ")) else {
            return false;
        };
        if il != ml {
            return false;
        }
        let Some(reqs) = ir.strip_prefix("req:") else { return false };
        let Some(allocs) = mr.strip_prefix("allocs:") else { return false };
        if reqs.ends_with('+') {
            return true; // the request log overflowed: membership cannot be decided
        }
        let mut have: Vec<u64> = reqs.split(',').filter_map(|s| s.parse().ok()).collect();
        for a in allocs.split(',').filter(|s| !s.is_empty()) {
            if a.ends_with('~') {
                continue;
            }
            let Some((n, sz)) = a.split_once('*') else { return false };
            let (Ok(n), Ok(sz)) = (n.parse::<u64>(), sz.parse::<u64>()) else { return false };
            let bytes = n.saturating_mul(sz);
            if bytes < meter::LOG_MIN as u64 {
                continue;
            }
            match have.iter().position(|&h| h == bytes) {
                Some(p) => {
                    have.swap_remove(p);
                }
                None => return false,
            }
        }
        true
    }

    fn exec(&self, case: &str) -> ImplResult {
        install_hook();
        if time_cases::is_time_case(case) {
            return match time_cases::parse(case) {
                Some(tc) => time_cases::exec(&tc),
                None => ImplResult { out: "bad-case".into(), oracle: vec![("bad-case".into(), case.chars().take(80).collect())], ..Default::default() },
            };
        }
        let Some((bytes, cat)) = parse_case(case) else {
            return ImplResult { out: "bad-case".into(), oracle: vec![("bad-case".into(), case.chars().take(80).collect())], ..Default::default() };
        };
        let n = bytes.len();
        if STUCK.load(std::sync::atomic::Ordering::SeqCst) >= MAX_STUCK {
            // earlier cases left stuck worker threads behind (each already reported as a violation)
            return ImplResult { out: "SKIPPED".into(), tags: vec!["skipped-after-stuck-workers".into()], ..Default::default() };
        }
        let shared = Arc::new(meter::Shared::default());
        let (tx, rx) = mpsc::channel();
        let (sh2, b2) = (shared.clone(), bytes.clone());
        let t0 = Instant::now();
        let worker = std::thread::Builder::new()
            .name("read-case".into())
            .stack_size(64 << 20)
            .spawn(move || {
                let r = run_case(&b2, &sh2);
                let _ = tx.send(r);
            })
            .expect("spawn case thread");
        let mut res = ImplResult::default();
        res.tags.push(format!("cat={cat}"));
        res.tags.push(size_bucket(n).to_string());
        // poll: a worker parked by the allocator guard is reported at once, a silent one when the
        // time budget is used up
        let outcome = loop {
            match rx.recv_timeout(Duration::from_millis(10)) {
                Ok(r) => break Some(r),
                Err(mpsc::RecvTimeoutError::Disconnected) => break None,
                Err(mpsc::RecvTimeoutError::Timeout) => {
                    if shared.runaway_request.load(std::sync::atomic::Ordering::SeqCst) != 0 || t0.elapsed() > time_budget(n) {
                        break None;
                    }
                }
            }
        };
        match outcome {
            Some(r) => {
                let _ = worker.join();
                let reqs: Vec<String> = r.a.log.iter().map(|x| x.to_string()).collect();
                res.out = format!("{} ## req:{}{}", r.line, reqs.join(","), if r.a.log_overflow { "+" } else { "" });
                res.oracle = r.oracle;
                res.nontrivial = r.nontrivial;
                res.tags.extend(r.tags);
                let n64 = n as u64;
                // how close the case came to the limits (distribution only)
                let worst_total = r.a.total.max(r.b.total);
                let lin = C_TOTAL_LIN * n64 + C_TOTAL;
                if worst_total > lin && n64 > 0 {
                    let ratio = (worst_total - lin) as f64 / (n64 as f64 * n64 as f64);
                    let bucket = if ratio < 0.25 { "<0.25" } else if ratio < 1.0 { "<1" } else if ratio < 2.0 { "<2" } else if ratio < 4.0 { "<4" } else { ">=4" };
                    res.tags.push(format!("alloc-total-over-linear/n^2{bucket}"));
                }
                let worst_single = r.a.max.max(r.b.max);
                if worst_single > C_SINGLE && n64 > 0 {
                    let ratio = (worst_single - C_SINGLE) / n64;
                    let bucket = if ratio < 4 { "<4" } else if ratio < 16 { "<16" } else if ratio < 32 { "<32" } else { ">=32" };
                    res.tags.push(format!("alloc-single-over-const/n{bucket}"));
                }
                let ms = t0.elapsed().as_millis();
                if ms > 2000 {
                    res.tags.push("slow>2s".into());
                }
            }
            None => {
                // the worker is stuck: parked by the allocator guard, or looping. It is leaked
                // (with whatever it holds), so only a bounded number of them is tolerated.
                STUCK.fetch_add(1, std::sync::atomic::Ordering::SeqCst);
                let req = shared.runaway_request.load(std::sync::atomic::Ordering::SeqCst);
                let op = shared.current_op.lock().map(|g| g.clone()).unwrap_or_default();
                if req != 0 {
                    let total = shared.runaway_total.load(std::sync::atomic::Ordering::SeqCst);
                    res.out = "RUNAWAY-ALLOC".into();
                    res.oracle.push((
                        format!("alloc-runaway:{op}"),
                        format!("{op}: a {n}-byte input made the reader request {req} bytes at once / {total} bytes in total — stopped by the allocator guard (single > {} or total > {})", meter::HARD_SINGLE, meter::HARD_TOTAL),
                    ));
                } else if worker.is_finished() {
                    res.out = "WORKER-DIED".into();
                    res.oracle.push(("panic".into(), "the case thread died outside catch_unwind (stack overflow / abort path)".into()));
                } else {
                    res.out = "HANG".into();
                    res.oracle.push((format!("hang:{op}"), format!("{op}: no result within {:?} for a {n}-byte input", time_budget(n))));
                }
            }
        }
        res
    }

    fn shrink(&self, case: &str, still_fails: &dyn Fn(&str) -> bool) -> String {
        let Some((mut bytes, cat)) = parse_case(case) else { return case.to_string() };
        if STUCK.load(std::sync::atomic::Ordering::SeqCst) > 0 {
            // re-running a case that leaves a stuck worker behind costs up to 1 GiB each time
            return case.to_string();
        }
        // a broken reader fails on thousands of cases (the case "shape" the runner groups failures by
        // contains the whole payload, so they are all kept): shrink the first few only
        // a registered finding (the third-party /proc parser) needs no minimised input on every run: its
        // witnesses are in corpus/read/finding-procfs-mmappath.txt
        let r0 = self.exec(case);
        if !r0.oracle.is_empty() && r0.oracle.iter().all(|(c, _)| c == "panic-procfs-core") {
            return case.to_string();
        }
        static SHRUNK: std::sync::atomic::AtomicUsize = std::sync::atomic::AtomicUsize::new(0);
        if SHRUNK.fetch_add(1, std::sync::atomic::Ordering::SeqCst) >= 6 {
            return case.to_string();
        }
        let t0 = Instant::now();
        let mut evals = 0;
        let mut ok = |b: &[u8], evals: &mut u32| -> bool {
            *evals += 1;
            still_fails(&case_line(b, &cat))
        };
        let budget = |evals: u32| evals < 160 && t0.elapsed() < Duration::from_secs(25);
        // 1. cut the tail
        let mut step = bytes.len() / 2;
        while step >= 1 && budget(evals) {
            if bytes.len() > step && ok(&bytes[..bytes.len() - step], &mut evals) {
                bytes.truncate(bytes.len() - step);
            } else {
                step /= 2;
            }
        }
        // 2. zero out blocks (keeps every offset in place)
        let mut block = (bytes.len() / 4).max(16);
        while block >= 16 && budget(evals) {
            let mut at = 32;
            while at < bytes.len() && budget(evals) {
                let end = (at + block).min(bytes.len());
                if bytes[at..end].iter().any(|&x| x != 0) {
                    let mut c = bytes.clone();
                    c[at..end].iter_mut().for_each(|x| *x = 0);
                    if ok(&c, &mut evals) {
                        bytes = c;
                    }
                }
                at = end;
            }
            block /= 2;
        }
        case_line(&bytes, &cat)
    }
}
