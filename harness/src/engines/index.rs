//! Engine `index` (C14): generated dumps (minidump-synth + raw sections) through the real
//! `minidump_processor::process_minidump`, compared with the Lean model `MdModel.Index` applied to
//! the generator's abstract description — the case line IS the abstract description; this engine
//! builds the dump bytes from it. The property's own oracle is evaluated on the implementation's
//! `ProcessState` alone.
//!
//! case line (the first eleven fields in this order, numbers decimal; the others optional):
//!   `index ts=<u32> os=<platform id> cpu=<arch> th=<T> nm=<N> bp=<B> ex=<E> mi=<M> st=<S> mo=<L> um=<L>`
//!         `[rg=<R>] [en=<le|be>] [ml=<ML>] [si=<SI>] [lsb=<S'>] [mac=<MC>] [ba=<BA>] [hd=<n>] [ps=<mask>]`
//!         `[sy=<SY>] [sw=<SW>]`
//!   T = `-` (no thread list stream) | `.` (empty list) | `id:ctx[:stk],..`
//!       ctx = `r<ip>` | `r<ip>/<sp>/<fp>[/<reg>=<value>]*` | `u<mode 0..4>`   (reg: a canonical register
//!             name of the CPU's context other than ip / sp / frame pointer; a register not listed is 0)
//!       stk = `<start>/n` (stack descriptor with rva 0) | `<start>/o` (location outside the file) |
//!             `<start>/m<k>` (the descriptor cites the bytes of pool region k)
//!   N = `-` | `.` | `id:name,..`   name: `!` = unreadable string | ASCII token | `x<hex of UTF-16 code units>`
//!   B = `-` | `validity:dump_thread_id:requesting_thread_id`
//!   E = `-` | `x` (stream too short) | `tid:code:flags:addr:nparams:p0:p1:p2:ctx`
//!   M = `-` | `x` (stream too short) | `flags1:pid:create_time:version(1..5)[:size_of_info]` (5th item: the
//!       stream's own size field when it disagrees with the struct size; untrusted, must be ignored)
//!   S = `-` | `.` (empty stream) | `Key~value,..`
//!   L = `.` | `base:size:name,..`
//!   R = pool of memory regions `base/size[/off.hexbytes]*,..` (zero-filled, then patched)
//!   ML = `;`-separated sections: `L:<i>.<i>..` memory list of pool regions (`!<base>` = a descriptor
//!        with rva 0) | `Q:<i>.<i>..` memory-64 list | `X` (memory-64 stream too short)
//!   SI = `level:revision:ncpu:major:minor:build:csd:d0:d1:d2`   (csd: `-` | name)
//!   S' = `.` | `KEY~x<hex utf8>,..`      MC = `.` | `version/thread/dialog/abort/<s0>/../<s4>,..`
//!   BA = name (`!`: the boot-args string cannot be read)    hd = number of handle descriptors (>= 1)
//!   ps = bit mask of streams present but not consulted: 1 thread-info list, 2 Crashpad info,
//!        4 assertion info, 8 memory-info list
//!   SY = `<module name>~<records>,..` what the symbol supplier has (records as in `walk` cases:
//!        FUNC / PUBLIC / STACK CFI INIT / STACK CFI);  SW = `<module name>~<rec>;<rec>..,..` STACK WIN
//!        records (as in `chain` cases); the dump is processed with a `StringSymbolSupplier` holding the
//!        breakpad text of these records under the module's name
//!
//! unreadable-context modes: 0 location (0,0) · 1 rva outside the file · 2 truncated by one byte ·
//! 3 context_flags without the CPU bits · 4 size 0 at a valid rva

use crate::common::*;
use crate::engines::walk;
use minidump::system_info::{Cpu, Os, PointerWidth};
use minidump::*;
use minidump_common::format as md;
use minidump_synth as synth;
use scroll::ctx::SizeWith;
use scroll::{Pread, Pwrite};
use std::collections::{BTreeMap, BTreeSet};
use std::fmt::Write as _;
use synth::{DumpSection, SectionExtra};
use test_assembler::{Endian, Label, LabelMaker, Section};

pub struct Index;

// ------------------------------------------------------------------------------------ case

#[derive(Clone, Debug, PartialEq)]
enum Ctx {
    /// a readable context: ip / sp / frame pointer and further registers by canonical name
    R { ip: u64, sp: u64, fp: u64, rest: Vec<(String, u64)> },
    U(u8),
}

fn rctx(ip: u64) -> Ctx {
    Ctx::R { ip, sp: 0, fp: 0, rest: vec![] }
}

fn rctx3(ip: u64, sp: u64, fp: u64) -> Ctx {
    Ctx::R { ip, sp, fp, rest: vec![] }
}

/// one `STACK WIN` record (module-relative address), as in `chain` cases
#[derive(Clone, Debug, PartialEq)]
struct WinRec {
    ty: char,
    addr: u64,
    size: u64,
    par: u32,
    sav: u32,
    loc: u32,
    /// program string (type 4) or `0` / `1` = allocates_base_pointer (type 0)
    rest: String,
}

impl WinRec {
    fn hp(&self) -> char {
        if self.ty == '4' {
            '1'
        } else {
            '0'
        }
    }
    fn text(&self) -> String {
        format!("STACK WIN {} {:x} {:x} 0 0 {:x} {:x} {:x} 0 {} {}\n", self.ty, self.addr, self.size, self.par, self.sav, self.loc, self.hp(), self.rest)
    }
    fn field(&self) -> String {
        format!("{}|{}|{}|{}|{}|{}|{}|{}", self.ty, self.addr, self.size, self.par, self.sav, self.loc, self.hp(), self.rest.replace(' ', "_"))
    }
    fn parse(r: &str) -> Option<WinRec> {
        let p: Vec<&str> = r.split('|').collect();
        if p.len() != 8 || p[7].is_empty() {
            return None;
        }
        let ty = p[0].chars().next()?;
        if p[0].len() != 1 || !(ty == '0' || ty == '4') {
            return None;
        }
        let rec = WinRec { ty, addr: p[1].parse().ok()?, size: p[2].parse::<u32>().ok()? as u64, par: p[3].parse().ok()?, sav: p[4].parse().ok()?, loc: p[5].parse().ok()?, rest: p[7].replace('_', " ") };
        if p[6].len() != 1 || p[6].chars().next()? != rec.hp() {
            return None;
        }
        Some(rec)
    }
}

#[derive(Clone, Debug, PartialEq)]
struct Exc {
    tid: u32,
    code: u32,
    flags: u32,
    addr: u64,
    np: u32,
    p0: u64,
    p1: u64,
    p2: u64,
    ctx: Ctx,
}

#[derive(Clone, Debug, PartialEq)]
enum ExcSpec {
    None,
    Short,
    Some(Exc),
}

#[derive(Clone, Debug, PartialEq)]
enum MiscSpec {
    None,
    Short,
    /// `soi`: what the stream's own `size_of_info` field says when that is NOT the struct's size
    /// (the field is untrusted; `MinidumpMiscInfo::read` picks the revision by the stream length)
    Some { flags: u32, pid: u32, ctime: u32, ver: u8, soi: Option<u32> },
}

/// a name as written into the dump: UTF-16 code units, or an unreadable string
#[derive(Clone, Debug, PartialEq)]
enum Name {
    Bad,
    Units(Vec<u16>),
}

impl Name {
    fn ascii(s: &str) -> Name {
        Name::Units(s.encode_utf16().collect())
    }
    /// what `read_string_utf16` yields
    fn decoded(&self) -> Option<String> {
        match self {
            Name::Bad => None,
            Name::Units(u) => String::from_utf16(u).ok(),
        }
    }
    fn field(&self) -> String {
        match self {
            Name::Bad => "!".into(),
            Name::Units(u) => {
                let tok = !u.is_empty()
                    && u[0] != b'x' as u16
                    && u.iter().all(|c| *c < 128 && ((*c as u8).is_ascii_alphanumeric() || *c == b'_' as u16 || *c == b'.' as u16));
                if tok {
                    String::from_utf16(u).unwrap()
                } else {
                    let mut b = vec![];
                    for c in u {
                        b.push((c >> 8) as u8);
                        b.push((c & 0xff) as u8);
                    }
                    format!("x{}", hex(&b))
                }
            }
        }
    }
    fn parse(s: &str) -> Option<Name> {
        if s == "!" {
            Some(Name::Bad)
        } else if let Some(h) = s.strip_prefix('x') {
            let b = unhex(h)?;
            if b.len() % 2 != 0 {
                return None;
            }
            Some(Name::Units(b.chunks(2).map(|p| ((p[0] as u16) << 8) | p[1] as u16).collect()))
        } else if name_ok(s) {
            Some(Name::ascii(s))
        } else {
            None
        }
    }
}

/// names in answers: ASCII tokens not starting with `x` as they are, else `x<hex utf8>`
fn show_name(s: &str) -> String {
    if name_ok(s) && !s.starts_with('x') {
        s.to_string()
    } else {
        format!("x{}", hex(s.as_bytes()))
    }
}

fn show_opt_name(s: Option<&str>) -> String {
    match s {
        Some(s) => show_name(s),
        None => "-".into(),
    }
}

fn text_field(s: &str) -> String {
    format!("x{}", hex(s.as_bytes()))
}

fn parse_text(s: &str) -> Option<String> {
    String::from_utf8(unhex(s.strip_prefix('x')?)?).ok()
}

#[derive(Clone, Debug, PartialEq)]
struct Mod {
    base: u64,
    size: u32,
    name: Name,
}

#[derive(Clone, Copy, Debug, PartialEq)]
enum Own {
    Null,
    Outside,
    Pool(usize),
}

#[derive(Clone, Debug, PartialEq)]
struct Thread {
    id: u32,
    ctx: Ctx,
    /// (start_of_memory_range, what the descriptor cites)
    stack: Option<(u64, Own)>,
}

#[derive(Clone, Debug, PartialEq)]
struct Region {
    base: u64,
    size: u64,
    patches: Vec<(u64, Vec<u8>)>,
}

impl Region {
    fn bytes(&self) -> Vec<u8> {
        let mut b = vec![0u8; self.size as usize];
        for (off, p) in &self.patches {
            b[*off as usize..*off as usize + p.len()].copy_from_slice(p);
        }
        b
    }
}

#[derive(Clone, Debug, PartialEq)]
enum LItem {
    Pool(usize),
    Null(u64),
}

#[derive(Clone, Debug, PartialEq)]
enum MlSection {
    L(Vec<LItem>),
    Q(Vec<usize>),
    X,
}

#[derive(Clone, Debug, PartialEq)]
struct Sys {
    level: u16,
    revision: u16,
    ncpu: u8,
    major: u32,
    minor: u32,
    build: u32,
    csd: Option<Name>,
    d: [u32; 3],
}

#[derive(Clone, Debug, PartialEq)]
struct MacRec {
    version: u64,
    thread: u64,
    dialog: u64,
    abort: u64,
    strs: [String; 5],
}

#[derive(Clone, Debug, PartialEq)]
struct Case {
    ts: u32,
    os: u32,
    cpu: u16,
    th: Option<Vec<Thread>>,
    nm: Option<Vec<(u32, Name)>>,
    bp: Option<(u32, u32, u32)>,
    ex: ExcSpec,
    mi: MiscSpec,
    st: Option<Vec<(String, String)>>,
    mo: Vec<Mod>,
    um: Vec<Mod>,
    rg: Vec<Region>,
    be: bool,
    ml: Vec<MlSection>,
    si: Option<Sys>,
    lsb: Option<Vec<(String, String)>>,
    mac: Option<Vec<MacRec>>,
    ba: Option<Name>,
    hd: Option<u32>,
    ps: u32,
    /// the symbol supplier: per module name its FUNC / PUBLIC / STACK CFI records …
    sy: Vec<(String, Vec<walk::Rec>)>,
    /// … and its STACK WIN records
    sw: Vec<(String, Vec<WinRec>)>,
}

fn fmt_ctx(c: &Ctx) -> String {
    match c {
        Ctx::R { ip, sp: 0, fp: 0, rest } if rest.is_empty() => format!("r{ip}"),
        Ctx::R { ip, sp, fp, rest } => {
            let mut s = format!("r{ip}/{sp}/{fp}");
            for (n, v) in rest {
                let _ = write!(s, "/{n}={v}");
            }
            s
        }
        Ctx::U(m) => format!("u{m}"),
    }
}

fn fmt_list<T>(xs: &[T], f: impl Fn(&T) -> String) -> String {
    if xs.is_empty() {
        ".".to_string()
    } else {
        xs.iter().map(f).collect::<Vec<_>>().join(",")
    }
}

impl Case {
    fn line(&self) -> String {
        let th = match &self.th {
            None => "-".to_string(),
            Some(v) => fmt_list(v, |t| {
                let stk = match &t.stack {
                    None => String::new(),
                    Some((start, Own::Null)) => format!(":{start}/n"),
                    Some((start, Own::Outside)) => format!(":{start}/o"),
                    Some((start, Own::Pool(k))) => format!(":{start}/m{k}"),
                };
                format!("{}:{}{}", t.id, fmt_ctx(&t.ctx), stk)
            }),
        };
        let nm = match &self.nm {
            None => "-".to_string(),
            Some(v) => fmt_list(v, |(id, n)| format!("{id}:{}", n.field())),
        };
        let bp = match &self.bp {
            None => "-".to_string(),
            Some((v, d, r)) => format!("{v}:{d}:{r}"),
        };
        let ex = match &self.ex {
            ExcSpec::None => "-".to_string(),
            ExcSpec::Short => "x".to_string(),
            ExcSpec::Some(e) => format!(
                "{}:{}:{}:{}:{}:{}:{}:{}:{}",
                e.tid, e.code, e.flags, e.addr, e.np, e.p0, e.p1, e.p2, fmt_ctx(&e.ctx)
            ),
        };
        let mi = match &self.mi {
            MiscSpec::None => "-".to_string(),
            MiscSpec::Short => "x".to_string(),
            MiscSpec::Some { flags, pid, ctime, ver, soi: None } => format!("{flags}:{pid}:{ctime}:{ver}"),
            MiscSpec::Some { flags, pid, ctime, ver, soi: Some(z) } => format!("{flags}:{pid}:{ctime}:{ver}:{z}"),
        };
        let st = match &self.st {
            None => "-".to_string(),
            Some(v) => fmt_list(v, |(k, val)| format!("{k}~{val}")),
        };
        let ml = |v: &Vec<Mod>| fmt_list(v, |m| format!("{}:{}:{}", m.base, m.size, m.name.field()));
        let mut s = format!(
            "index ts={} os={} cpu={} th={} nm={} bp={} ex={} mi={} st={} mo={} um={}",
            self.ts, self.os, self.cpu, th, nm, bp, ex, mi, st, ml(&self.mo), ml(&self.um)
        );
        if !self.rg.is_empty() {
            let _ = write!(
                s,
                " rg={}",
                self.rg
                    .iter()
                    .map(|r| {
                        let mut t = format!("{}/{}", r.base, r.size);
                        for (off, p) in &r.patches {
                            let _ = write!(t, "/{off}.{}", hex(p));
                        }
                        t
                    })
                    .collect::<Vec<_>>()
                    .join(",")
            );
        }
        if self.be {
            s.push_str(" en=be");
        }
        if !self.ml.is_empty() {
            let secs: Vec<String> = self
                .ml
                .iter()
                .map(|m| match m {
                    MlSection::X => "X".to_string(),
                    MlSection::Q(v) => format!("Q:{}", v.iter().map(|i| i.to_string()).collect::<Vec<_>>().join(".")),
                    MlSection::L(v) => format!(
                        "L:{}",
                        v.iter()
                            .map(|i| match i {
                                LItem::Pool(k) => k.to_string(),
                                LItem::Null(b) => format!("!{b}"),
                            })
                            .collect::<Vec<_>>()
                            .join(".")
                    ),
                })
                .collect();
            let _ = write!(s, " ml={}", secs.join(";"));
        }
        if let Some(si) = &self.si {
            let _ = write!(
                s,
                " si={}:{}:{}:{}:{}:{}:{}:{}:{}:{}",
                si.level,
                si.revision,
                si.ncpu,
                si.major,
                si.minor,
                si.build,
                si.csd.as_ref().map(|n| n.field()).unwrap_or_else(|| "-".into()),
                si.d[0],
                si.d[1],
                si.d[2]
            );
        }
        if let Some(l) = &self.lsb {
            let _ = write!(s, " lsb={}", fmt_list(l, |(k, v)| format!("{k}~{}", text_field(v))));
        }
        if let Some(m) = &self.mac {
            let _ = write!(
                s,
                " mac={}",
                fmt_list(m, |r| format!(
                    "{}/{}/{}/{}/{}",
                    r.version,
                    r.thread,
                    r.dialog,
                    r.abort,
                    r.strs.iter().map(|x| text_field(x)).collect::<Vec<_>>().join("/")
                ))
            );
        }
        if let Some(b) = &self.ba {
            let _ = write!(s, " ba={}", b.field());
        }
        if let Some(h) = self.hd {
            let _ = write!(s, " hd={h}");
        }
        if self.ps != 0 {
            let _ = write!(s, " ps={}", self.ps);
        }
        if !self.sy.is_empty() {
            let _ = write!(s, " sy={}", self.sy.iter().map(|(n, r)| format!("{n}~{}", walk::render_recs(r))).collect::<Vec<_>>().join(","));
        }
        if !self.sw.is_empty() {
            let _ = write!(
                s,
                " sw={}",
                self.sw.iter().map(|(n, r)| format!("{n}~{}", r.iter().map(|x| x.field()).collect::<Vec<_>>().join(";"))).collect::<Vec<_>>().join(",")
            );
        }
        s
    }
}

/// records of one symbol file, in the `walk` engine's own syntax (parsed by that engine's parser, so
/// that a change of its encoding is followed here)
fn parse_recs(name: &str, recs: &str) -> Option<Vec<walk::Rec>> {
    let c = walk::Case::parse(&format!("walk x86 linux ctx: valid:all stack:none mods:- sym:{name}:{recs}"), 0)?;
    Some(c.syms.into_iter().next()?.1)
}

/// the breakpad text the supplier holds per module name
fn symbol_map(c: &Case) -> std::collections::HashMap<String, String> {
    let mut m = std::collections::HashMap::new();
    for (n, recs) in &c.sy {
        m.insert(n.clone(), walk::sym_text(n, recs));
    }
    for (n, wins) in &c.sw {
        let t = m.entry(n.clone()).or_insert_with(|| walk::sym_text(n, &[]));
        for w in wins {
            t.push_str(&w.text());
        }
    }
    m
}

fn kv<'a>(tok: &'a str, key: &str) -> Option<&'a str> {
    tok.strip_prefix(key)?.strip_prefix('=')
}

fn ctx32(cpu: u16) -> bool {
    matches!(cpu, 0 | 10 | 3 | 5)
}

fn parse_ctx(cpu: u16, s: &str) -> Option<Ctx> {
    if let Some(r) = s.strip_prefix('r') {
        let lim = if ctx32(cpu) { u32::MAX as u64 } else { u64::MAX };
        let p: Vec<&str> = r.split('/').collect();
        let (nums, items) = p.split_at(p.len().min(3));
        let v: Vec<u64> = nums.iter().map(|x| x.parse().ok()).collect::<Option<_>>()?;
        if v.iter().any(|x| *x > lim) {
            return None;
        }
        match v.as_slice() {
            [ip] if items.is_empty() => Some(rctx(*ip)),
            [ip, sp, fp] => {
                let mut rest: Vec<(String, u64)> = vec![];
                if !items.is_empty() {
                    let arch = walk_arch(cpu)?;
                    for it in items {
                        let (n, val) = it.split_once('=')?;
                        let val: u64 = val.parse().ok()?;
                        if !walk::registers(arch).contains(&n) || n == walk::ip_name(arch) || n == walk::sp_name(arch) || n == walk::fp_name(arch) {
                            return None;
                        }
                        if val > lim || rest.iter().any(|(m, _)| m == n) {
                            return None;
                        }
                        rest.push((n.to_string(), val));
                    }
                }
                Some(Ctx::R { ip: *ip, sp: *sp, fp: *fp, rest })
            }
            _ => None,
        }
    } else if let Some(u) = s.strip_prefix('u') {
        Some(Ctx::U(u.parse().ok()?))
    } else {
        None
    }
}

fn parse_list<T>(s: &str, f: impl Fn(&str) -> Option<T>) -> Option<Vec<T>> {
    if s == "." {
        Some(vec![])
    } else {
        s.split(',').map(f).collect()
    }
}

fn name_ok(s: &str) -> bool {
    !s.is_empty() && s.bytes().all(|b| b.is_ascii_alphanumeric() || b == b'_' || b == b'.')
}

fn parse_mod(s: &str) -> Option<Mod> {
    let p: Vec<&str> = s.split(':').collect();
    if p.len() != 3 {
        return None;
    }
    Some(Mod { base: p[0].parse().ok()?, size: p[1].parse().ok()?, name: Name::parse(p[2])? })
}

fn parse_region(s: &str) -> Option<Region> {
    let p: Vec<&str> = s.split('/').collect();
    if p.len() < 2 {
        return None;
    }
    let base = p[0].parse().ok()?;
    let size: u64 = p[1].parse().ok()?;
    if size > 1_048_576 {
        return None;
    }
    let mut patches = vec![];
    for q in &p[2..] {
        let (o, h) = q.split_once('.')?;
        let off: u64 = o.parse().ok()?;
        let b = unhex(h)?;
        if off + b.len() as u64 > size {
            return None;
        }
        patches.push((off, b));
    }
    Some(Region { base, size, patches })
}

fn parse_case(line: &str) -> Option<Case> {
    let f: Vec<&str> = line.split(' ').filter(|s| !s.is_empty()).collect();
    if f.len() < 12 || f[0] != "index" {
        return None;
    }
    let ts = kv(f[1], "ts")?.parse().ok()?;
    let os = kv(f[2], "os")?.parse().ok()?;
    let cpu: u16 = kv(f[3], "cpu")?.parse().ok()?;
    let mut rest = &f[12..];
    let mut rg = vec![];
    if let Some(r) = rest.first().and_then(|t| kv(t, "rg")) {
        rg = parse_list(r, parse_region)?;
        rest = &rest[1..];
    }
    let th = match kv(f[4], "th")? {
        "-" => None,
        s => Some(parse_list(s, |t| {
            let p: Vec<&str> = t.split(':').collect();
            if p.len() != 2 && p.len() != 3 {
                return None;
            }
            let stack = if p.len() == 3 {
                let (st, o) = p[2].split_once('/')?;
                let start: u64 = st.parse().ok()?;
                let own = match o {
                    "n" => Own::Null,
                    "o" => Own::Outside,
                    m => {
                        let k: usize = m.strip_prefix('m')?.parse().ok()?;
                        if k >= rg.len() {
                            return None;
                        }
                        Own::Pool(k)
                    }
                };
                Some((start, own))
            } else {
                None
            };
            Some(Thread { id: p[0].parse().ok()?, ctx: parse_ctx(cpu, p[1])?, stack })
        })?),
    };
    let nm = match kv(f[5], "nm")? {
        "-" => None,
        s => Some(parse_list(s, |t| {
            let (a, n) = t.split_once(':')?;
            Some((a.parse().ok()?, Name::parse(n)?))
        })?),
    };
    let bp = match kv(f[6], "bp")? {
        "-" => None,
        s => {
            let p: Vec<&str> = s.split(':').collect();
            if p.len() != 3 {
                return None;
            }
            Some((p[0].parse().ok()?, p[1].parse().ok()?, p[2].parse().ok()?))
        }
    };
    let ex = match kv(f[7], "ex")? {
        "-" => ExcSpec::None,
        "x" => ExcSpec::Short,
        s => {
            let p: Vec<&str> = s.split(':').collect();
            if p.len() != 9 {
                return None;
            }
            ExcSpec::Some(Exc {
                tid: p[0].parse().ok()?,
                code: p[1].parse().ok()?,
                flags: p[2].parse().ok()?,
                addr: p[3].parse().ok()?,
                np: p[4].parse().ok()?,
                p0: p[5].parse().ok()?,
                p1: p[6].parse().ok()?,
                p2: p[7].parse().ok()?,
                ctx: parse_ctx(cpu, p[8])?,
            })
        }
    };
    let mi = match kv(f[8], "mi")? {
        "-" => MiscSpec::None,
        "x" => MiscSpec::Short,
        s => {
            let p: Vec<&str> = s.split(':').collect();
            if p.len() != 4 && p.len() != 5 {
                return None;
            }
            let ver: u8 = p[3].parse().ok()?;
            if !(1..=5).contains(&ver) {
                return None;
            }
            let soi = if p.len() == 5 { Some(p[4].parse().ok()?) } else { None };
            MiscSpec::Some { flags: p[0].parse().ok()?, pid: p[1].parse().ok()?, ctime: p[2].parse().ok()?, ver, soi }
        }
    };
    let st = match kv(f[9], "st")? {
        "-" => None,
        s => Some(parse_list(s, |t| {
            let (k, v) = t.split_once('~')?;
            let ok = |x: &str| x.bytes().all(|b| b.is_ascii_alphanumeric() || b == b'+' || b == b'-' || b == b'_');
            if k.is_empty() || !ok(k) || !ok(v) {
                return None;
            }
            Some((k.to_string(), v.to_string()))
        })?),
    };
    let mo = parse_list(kv(f[10], "mo")?, parse_mod)?;
    let um = parse_list(kv(f[11], "um")?, parse_mod)?;
    let mut c = Case { ts, os, cpu, th, nm, bp, ex, mi, st, mo, um, rg, be: false, ml: vec![], si: None, lsb: None, mac: None, ba: None, hd: None, ps: 0, sy: vec![], sw: vec![] };
    let mut seen: BTreeSet<&str> = BTreeSet::new();
    for t in rest {
        let (k, v) = t.split_once('=')?;
        if !seen.insert(k) {
            return None;
        }
        match k {
            "en" => c.be = match v { "be" => true, "le" => false, _ => return None },
            "ml" => {
                for sec in v.split(';') {
                    let item = if sec == "X" {
                        MlSection::X
                    } else if let Some(b) = sec.strip_prefix("L:") {
                        let mut items = vec![];
                        for it in b.split('.').filter(|x| !x.is_empty()) {
                            items.push(if let Some(a) = it.strip_prefix('!') {
                                LItem::Null(a.parse().ok()?)
                            } else {
                                let k: usize = it.parse().ok()?;
                                if k >= c.rg.len() {
                                    return None;
                                }
                                LItem::Pool(k)
                            });
                        }
                        MlSection::L(items)
                    } else if let Some(b) = sec.strip_prefix("Q:") {
                        let mut items = vec![];
                        for it in b.split('.').filter(|x| !x.is_empty()) {
                            let k: usize = it.parse().ok()?;
                            if k >= c.rg.len() {
                                return None;
                            }
                            items.push(k);
                        }
                        MlSection::Q(items)
                    } else {
                        return None;
                    };
                    let dup = c.ml.iter().any(|m| match (m, &item) {
                        (MlSection::L(_), MlSection::L(_)) => true,
                        (MlSection::L(_), _) | (_, MlSection::L(_)) => false,
                        _ => true,
                    });
                    if dup {
                        return None;
                    }
                    c.ml.push(item);
                }
            }
            "si" => {
                let p: Vec<&str> = v.split(':').collect();
                if p.len() != 10 {
                    return None;
                }
                c.si = Some(Sys {
                    level: p[0].parse().ok()?,
                    revision: p[1].parse().ok()?,
                    ncpu: p[2].parse().ok()?,
                    major: p[3].parse().ok()?,
                    minor: p[4].parse().ok()?,
                    build: p[5].parse().ok()?,
                    csd: if p[6] == "-" { None } else { Some(Name::parse(p[6])?) },
                    d: [p[7].parse().ok()?, p[8].parse().ok()?, p[9].parse().ok()?],
                });
            }
            "lsb" => {
                c.lsb = Some(parse_list(v, |t| {
                    let (k, val) = t.split_once('~')?;
                    if k.is_empty() {
                        return None;
                    }
                    Some((k.to_string(), parse_text(val)?))
                })?)
            }
            "mac" => {
                c.mac = Some(parse_list(v, |t| {
                    let p: Vec<&str> = t.split('/').collect();
                    if p.len() != 9 {
                        return None;
                    }
                    Some(MacRec {
                        version: p[0].parse().ok()?,
                        thread: p[1].parse().ok()?,
                        dialog: p[2].parse().ok()?,
                        abort: p[3].parse().ok()?,
                        strs: [parse_text(p[4])?, parse_text(p[5])?, parse_text(p[6])?, parse_text(p[7])?, parse_text(p[8])?],
                    })
                })?)
            }
            "ba" => c.ba = Some(Name::parse(v)?),
            "hd" => {
                let n: u32 = v.parse().ok()?;
                if n == 0 {
                    return None;
                }
                c.hd = Some(n)
            }
            "ps" => c.ps = v.parse().ok()?,
            "sy" => {
                for m in v.split(',') {
                    let (n, recs) = m.split_once('~')?;
                    if !name_ok(n) || c.sy.iter().any(|(x, _)| x == n) {
                        return None;
                    }
                    c.sy.push((n.to_string(), parse_recs(n, recs)?));
                }
            }
            "sw" => {
                for m in v.split(',') {
                    let (n, recs) = m.split_once('~')?;
                    if !name_ok(n) || c.sw.iter().any(|(x, _)| x == n) {
                        return None;
                    }
                    c.sw.push((n.to_string(), recs.split(';').filter(|x| !x.is_empty()).map(WinRec::parse).collect::<Option<_>>()?));
                }
            }
            _ => return None,
        }
    }
    Some(c)
}

// ----------------------------------------------------------------------------- dump building

fn endian(c: &Case) -> Endian {
    if c.be {
        Endian::Big
    } else {
        Endian::Little
    }
}

/// a well-formed context of the given raw architecture with the given ip / sp / frame pointer;
/// `None`: `MinidumpContext::read` has no format for this architecture.
fn context_bytes(arch: u16, be: bool, ip: u64, sp: u64, fp: u64, rest: &[(String, u64)], bad_flags: bool) -> Option<Vec<u8>> {
    use md::ContextFlagsCpu as F;
    use md::ProcessorArchitecture::*;
    use num_traits_shim::from_u16;
    let en = if be { scroll::BE } else { scroll::LE };
    macro_rules! build {
        ($t:ty, |$c:ident| $body:block) => {{
            let size = <$t>::size_with(&en);
            let mut buf = vec![0u8; size];
            let mut $c: $t = buf.pread_with(0, en).ok()?;
            $body
            for (n, v) in rest {
                $c.set_register(n, *v as _)?;
            }
            buf.pwrite_with($c, 0, en).ok()?;
            Some(buf)
        }};
    }
    match from_u16(arch)? {
        PROCESSOR_ARCHITECTURE_INTEL | PROCESSOR_ARCHITECTURE_IA32_ON_WIN64 => build!(md::CONTEXT_X86, |c| {
            c.context_flags = if bad_flags { 0x3f } else { F::CONTEXT_X86.bits() | 0x3f };
            c.eip = ip as u32;
            c.esp = sp as u32;
            c.ebp = fp as u32;
        }),
        PROCESSOR_ARCHITECTURE_AMD64 => build!(md::CONTEXT_AMD64, |c| {
            c.context_flags = if bad_flags { 0x1f } else { F::CONTEXT_AMD64.bits() | 0x1f };
            c.rip = ip;
            c.rsp = sp;
            c.rbp = fp;
        }),
        PROCESSOR_ARCHITECTURE_PPC => build!(md::CONTEXT_PPC, |c| {
            c.context_flags = if bad_flags { 1 } else { F::CONTEXT_PPC.bits() | 1 };
            c.srr0 = ip as u32;
            c.gpr[1] = sp as u32;
        }),
        PROCESSOR_ARCHITECTURE_PPC64 => build!(md::CONTEXT_PPC64, |c| {
            c.context_flags = if bad_flags { 1 } else { (F::CONTEXT_PPC64.bits() | 1) as u64 };
            c.srr0 = ip;
            c.gpr[1] = sp;
        }),
        PROCESSOR_ARCHITECTURE_SPARC => build!(md::CONTEXT_SPARC, |c| {
            c.context_flags = if bad_flags { 1 } else { F::CONTEXT_SPARC.bits() | 1 };
            c.pc = ip;
            c.g_r[14] = sp;
        }),
        PROCESSOR_ARCHITECTURE_ARM => build!(md::CONTEXT_ARM, |c| {
            c.context_flags = if bad_flags { 2 } else { F::CONTEXT_ARM.bits() | 2 };
            c.iregs[15] = ip as u32;
            c.iregs[13] = sp as u32;
            c.iregs[11] = fp as u32;
        }),
        PROCESSOR_ARCHITECTURE_ARM64 => build!(md::CONTEXT_ARM64, |c| {
            c.context_flags = if bad_flags { 0x1f } else { F::CONTEXT_ARM64.bits() | 0x1f };
            c.pc = ip;
            c.sp = sp;
            c.iregs[29] = fp;
        }),
        PROCESSOR_ARCHITECTURE_ARM64_OLD => build!(md::CONTEXT_ARM64_OLD, |c| {
            c.context_flags = if bad_flags { 2 } else { (F::CONTEXT_ARM64_OLD.bits() | 2) as u64 };
            c.pc = ip;
            c.sp = sp;
            c.iregs[29] = fp;
        }),
        PROCESSOR_ARCHITECTURE_MIPS => build!(md::CONTEXT_MIPS, |c| {
            c.context_flags = if bad_flags { 2 } else { F::CONTEXT_MIPS.bits() | 2 };
            c.epc = ip;
            c.iregs[29] = sp;
            c.iregs[30] = fp;
        }),
        _ => None,
    }
}

/// `ProcessorArchitecture::from_u16` without depending on num-traits directly
mod num_traits_shim {
    use minidump_common::format::ProcessorArchitecture::{self, *};
    pub fn from_u16(a: u16) -> Option<ProcessorArchitecture> {
        const ALL: &[ProcessorArchitecture] = &[
            PROCESSOR_ARCHITECTURE_INTEL,
            PROCESSOR_ARCHITECTURE_MIPS,
            PROCESSOR_ARCHITECTURE_ALPHA,
            PROCESSOR_ARCHITECTURE_PPC,
            PROCESSOR_ARCHITECTURE_SHX,
            PROCESSOR_ARCHITECTURE_ARM,
            PROCESSOR_ARCHITECTURE_IA64,
            PROCESSOR_ARCHITECTURE_ALPHA64,
            PROCESSOR_ARCHITECTURE_MSIL,
            PROCESSOR_ARCHITECTURE_AMD64,
            PROCESSOR_ARCHITECTURE_IA32_ON_WIN64,
            PROCESSOR_ARCHITECTURE_ARM64,
            PROCESSOR_ARCHITECTURE_SPARC,
            PROCESSOR_ARCHITECTURE_PPC64,
            PROCESSOR_ARCHITECTURE_ARM64_OLD,
            PROCESSOR_ARCHITECTURE_MIPS64,
            PROCESSOR_ARCHITECTURE_UNKNOWN,
        ];
        ALL.iter().copied().find(|x| *x as u16 == a)
    }
}

/// what a context location descriptor should say
enum Loc {
    Zero,
    Outside(u32),
    Section { sec: Section, cite_size: Option<u32> },
}

fn ctx_location(arch: u16, be: bool, c: &Ctx) -> Loc {
    let en = if be { Endian::Big } else { Endian::Little };
    // for architectures without a context format an x86-shaped blob is written: it must be ignored
    let fallback = |ip: u64, sp: u64, fp: u64, bad: bool| context_bytes(0, be, ip, sp, fp, &[], bad).unwrap();
    let bytes = |ip: u64, sp: u64, fp: u64, bad: bool| context_bytes(arch, be, ip, sp, fp, &[], bad).unwrap_or_else(|| fallback(ip, sp, fp, bad));
    match c {
        Ctx::R { ip, sp, fp, rest } => {
            let b = context_bytes(arch, be, *ip, *sp, *fp, rest, false).unwrap_or_else(|| fallback(*ip, *sp, *fp, false));
            Loc::Section { sec: Section::with_endian(en).append_bytes(&b), cite_size: None }
        }
        Ctx::U(0) => Loc::Zero,
        Ctx::U(1) => Loc::Outside(bytes(0, 0, 0, false).len() as u32),
        Ctx::U(2) => {
            let b = bytes(0x4444, 0, 0, false);
            let n = b.len() as u32 - 1;
            Loc::Section { sec: Section::with_endian(en).append_bytes(&b), cite_size: Some(n) }
        }
        Ctx::U(3) => Loc::Section { sec: Section::with_endian(en).append_bytes(&bytes(0x5555, 0, 0, true)), cite_size: None },
        Ctx::U(_) => Loc::Section { sec: Section::with_endian(en).append_bytes(&bytes(0x6666, 0, 0, false)), cite_size: Some(0) },
    }
}

/// append the location descriptor to `entry`, and the context bytes (if any) to the dump
fn cite_ctx(mut dump: synth::SynthMinidump, entry: Section, loc: Loc) -> (synth::SynthMinidump, Section) {
    match loc {
        Loc::Zero => (dump, entry.D32(0).D32(0)),
        Loc::Outside(size) => (dump, entry.D32(size).D32(0xffff_fff0u32)),
        Loc::Section { sec, cite_size } => {
            let entry = match cite_size {
                None => entry.cite_location(&sec),
                Some(n) => entry.D32(n).D32(sec.file_offset()),
            };
            dump = dump.add(sec);
            (dump, entry)
        }
    }
}

/// a MINIDUMP_STRING with arbitrary UTF-16 code units
fn dump_string(units: &[u16], en: Endian) -> Section {
    let mut s = Section::with_endian(en).D32((units.len() * 2) as u32);
    for u in units {
        s = s.D16(*u);
    }
    s
}

/// rva of a name (a string section added to the dump, or an rva outside the file)
fn cite_name(mut dump: synth::SynthMinidump, name: &Name, en: Endian) -> (synth::SynthMinidump, Label) {
    match name {
        Name::Bad => (dump, Label::from_const(0xffff_fff0)),
        Name::Units(u) => {
            let s = dump_string(u, en);
            let l = s.file_offset();
            dump = dump.add(s);
            (dump, l)
        }
    }
}

fn build_dump(c: &Case) -> Vec<u8> {
    let en = endian(c);
    let mut dump = synth::SynthMinidump::with_endian(en);
    // --- system info (raw, so that csd_version_rva can cite a string)
    {
        let dflt = Sys { level: 6, revision: 0, ncpu: 1, major: 0, minor: 0, build: 0, csd: None, d: [0; 3] };
        let si = c.si.as_ref().unwrap_or(&dflt);
        let csd = match &si.csd {
            None => Label::from_const(0),
            Some(n) => {
                let (d, l) = cite_name(dump, n, en);
                dump = d;
                l
            }
        };
        let s = Section::with_endian(en)
            .D16(c.cpu)
            .D16(si.level)
            .D16(si.revision)
            .D8(si.ncpu)
            .D8(0)
            .D32(si.major)
            .D32(si.minor)
            .D32(si.build)
            .D32(c.os)
            .D32(&csd)
            .D16(0)
            .D16(0)
            .D32(si.d[0])
            .D32(si.d[1])
            .D32(si.d[2])
            .D32(0)
            .D32(0)
            .D32(0);
        dump = dump.add_stream(synth::SimpleStream { stream_type: md::MINIDUMP_STREAM_TYPE::SystemInfoStream as u32, section: s });
    }
    // --- pool regions that are cited by a thread or by the memory list get a section of their own
    let mut cited: BTreeSet<usize> = BTreeSet::new();
    for t in c.th.iter().flatten() {
        if let Some((_, Own::Pool(k))) = t.stack {
            cited.insert(k);
        }
    }
    for m in &c.ml {
        if let MlSection::L(items) = m {
            for i in items {
                if let LItem::Pool(k) = i {
                    cited.insert(*k);
                }
            }
        }
    }
    let mut locs: BTreeMap<usize, (Label, u32)> = BTreeMap::new();
    for k in &cited {
        let bytes = c.rg[*k].bytes();
        let sec = Section::with_endian(en).append_bytes(&bytes);
        locs.insert(*k, (sec.file_offset(), bytes.len() as u32));
        dump = dump.add(sec);
    }
    // --- memory lists
    for m in &c.ml {
        match m {
            MlSection::X => {
                dump = dump.add_stream(synth::SimpleStream {
                    stream_type: md::MINIDUMP_STREAM_TYPE::Memory64ListStream as u32,
                    section: Section::with_endian(en).D32(1),
                });
            }
            MlSection::Q(items) => {
                let mut blob = Section::with_endian(en);
                let mut list = synth::Memory64ListStream::new(en, &blob.file_offset());
                for k in items {
                    let bytes = c.rg[*k].bytes();
                    let mem = synth::Memory::with_section(Section::with_endian(en).append_bytes(&bytes), c.rg[*k].base);
                    list = list.add_memory(&mem);
                    blob = blob.append_bytes(&bytes);
                }
                dump = dump.add_stream(list).add(blob);
            }
            MlSection::L(items) => {
                let mut list = synth::ListStream::<Section>::new(md::MINIDUMP_STREAM_TYPE::MemoryListStream, en);
                for it in items {
                    let d = match it {
                        LItem::Null(b) => Section::with_endian(en).D64(*b).D32(16).D32(0),
                        LItem::Pool(k) => {
                            let (off, size) = &locs[k];
                            Section::with_endian(en).D64(c.rg[*k].base).D32(*size).D32(off)
                        }
                    };
                    list = list.add(d);
                }
                dump = dump.add_stream(list);
            }
        }
    }
    // --- thread list (raw entries)
    if let Some(threads) = &c.th {
        let mut list = synth::ListStream::<Section>::new(md::MINIDUMP_STREAM_TYPE::ThreadListStream, en);
        for t in threads {
            let entry = Section::with_endian(en)
                .D32(t.id)
                .D32(0) // suspend_count
                .D32(0) // priority_class
                .D32(0) // priority
                .D64(0); // teb
            let entry = match &t.stack {
                None => entry.D64(0).D32(0).D32(0),
                Some((start, Own::Null)) => entry.D64(*start).D32(64).D32(0),
                Some((start, Own::Outside)) => entry.D64(*start).D32(64).D32(0xffff_ff00u32),
                Some((start, Own::Pool(k))) => {
                    let (off, size) = &locs[k];
                    entry.D64(*start).D32(*size).D32(off)
                }
            };
            let (d, entry) = cite_ctx(dump, entry, ctx_location(c.cpu, c.be, &t.ctx));
            dump = d;
            list = list.add(entry);
        }
        dump = dump.add_stream(list);
    }
    if let Some(names) = &c.nm {
        let mut list = synth::ListStream::<Section>::new(md::MINIDUMP_STREAM_TYPE::ThreadNamesStream, en);
        for (id, name) in names {
            let entry = Section::with_endian(en).D32(*id);
            let entry = match name {
                Name::Bad => entry.D64(0xffff_ffff_ffff_ffffu64),
                Name::Units(u) => {
                    let s = dump_string(u, en);
                    let e = entry.D64(s.file_offset());
                    dump = dump.add(s);
                    e
                }
            };
            list = list.add(entry);
        }
        dump = dump.add_stream(list);
    }
    if let Some((v, d, r)) = c.bp {
        dump = dump.add_stream(synth::SimpleStream {
            stream_type: md::MINIDUMP_STREAM_TYPE::BreakpadInfoStream as u32,
            section: Section::with_endian(en).D32(v).D32(d).D32(r),
        });
    }
    match &c.ex {
        ExcSpec::None => {}
        ExcSpec::Short => {
            dump = dump.add_stream(synth::SimpleStream {
                stream_type: md::MINIDUMP_STREAM_TYPE::ExceptionStream as u32,
                section: Section::with_endian(en).D32(1).D32(0).D32(0xc0000005u32),
            });
        }
        ExcSpec::Some(e) => {
            let mut s = Section::with_endian(en)
                .D32(e.tid)
                .D32(0)
                .D32(e.code)
                .D32(e.flags)
                .D64(0)
                .D64(e.addr)
                .D32(e.np)
                .D32(0);
            for i in 0..15u64 {
                s = s.D64(match i {
                    0 => e.p0,
                    1 => e.p1,
                    2 => e.p2,
                    _ => 0xdead_0000 + i,
                });
            }
            let (d, s) = cite_ctx(dump, s, ctx_location(c.cpu, c.be, &e.ctx));
            dump = d.add_stream(synth::SimpleStream {
                stream_type: md::MINIDUMP_STREAM_TYPE::ExceptionStream as u32,
                section: s,
            });
        }
    }
    match &c.mi {
        MiscSpec::None => {}
        MiscSpec::Short => {
            dump = dump.add_stream(synth::SimpleStream {
                stream_type: md::MINIDUMP_STREAM_TYPE::MiscInfoStream as u32,
                section: Section::with_endian(en).D32(8).D32(3),
            });
        }
        MiscSpec::Some { flags, pid, ctime, ver, soi } => {
            let size = match ver {
                1 => md::MINIDUMP_MISC_INFO::size_with(&scroll::LE),
                2 => md::MINIDUMP_MISC_INFO_2::size_with(&scroll::LE),
                3 => md::MINIDUMP_MISC_INFO_3::size_with(&scroll::LE),
                4 => md::MINIDUMP_MISC_INFO_4::size_with(&scroll::LE),
                _ => md::MINIDUMP_MISC_INFO_5::size_with(&scroll::LE),
            };
            let s = Section::with_endian(en)
                .D32(soi.unwrap_or(size as u32))
                .D32(*flags)
                .D32(*pid)
                .D32(*ctime)
                .D32(7) // user time
                .D32(9) // kernel time
                .append_repeated(0, size - 24);
            dump = dump.add_stream(synth::SimpleStream {
                stream_type: md::MINIDUMP_STREAM_TYPE::MiscInfoStream as u32,
                section: s,
            });
        }
    }
    if let Some(st) = &c.st {
        let mut text = String::new();
        for (k, v) in st {
            let _ = write!(text, "{k}:\t{v}\n");
        }
        dump = dump.set_linux_proc_status(text.as_bytes());
    }
    if let Some(l) = &c.lsb {
        let mut text = String::new();
        for (i, (k, v)) in l.iter().enumerate() {
            // quoting and padding that `linux_list_iter` strips
            match i % 3 {
                0 => {
                    let _ = write!(text, "{k}={v}\n");
                }
                1 => {
                    let _ = write!(text, "{k}=\"{v}\"\n");
                }
                _ => {
                    let _ = write!(text, " {k} = {v} \n");
                }
            }
        }
        dump = dump.set_linux_lsb_release(text.as_bytes());
    }
    // --- modules (raw entries: names are arbitrary code units)
    if !c.mo.is_empty() {
        let mut list = synth::ListStream::<Section>::new(md::MINIDUMP_STREAM_TYPE::ModuleListStream, en);
        for m in &c.mo {
            let (d, name) = cite_name(dump, &m.name, en);
            dump = d;
            let mut e = Section::with_endian(en).D64(m.base).D32(m.size).D32(0).D32(0).D32(&name);
            for _ in 0..13 {
                e = e.D32(0); // VS_FIXEDFILEINFO
            }
            e = e.D32(0).D32(0).D32(0).D32(0).D64(0).D64(0); // cv_record, misc_record, reserved
            list = list.add(e);
        }
        dump = dump.add_stream(list);
    }
    if !c.um.is_empty() {
        let mut list = synth::ExListStream::<Section>::new(
            md::MINIDUMP_STREAM_TYPE::UnloadedModuleListStream,
            std::mem::size_of::<md::MINIDUMP_UNLOADED_MODULE>(),
            en,
        );
        for m in &c.um {
            let (d, name) = cite_name(dump, &m.name, en);
            dump = d;
            list = list.add(Section::with_endian(en).D64(m.base).D32(m.size).D32(0).D32(0).D32(&name));
        }
        dump = dump.add_stream(list);
    }
    // --- macOS crash info: every record is written with the V5 fixed part (40 bytes)
    if let Some(recs) = &c.mac {
        let ty = md::MINIDUMP_STREAM_TYPE::MozMacosCrashInfoStream as u32;
        let mut head = Section::with_endian(en).D32(ty).D32(recs.len() as u32).D32(40);
        for i in 0..20 {
            if let Some(r) = recs.get(i) {
                let mut s = Section::with_endian(en).D64(ty as u64).D64(r.version).D64(r.thread).D64(r.dialog).D64(r.abort);
                for x in &r.strs {
                    s = s.append_bytes(x.as_bytes()).D8(0);
                }
                head = head.cite_location(&s);
                dump = dump.add(s);
            } else {
                head = head.D32(0).D32(0);
            }
        }
        dump = dump.add_stream(synth::SimpleStream { stream_type: ty, section: head });
    }
    if let Some(b) = &c.ba {
        let ty = md::MINIDUMP_STREAM_TYPE::MozMacosBootargsStream as u32;
        let (d, l) = cite_name(dump, b, en);
        dump = d.add_stream(synth::SimpleStream { stream_type: ty, section: Section::with_endian(en).D32(ty).D64(&l) });
    }
    if let Some(n) = c.hd {
        for i in 0..n {
            dump = dump.add_handle_descriptor(synth::HandleDescriptor::new(en, 0x100 + i as u64, None, None, 0, 0, 1, 1));
        }
    }
    if c.ps & 1 != 0 {
        let mut list = synth::ExListStream::<Section>::new(md::MINIDUMP_STREAM_TYPE::ThreadInfoListStream, 64, en);
        for t in c.th.iter().flatten().take(3) {
            list = list.add(Section::with_endian(en).D32(t.id).D32(0).D32(0).D32(0).D64(1).D64(2).D64(3).D64(4).D64(5).D64(6));
        }
        dump = dump.add_stream(list);
    }
    if c.ps & 2 != 0 {
        dump = dump.add_crashpad_info(synth::CrashpadInfo::new(en).add_simple_annotation("channel", "nightly"));
    }
    if c.ps & 4 != 0 {
        let mut s = Section::with_endian(en);
        for text in ["x != 0", "crash_me", "crash.cc"] {
            let mut n = 0;
            for u in text.encode_utf16() {
                s = s.D16(u);
                n += 1;
            }
            s = s.append_repeated(0, (128 - n) * 2);
        }
        dump = dump.add_stream(synth::SimpleStream { stream_type: md::MINIDUMP_STREAM_TYPE::AssertionInfoStream as u32, section: s.D32(42).D32(1) });
    }
    if c.ps & 8 != 0 {
        dump = dump.add_memory_info(synth::MemoryInfo::new(en, 0x10000, 0x10000, 4, 0x1000, 0x1000, 4, 0x20000));
    }
    let mut bytes = dump.finish().expect("synth dump");
    let ts = if c.be { c.ts.to_be_bytes() } else { c.ts.to_le_bytes() };
    bytes[20..24].copy_from_slice(&ts);
    bytes
}

// --------------------------------------------------------------------------------- execution

fn opt<T: std::fmt::Display>(o: Option<T>) -> String {
    match o {
        Some(v) => v.to_string(),
        None => "-".to_string(),
    }
}

fn secs(t: std::time::SystemTime) -> Option<u64> {
    t.duration_since(std::time::UNIX_EPOCH).ok().map(|d| d.as_secs())
}

fn reason_tag(r: &CrashReason) -> String {
    format!("{r:?}").replace(' ', "")
}

struct Seen {
    out: String,
    state: Option<minidump_processor::ProcessState>,
}

thread_local! {
    static RT: tokio::runtime::Runtime = tokio::runtime::Builder::new_current_thread().build().unwrap();
}

fn show_offsets(f: &minidump_unwind::StackFrame) -> String {
    let mut offs: Vec<String> = vec![];
    for (name, set) in &f.unloaded_modules {
        offs.push(format!("{}={}", show_name(name), set.iter().map(|o| o.to_string()).collect::<Vec<_>>().join("+")));
    }
    offs.join("&")
}

/// one frame in the model's format (`Walk.showFrame` + unloaded offsets)
fn show_frame(f: &minidump_unwind::StackFrame, mods: &[(u64, u64, String)], with_offsets: bool) -> String {
    let m = match &f.module {
        Some(m) => mods
            .iter()
            .position(|(b, z, n)| *b == m.base_address() && *z == m.size() && *n == m.name)
            .map(|i| i.to_string())
            .unwrap_or_else(|| "?".into()),
        None => "-".into(),
    };
    let func = match (&f.function_name, f.function_base, f.parameter_size) {
        (Some(n), Some(b), Some(p)) => format!("{n}@{b}/{p}"),
        (None, None, None) => "-".into(),
        _ => "?".into(),
    };
    let valid = match &f.context.valid {
        MinidumpContextValidity::All => "all".to_string(),
        MinidumpContextValidity::Some(set) => {
            let mut names: Vec<&&str> = set.iter().collect();
            names.sort();
            names.iter().map(|n| format!("{}={}", n, f.context.get_register_always(n))).collect::<Vec<_>>().join(",")
        }
    };
    let mut s = format!(
        "{}|ip={}|in={}|sp={}|m={}|f={}|v={}",
        f.trust.as_str(),
        f.context.get_instruction_pointer(),
        f.instruction,
        f.context.get_stack_pointer(),
        m,
        func,
        valid
    );
    if with_offsets {
        let _ = write!(s, "|u={}", show_offsets(f));
    }
    s
}

fn state_mods(state: &minidump_processor::ProcessState) -> Vec<(u64, u64, String)> {
    state.modules.iter().map(|m| (m.base_address(), m.size(), m.name.clone())).collect()
}

fn run_impl(c: &Case) -> Seen {
    let bytes = build_dump(c);
    let dump = match Minidump::read(bytes) {
        Ok(d) => d,
        Err(e) => return Seen { out: format!("err:read:{e:?}"), state: None },
    };
    let provider = minidump_unwind::Symbolizer::new(minidump_unwind::string_symbol_supplier(symbol_map(c)));
    let res = RT.with(|rt| rt.block_on(minidump_processor::process_minidump(&dump, &provider)));
    let state = match res {
        Ok(s) => s,
        Err(e) => return Seen { out: format!("err:{}", e.name()), state: None },
    };
    let mods = state_mods(&state);
    let mut out = String::from("threads:");
    for (i, t) in state.threads.iter().enumerate() {
        if i > 0 {
            out.push(';');
        }
        let info = match t.info {
            minidump_unwind::CallStackInfo::Ok => "ok",
            minidump_unwind::CallStackInfo::MissingContext => "missing",
            minidump_unwind::CallStackInfo::DumpThreadSkipped => "skipped",
            _ => "other",
        };
        let frames: Vec<String> = t.frames.iter().map(|f| show_frame(f, &mods, true)).collect();
        let _ = write!(out, "{}/{}/{}/{}", t.thread_id, show_opt_name(t.thread_name.as_deref()), info, frames.join("^"));
    }
    let _ = write!(out, " req:{}", opt(state.requesting_thread));
    match &state.exception_info {
        Some(e) => {
            let _ = write!(out, " exc:{} addr:{}", reason_tag(&e.reason), e.address.0);
        }
        None => out.push_str(" exc:- addr:-"),
    }
    let _ = write!(
        out,
        " pid:{} ctime:{} time:{}",
        opt(state.process_id),
        opt(state.process_create_time.and_then(secs)),
        opt(secs(state.time))
    );
    let ml = |it: Vec<(u64, u64, String)>| {
        it.iter().map(|(b, s, n)| format!("{b}:{s}:{}", show_name(n))).collect::<Vec<_>>().join(",")
    };
    let _ = write!(
        out,
        " mods:{} umods:{}",
        ml(state.modules.iter().map(|m| (m.base_address(), m.size(), m.code_file().to_string())).collect()),
        ml(state.unloaded_modules.iter().map(|m| (m.base_address(), m.size(), m.code_file().to_string())).collect())
    );
    let si = &state.system_info;
    let _ = write!(
        out,
        " sys:{}/{}/{}/{}",
        show_opt_name(si.os_version.as_deref()),
        show_opt_name(si.os_build.as_deref()),
        show_opt_name(si.cpu_info.as_deref()),
        si.cpu_count
    );
    match &state.linux_standard_base {
        None => out.push_str(" lsb:-"),
        Some(l) => {
            let _ = write!(out, " lsb:{}/{}/{}/{}", show_name(&l.id), show_name(&l.release), show_name(&l.codename), show_name(&l.description));
        }
    }
    match &state.mac_crash_info {
        None => out.push_str(" mac:-"),
        Some(rs) if rs.is_empty() => out.push_str(" mac:."),
        Some(rs) => {
            let items: Vec<String> = rs
                .iter()
                .map(|r| {
                    let strs = |s: &md::MINIDUMP_MAC_CRASH_INFO_RECORD_STRINGS_4| {
                        [&s.module_path, &s.message, &s.signature_string, &s.backtrace, &s.message2].iter().map(|x| show_name(x)).collect::<Vec<_>>().join("/")
                    };
                    match r {
                        RawMacCrashInfo::V1(f, _) => format!("v1/{}/-/-/-/", f.version),
                        RawMacCrashInfo::V4(f, s) => format!("v4/{}/{}/{}/-/{}", f.version, f.thread, f.dialog_mode, strs(s)),
                        RawMacCrashInfo::V5(f, s) => {
                            let s4 = md::MINIDUMP_MAC_CRASH_INFO_RECORD_STRINGS_4 {
                                module_path: s.module_path.clone(),
                                message: s.message.clone(),
                                signature_string: s.signature_string.clone(),
                                backtrace: s.backtrace.clone(),
                                message2: s.message2.clone(),
                            };
                            format!("v5/{}/{}/{}/{}/{}", f.version, f.thread, f.dialog_mode, f.abort_cause, strs(&s4))
                        }
                    }
                })
                .collect();
            let _ = write!(out, " mac:{}", items.join(","));
        }
    }
    match &state.mac_boot_args {
        None => out.push_str(" ba:-"),
        Some(b) => match &b.bootargs {
            None => out.push_str(" ba:!"),
            Some(s) => {
                let _ = write!(out, " ba:{}", show_name(s));
            }
        },
    }
    let _ = write!(
        out,
        " as:{} certs:{} hd:{}",
        show_opt_name(state.assertion.as_deref()),
        state.cert_info.len(),
        opt(state.handles.as_ref().map(|h| h.iter().count()))
    );
    Seen { out, state: Some(state) }
}

// ------------------------------------------------------------------------------------ oracle
// The property, re-stated independently of the Lean model, on the implementation's ProcessState.

fn arch_has_context(arch: u16) -> bool {
    context_bytes(arch, false, 0, 0, 0, &[], false).is_some()
}

/// name of the architecture for the `walk` engine's helpers; `None`: no unwinder for its contexts
fn walk_arch(cpu: u16) -> Option<&'static str> {
    match cpu {
        0 | 10 => Some("x86"),
        9 => Some("amd64"),
        5 => Some("arm"),
        12 => Some("arm64"),
        0x8003 => Some("arm64old"),
        1 => Some("mips32"),
        _ => None,
    }
}

/// the regions `get_memory()` serves, in stream order (documented rule: the memory-64 list when the
/// dump has a readable one, else the memory list; descriptors that cannot be read are skipped)
fn memory_list(c: &Case) -> Vec<(u64, Vec<u8>)> {
    if let Some(MlSection::Q(items)) = c.ml.iter().find(|m| matches!(m, MlSection::Q(_))) {
        return items.iter().map(|k| (c.rg[*k].base, c.rg[*k].bytes())).collect();
    }
    if let Some(MlSection::L(items)) = c.ml.iter().find(|m| matches!(m, MlSection::L(_))) {
        return items
            .iter()
            .filter_map(|i| match i {
                LItem::Pool(k) if c.rg[*k].size > 0 => Some((c.rg[*k].base, c.rg[*k].bytes())),
                _ => None,
            })
            .collect();
    }
    vec![]
}

fn covers(r: &(u64, Vec<u8>), a: u64) -> bool {
    let n = r.1.len() as u64;
    n > 0 && r.0.checked_add(n).is_some() && r.0 <= a && a - r.0 < n
}

fn valid_range(r: &(u64, Vec<u8>)) -> Option<(u64, u64)> {
    let n = r.1.len() as u64;
    if n == 0 {
        return None;
    }
    Some((r.0, r.0.checked_add(n)? - 1))
}

/// The memories the property allows `walk_stack` to be given for a thread whose walk starts with
/// stack pointer `sp` ("stack memory chosen to contain the context's stack pointer"): the thread's
/// own stack memory if it holds a word at `sp`; else a region of the memory list that contains
/// `sp`; else the thread's own. The thread's own memory is what its descriptor cites, or — when
/// that cannot be read — a region of the list containing the descriptor's start address.
/// A lookup in the memory list is C08's range table: a region that intersects no other region is
/// found for every address inside it; of regions that overlap the table keeps one (so a lookup may
/// return any region containing the address, or miss).
fn allowed_memories(c: &Case, t: &Thread, sp: Option<u64>) -> Vec<Option<(u64, Vec<u8>)>> {
    let list = memory_list(c);
    // (regions containing `a`, the lookup may miss)
    let lookup = |a: u64| -> (Vec<(u64, Vec<u8>)>, bool) {
        let idx: Vec<usize> = (0..list.len()).filter(|i| covers(&list[*i], a)).collect();
        let overlapped = idx.iter().any(|i| {
            let (lo, hi) = valid_range(&list[*i]).unwrap();
            (0..list.len()).any(|j| j != *i && valid_range(&list[j]).is_some_and(|(l2, h2)| lo <= h2 && l2 <= hi))
        });
        (idx.iter().map(|i| list[*i].clone()).collect(), idx.is_empty() || overlapped)
    };
    let by_addr = |a: u64| -> Vec<Option<(u64, Vec<u8>)>> {
        let (found, may_miss) = lookup(a);
        let mut v: Vec<Option<(u64, Vec<u8>)>> = found.into_iter().map(Some).collect();
        if may_miss {
            v.push(None);
        }
        v
    };
    let owns: Vec<Option<(u64, Vec<u8>)>> = match &t.stack {
        Some((start, Own::Pool(k))) if c.rg[*k].size > 0 => vec![Some((*start, c.rg[*k].bytes()))],
        Some((start, _)) => by_addr(*start),
        None => by_addr(0),
    };
    let Some(sp) = sp else { return owns };
    let mut out = vec![];
    for own in owns {
        let holds = own.as_ref().is_some_and(|(b, bytes)| sp >= *b && (sp - b).checked_add(8).is_some_and(|e| e <= bytes.len() as u64));
        if holds {
            out.push(own);
            continue;
        }
        let (found, may_miss) = lookup(sp);
        out.extend(found.into_iter().map(Some));
        // the stack pointer inside the thread's own memory, less than a 64-bit word before its end:
        // the property is satisfied by either choice
        if may_miss || own.as_ref().is_some_and(|o| covers(o, sp)) {
            out.push(own);
        }
    }
    out
}

/// the real `walk_stack` from the given context on the given memory (what the state's call stack
/// must be, for one of the allowed memories)
fn reference_walk(c: &Case, ctx: &MinidumpContext, mem: &Option<(u64, Vec<u8>)>, modules: &MinidumpModuleList, sysinfo: &minidump_unwind::SystemInfo, with_symbols: bool) -> Vec<String> {
    let mods: Vec<(u64, u64, String)> = modules.iter().map(|m| (m.base_address(), m.size(), m.name.clone())).collect();
    let symbolizer = minidump_unwind::Symbolizer::new(minidump_unwind::string_symbol_supplier(if with_symbols { symbol_map(c) } else { Default::default() }));
    let mut stack = minidump_unwind::CallStack::with_context(ctx.clone());
    let m = mem.as_ref().map(|(base, bytes)| MinidumpMemory {
        desc: Default::default(),
        base_address: *base,
        size: bytes.len() as u64,
        bytes,
        endian: if c.be { scroll::BE } else { scroll::LE },
    });
    RT.with(|rt| rt.block_on(minidump_unwind::walk_stack(0, (), &mut stack, m.as_ref().map(UnifiedMemory::Memory), modules, sysinfo, &symbolizer)));
    stack.frames.iter().map(|f| show_frame(f, &mods, false)).collect()
}

/// `Name` of a key/value text field of the documented LSB rule: last entry of the group
fn last_of<'a>(kv: &'a [(String, String)], keys: &[&str]) -> &'a str {
    kv.iter().rev().find(|(k, _)| keys.contains(&k.as_str())).map(|(_, v)| v.as_str()).unwrap_or("")
}

fn oracle(c: &Case, seen: &Seen) -> Vec<(String, String)> {
    let mut bad: Vec<(String, String)> = vec![];
    let mut fail = |class: &str, detail: String| bad.push((class.to_string(), detail));
    let Some(threads) = &c.th else {
        if seen.out != "err:MissingThreadList" {
            fail("no-thread-list-not-reported", seen.out.clone());
        }
        return bad;
    };
    let Some(st) = &seen.state else {
        fail("processable-dump-rejected", seen.out.clone());
        return bad;
    };
    // 1. exactly one call stack per thread-list entry, in order, same ids and names
    if st.threads.len() != threads.len() {
        fail("stack-count", format!("{} stacks for {} threads", st.threads.len(), threads.len()));
        return bad;
    }
    let dump_id = c.bp.and_then(|(v, d, _)| if v & 1 != 0 { Some(d) } else { None });
    let bp_req = c.bp.and_then(|(v, _, r)| if v & 2 != 0 { Some(r) } else { None });
    let exc = match &c.ex {
        ExcSpec::Some(e) => Some(e),
        _ => None,
    };
    let name_of = |id: u32| -> Option<String> {
        c.nm.as_ref()?.iter().rev().filter(|(i, _)| *i == id).find_map(|(_, n)| n.decoded())
    };
    for (i, (t, s)) in threads.iter().zip(st.threads.iter()).enumerate() {
        let id = t.id;
        if s.thread_id != id {
            fail("stack-order-or-id", format!("stack {i} has id {} but thread {i} has id {id}", s.thread_id));
        }
        if s.thread_name != name_of(id) {
            let class = if Some(id) == dump_id { "dump-thread-name-dropped" } else { "thread-name" };
            fail(class, format!("stack {i} (id {id}) is named {:?}, the names stream says {:?}", s.thread_name, name_of(id)));
        }
    }
    // 2. requesting thread: the non-dump-writer thread named by the exception record, else Breakpad's
    let rid = match exc {
        Some(e) => Some(e.tid),
        None => bp_req,
    };
    let expect_req = threads.iter().rposition(|t| Some(t.id) == rid && Some(t.id) != dump_id);
    if st.requesting_thread != expect_req {
        fail("requesting-thread", format!("requesting_thread = {:?}, expected {:?}", st.requesting_thread, expect_req));
    }
    if let Some(r) = st.requesting_thread {
        if r >= threads.len() || Some(threads[r].id) == dump_id {
            fail("requesting-thread-is-dump-thread", format!("requesting_thread = {r}"));
        }
    }
    // the module lists the streams describe (entries with an impossible size excepted; a name that
    // cannot be read makes the stream unreadable)
    let valid = |m: &Mod| m.size != 0 && (m.size as u64) <= u64::MAX - m.base;
    let kept: Vec<&Mod> = c.mo.iter().filter(|m| valid(m)).collect();
    let want_mods: Vec<(u64, u64, String)> = if kept.iter().all(|m| m.name.decoded().is_some()) {
        kept.iter().map(|m| (m.base, m.size as u64, m.name.decoded().unwrap())).collect()
    } else {
        vec![]
    };
    let want_um: Vec<(u64, u64, String)> = if c.um.iter().all(|m| valid(m) && m.name.decoded().is_some()) {
        c.um.iter().map(|m| (m.base, m.size as u64, m.name.decoded().unwrap())).collect()
    } else {
        vec![]
    };
    // 3. the walk starts from the exception's context when one can be read
    let readable = |x: &Ctx| match x {
        Ctx::R { ip, sp, fp, .. } if arch_has_context(c.cpu) => Some((*ip, *sp, *fp)),
        _ => None,
    };
    let sysinfo = minidump_unwind::SystemInfo {
        os: Os::from_platform_id(c.os),
        os_version: None,
        os_build: None,
        cpu: Cpu::from_processor_architecture(c.cpu),
        cpu_info: None,
        cpu_microcode_version: None,
        cpu_count: 1,
    };
    for (i, (t, s)) in threads.iter().zip(st.threads.iter()).enumerate() {
        let id = t.id;
        let skipped = Some(id) == dump_id;
        let is_req = !skipped && Some(id) == rid;
        let expect = if skipped {
            None
        } else if is_req {
            exc.and_then(|e| readable(&e.ctx)).or(readable(&t.ctx))
        } else {
            readable(&t.ctx)
        };
        let got = s.frames.first().map(|f| (f.instruction, f.context.get_stack_pointer()));
        if got != expect.map(|e| (e.0, e.1)) {
            let class = if is_req { "context-preference" } else { "thread-context" };
            fail(class, format!("stack {i}: first frame (instruction, sp) {got:?}, expected {:?}", expect.map(|e| (e.0, e.1))));
        }
        if let Some(f) = s.frames.first() {
            if f.trust != minidump_unwind::FrameTrust::Context {
                fail("context-frame-trust", format!("stack {i}: first frame has trust {}", f.trust.as_str()));
            }
        }
        let info_ok = match (&s.info, skipped, expect) {
            (minidump_unwind::CallStackInfo::DumpThreadSkipped, true, _) => true,
            (minidump_unwind::CallStackInfo::Ok, false, Some(_)) => true,
            (minidump_unwind::CallStackInfo::MissingContext, false, None) => true,
            _ => false,
        };
        if !info_ok {
            fail("stack-info", format!("stack {i}: info {:?}", s.info));
        }
        if expect.is_none() && !s.frames.is_empty() {
            fail("frames-without-context", format!("stack {i}: {} frames", s.frames.len()));
        }
        // 3b. the stack memory of the walk is the one that contains the start context's stack pointer:
        //     the call stack must be what the (real) walker yields from the start context on one of
        //     the memories the rule allows
        if let (Some((_, sp, _)), Some(f0)) = (expect, s.frames.first()) {
            let allowed = allowed_memories(c, t, Some(sp));
            let got: Vec<String> = s.frames.iter().map(|f| show_frame(f, &want_mods, false)).collect();
            let mut matched: Option<Option<(u64, Vec<u8>)>> = None;
            let mut refs = vec![];
            for m in &allowed {
                let r = reference_walk(c, &f0.context, m, &st.modules, &sysinfo, true);
                if r == got {
                    matched = Some(m.clone());
                    break;
                }
                refs.push(r.join("^"));
            }
            // the stack is the walk on an allowed memory as if the supplier had no symbol file at all
            let unsymbolized = matched.is_none()
                && !(c.sy.is_empty() && c.sw.is_empty())
                && allowed.iter().any(|m| reference_walk(c, &f0.context, m, &st.modules, &sysinfo, false) == got);
            match matched {
                None if unsymbolized => fail(
                    "symbols-not-consulted",
                    format!("stack {i}: frames {} are the walk WITHOUT the symbol files the supplier has (with them: {})", got.join("^"), refs.join(" || ")),
                ),
                None => fail(
                    "stack-memory-selection",
                    format!(
                        "stack {i} (sp {sp:#x}): frames {} are not the walk on the memory that contains the stack pointer ({} allowed: {})",
                        got.join("^"),
                        allowed.len(),
                        refs.join(" || ")
                    ),
                ),
                Some(m) => {
                    // C05's well-formedness and C03's bound hold for every stack of the process state
                    if let Some(arch) = walk_arch(c.cpu) {
                        let wc = walk::Case {
                            engine: "walk".into(),
                            arch: arch.into(),
                            os: "linux".into(),
                            regs: vec![(walk::ip_name(arch).to_string(), f0.context.get_instruction_pointer())],
                            valid: None,
                            stack: m.clone(),
                            mods: vec![],
                            syms: c.sy.clone(),
                            symraw: vec![],
                            extra: vec![],
                            be: c.be,
                        };
                        for (cl, d) in walk::wf_oracle(&wc, s) {
                            fail(&format!("stack-not-well-formed:{cl}"), format!("stack {i}: {d}"));
                        }
                    }
                    let bytes = m.as_ref().map(|x| x.1.len()).unwrap_or(0);
                    if s.frames.len() > bytes + 2 {
                        fail("too-many-frames", format!("stack {i}: {} frames for {} bytes of stack memory", s.frames.len(), bytes));
                    }
                }
            }
        }
        // 7. unloaded modules with per-frame offsets, for every frame
        for (j, f) in s.frames.iter().enumerate() {
            let a = f.instruction;
            let in_loaded = f.module.is_some();
            let mut want: BTreeMap<String, BTreeSet<u64>> = BTreeMap::new();
            if !in_loaded {
                for (b, z, n) in &want_um {
                    if *b <= a && a - b < *z {
                        want.entry(n.clone()).or_default().insert(a - b);
                    }
                }
            }
            if f.unloaded_modules != want {
                fail("unloaded-offsets", format!("stack {i} frame {j} at {a}: {:?}, expected {:?}", f.unloaded_modules, want));
            }
            // a frame attributed to a loaded module must be covered by one
            let covered = want_mods.iter().any(|(b, z, _)| *b <= a && a - b < *z);
            if !covered && in_loaded {
                fail("frame-module", format!("stack {i} frame {j} at {a}: attributed to a module that does not cover it"));
            }
        }
    }
    // 4. crash address: documented function of the record, OS and CPU; zero-extended on 32-bit CPUs
    let os = Os::from_platform_id(c.os);
    let cpu = Cpu::from_processor_architecture(c.cpu);
    match (exc, &st.exception_info) {
        (None, None) => {}
        (Some(e), Some(info)) => {
            // 0xc0000005 / 0xc0000006 are EXCEPTION_ACCESS_VIOLATION / EXCEPTION_IN_PAGE_ERROR (ntstatus.h)
            let raw = if os == Os::Windows && (e.code == 0xc000_0005 || e.code == 0xc000_0006) && e.np >= 2 {
                e.p1
            } else {
                e.addr
            };
            let want = if cpu.pointer_width() == PointerWidth::Bits32 { raw & 0xffff_ffff } else { raw };
            if info.address.0 != want {
                let class = if cpu.pointer_width() == PointerWidth::Bits32 && info.address.0 > 0xffff_ffff {
                    "crash-address-not-zero-extended"
                } else {
                    "crash-address"
                };
                fail(class, format!("crash address {:#x}, expected {:#x}", info.address.0, want));
            }
            // 5. the reason's family belongs to the operating system
            let tag = reason_tag(&info.reason);
            let fam_ok = match os {
                Os::Windows => tag.starts_with("Windows"),
                Os::MacOs | Os::Ios => tag.starts_with("Mac") || tag.starts_with("Unknown("),
                Os::Linux | Os::Android => tag.starts_with("Linux") || tag.starts_with("Unknown("),
                _ => tag.starts_with("Unknown("),
            };
            if !fam_ok {
                fail("reason-family", format!("{tag} on {os:?}"));
            }
            if tag.starts_with("Unknown(") && tag != format!("Unknown({},{})", e.code, e.flags) {
                fail("reason-unknown-fields", tag.clone());
            }
            // the reason is the documented function of record, OS and CPU
            if let Some(want) = expected_reason(e, os, cpu) {
                if tag != want {
                    fail("reason", format!("reason {tag}, documented {want} (os {os:?}, cpu {cpu:?})"));
                }
            }
            let cls = match os {
                Os::Windows => 'W',
                Os::Linux | Os::Android => 'L',
                Os::MacOs | Os::Ios => 'M',
                _ => '-',
            };
            for (c, code, flags, want) in DOCUMENTED {
                if *c == cls && *code == e.code && (*flags == e.flags || cls == 'W') && tag != *want {
                    fail("reason-documented-constant", format!("reason {tag} for code {code:#x} flags {flags:#x}, the platform ABI says {want}"));
                }
            }
            if cls == 'W' && e.code == 0xc000_0005 && e.np >= 1 {
                let want = match e.p0 {
                    0 => Some("WindowsAccessViolation(READ)"),
                    1 => Some("WindowsAccessViolation(WRITE)"),
                    8 => Some("WindowsAccessViolation(EXEC)"),
                    _ => None,
                };
                if let Some(w) = want {
                    if tag != w {
                        fail("reason-documented-constant", format!("reason {tag}, the platform ABI says {w}"));
                    }
                }
            }
            if cls == 'W' && e.code == 0xc000_0409 && e.np >= 1 && tag != format!("WindowsStackBufferOverrun({})", e.p0 & 0xffff_ffff) {
                fail("reason-documented-constant", format!("reason {tag} for STATUS_STACK_BUFFER_OVERRUN"));
            }
        }
        (a, b) => fail("exception-info-presence", format!("exception stream {:?}, exception_info {:?}", a.is_some(), b.is_some())),
    }
    // 6. process id and times are those of the streams
    let want_pid = match &c.mi {
        MiscSpec::Some { flags, pid, .. } => {
            if flags & 1 != 0 {
                Some(*pid)
            } else {
                None
            }
        }
        _ => c.st.as_ref().map(|kv| {
            kv.iter().find(|(k, _)| k == "Pid").and_then(|(_, v)| v.parse::<u32>().ok()).unwrap_or(0)
        }),
    };
    if st.process_id != want_pid {
        fail("process-id", format!("{:?}, expected {:?}", st.process_id, want_pid));
    }
    let want_ct = match &c.mi {
        MiscSpec::Some { flags, ctime, .. } if flags & 2 != 0 => Some(*ctime as u64),
        _ => None,
    };
    if st.process_create_time.and_then(secs) != want_ct {
        fail("create-time", format!("{:?}, expected {:?}", st.process_create_time, want_ct));
    }
    if secs(st.time) != Some(c.ts as u64) {
        fail("dump-time", format!("{:?}, expected {}", st.time, c.ts));
    }
    // modules / unloaded modules mirror the streams
    let got_mods: Vec<(u64, u64, String)> =
        st.modules.iter().map(|m| (m.base_address(), m.size(), m.code_file().to_string())).collect();
    if got_mods != want_mods {
        fail("modules-mirror", format!("{got_mods:?}, expected {want_mods:?}"));
    }
    let got_um: Vec<(u64, u64, String)> =
        st.unloaded_modules.iter().map(|m| (m.base_address(), m.size(), m.code_file().to_string())).collect();
    if got_um != want_um {
        fail("unloaded-modules-mirror", format!("{got_um:?}, expected {want_um:?}"));
    }
    // 8. the fields copied from one stream (documentation of ProcessState / SystemInfo)
    let dflt = Sys { level: 6, revision: 0, ncpu: 1, major: 0, minor: 0, build: 0, csd: None, d: [0; 3] };
    let si = c.si.as_ref().unwrap_or(&dflt);
    if st.system_info.cpu_count != si.ncpu as usize {
        fail("cpu-count", format!("{} for number_of_processors {}", st.system_info.cpu_count, si.ncpu));
    }
    if st.system_info.os != os || st.system_info.cpu != cpu {
        fail("system-info-os-cpu", format!("{:?}/{:?}", st.system_info.os, st.system_info.cpu));
    }
    let plain = format!("{}.{}.{}", si.major, si.minor, si.build);
    let linux_uname = c.os == LINUX && plain == "0.0.0";
    if !linux_uname {
        let csd = si.csd.as_ref().and_then(|n| n.decoded()).map(|s| s.trim().to_string()).filter(|s| !s.is_empty());
        if st.system_info.os_version.as_deref() != Some(plain.as_str()) {
            fail("os-version", format!("{:?}, expected {plain}", st.system_info.os_version));
        }
        if st.system_info.os_build != csd {
            fail("os-build", format!("{:?}, expected {:?}", st.system_info.os_build, csd));
        }
    } else if st.system_info.os_version.is_none() {
        fail("os-version", "os_version is None".into());
    }
    match cpu {
        Cpu::X86_64 => {
            let want = format!("family {} model {} stepping {}", si.level, (si.revision >> 8) & 0xff, si.revision & 0xff);
            if st.system_info.cpu_info.as_deref() != Some(want.as_str()) {
                fail("cpu-info", format!("{:?}, expected {want}", st.system_info.cpu_info));
            }
        }
        Cpu::X86 | Cpu::Arm => {
            if st.system_info.cpu_info.is_none() {
                fail("cpu-info", "missing".into());
            }
        }
        _ => {
            if st.system_info.cpu_info.is_some() {
                fail("cpu-info", format!("{:?} on {cpu:?}", st.system_info.cpu_info));
            }
        }
    }
    match (&c.lsb, &st.linux_standard_base) {
        (None, None) => {}
        (Some(kv), Some(l)) => {
            let want = (
                last_of(kv, &["DISTRIB_ID", "ID"]),
                last_of(kv, &["DISTRIB_RELEASE", "VERSION_ID"]),
                last_of(kv, &["DISTRIB_CODENAME", "VERSION_CODENAME"]),
                last_of(kv, &["DISTRIB_DESCRIPTION", "PRETTY_NAME"]),
            );
            if (l.id.as_str(), l.release.as_str(), l.codename.as_str(), l.description.as_str()) != want {
                fail("lsb", format!("{l:?}, expected {want:?}"));
            }
        }
        (a, b) => fail("lsb-presence", format!("stream {:?}, state {:?}", a.is_some(), b.is_some())),
    }
    match (&c.mac, &st.mac_crash_info) {
        (None, None) => {}
        (Some(rs), got) => {
            let agree = rs.iter().all(|r| r.version == rs[0].version);
            let want_n = if agree { Some(rs.iter().filter(|r| r.version >= 1).count()) } else { None };
            if got.as_ref().map(|g| g.len()) != want_n {
                fail("mac-crash-info", format!("{:?} records, expected {want_n:?}", got.as_ref().map(|g| g.len())));
            }
        }
        (None, Some(_)) => fail("mac-crash-info", "records without a stream".into()),
    }
    match (&c.ba, &st.mac_boot_args) {
        (None, None) => {}
        (Some(n), Some(b)) => {
            if b.bootargs != n.decoded() {
                fail("mac-boot-args", format!("{:?}, expected {:?}", b.bootargs, n.decoded()));
            }
        }
        (a, b) => fail("mac-boot-args", format!("stream {:?}, state {:?}", a.is_some(), b.is_some())),
    }
    if st.handles.as_ref().map(|h| h.iter().count()) != c.hd.map(|n| n as usize) {
        fail("handles", format!("{:?} handles, expected {:?}", st.handles.as_ref().map(|h| h.iter().count()), c.hd));
    }
    if !st.cert_info.is_empty() {
        fail("cert-info", format!("{:?} without an evil json file", st.cert_info));
    }
    // 9. the byte order of the dump is a matter of encoding: the same dump written little-endian is
    //    indexed to the same state. Stated only where it is certain that the two walks read the same
    //    words: no symbol records (their rules may address memory anywhere), every region based on a
    //    pointer-size boundary, and every stack / frame pointer that any frame of either state holds
    //    valid is a multiple of the pointer size — the frame-pointer and scan unwinders read at
    //    those registers plus multiples of the pointer size only.
    if let Some(arch) = walk_arch(c.cpu) {
        let w = walk::ptr_of(arch);
        if c.be && c.sy.is_empty() && c.sw.is_empty() && c.rg.iter().all(|r| r.base % w == 0) {
            let mut twin = c.clone();
            twin.be = false;
            for r in twin.rg.iter_mut() {
                let mut b = r.bytes();
                for ch in b.chunks_mut(w as usize) {
                    ch.reverse();
                }
                r.patches = vec![(0, b)];
            }
            let seen2 = run_impl(&twin);
            if seen2.out != seen.out {
                let aligned = |s: &minidump_processor::ProcessState| {
                    s.threads.iter().all(|t| {
                        t.frames.iter().all(|f| {
                            ["esp", "ebp", "rsp", "rbp", "sp", "fp", "r11", "r13", "x29"].iter().all(|n| {
                                let known = walk::registers(arch).contains(n) || walk::alias_names(arch).contains(n);
                                let valid = match &f.context.valid {
                                    MinidumpContextValidity::All => true,
                                    MinidumpContextValidity::Some(set) => set.contains(n),
                                };
                                !known || !valid || f.context.get_register_always(n) % w == 0
                            })
                        })
                    })
                };
                if seen2.state.as_ref().is_some_and(|s2| aligned(s2)) && aligned(st) {
                    fail(
                        "byte-order-dependent",
                        format!("the big-endian dump is indexed to {} but the same dump written little-endian to {}", seen.out, seen2.out),
                    );
                }
            }
        }
    }
    bad
}
// --------------------------------------------------------------------------------- generator

/// (value, variant name) literals of the enums in the repository's error tables, read loosely at
/// run time (a second, independent reading of the same files the Lean translator reads strictly).
/// Used to aim the generator at interesting codes and by the oracle's statement of the documented
/// reason function.
type Tables = BTreeMap<String, Vec<(u64, String)>>;

fn source_tables() -> &'static Tables {
    static T: std::sync::OnceLock<Tables> = std::sync::OnceLock::new();
    T.get_or_init(|| {
        let repo = std::env::var("VERIF_REPO").unwrap_or_else(|_| "/repo".to_string());
        let mut out: Tables = BTreeMap::new();
        for f in ["windows.rs", "linux.rs", "macos.rs"] {
            let Ok(text) = std::fs::read_to_string(format!("{repo}/minidump-common/src/errors/{f}")) else {
                continue;
            };
            let mut cur: Option<String> = None;
            for l in text.lines() {
                let t = l.trim();
                if t.starts_with("//") {
                    continue;
                }
                if let Some(rest) = t.strip_prefix("pub enum ") {
                    cur = Some(rest.trim_end_matches('{').trim().to_string());
                } else if t == "}" {
                    cur = None;
                } else if let (Some(e), Some((name, v))) = (&cur, t.split_once(" = ")) {
                    let v = v.trim_end_matches(',').trim_end_matches("u32").trim_end_matches("u64").trim_end_matches("i32");
                    let n = if let Some(h) = v.strip_prefix("0x") { u64::from_str_radix(h, 16).ok() } else { v.parse().ok() };
                    if let Some(n) = n {
                        out.entry(e.clone()).or_default().push((n, name.trim().to_string()));
                    }
                }
            }
        }
        out
    })
}

fn source_codes() -> BTreeMap<String, Vec<u64>> {
    source_tables().iter().map(|(k, v)| (k.clone(), v.iter().map(|e| e.0).collect())).collect()
}

fn look<'a>(en: &str, v: u64) -> Option<&'a str> {
    source_tables().get(en)?.iter().find(|e| e.0 == v).map(|e| e.1.as_str())
}

/// The documented reason function (doc comments of `CrashReason::from_*_exception` and the enum
/// tables), stated independently of the implementation's control flow: returns the expected `{:?}`
/// tag without blanks. `None` when the tables could not be read.
fn expected_reason(e: &Exc, os: Os, cpu: Cpu) -> Option<String> {
    if source_tables().is_empty() {
        return None;
    }
    let code = e.code as u64;
    let flags = e.flags as u64;
    let unknown = format!("Unknown({},{})", e.code, e.flags);
    Some(match os {
        Os::Windows => {
            if let Some(n) = look("ExceptionCodeWindows", code) {
                if n == "EXCEPTION_ACCESS_VIOLATION" && e.np >= 1 {
                    if let Some(ty) = look("ExceptionCodeWindowsAccessType", e.p0) {
                        return Some(format!("WindowsAccessViolation({ty})"));
                    }
                }
                if n == "EXCEPTION_IN_PAGE_ERROR" && e.np >= 3 {
                    if let Some(ty) = look("ExceptionCodeWindowsInPageErrorType", e.p0) {
                        return Some(format!("WindowsInPageError({ty},{})", e.p2 & 0xffff_ffff));
                    }
                }
                format!("WindowsGeneral({n})")
            } else if let Some(n) = look("WinErrorWindows", code) {
                format!("WindowsWinError({n})")
            } else if let Some(n) = look("NtStatusWindows", code) {
                if n == "STATUS_STACK_BUFFER_OVERRUN" && e.np >= 1 {
                    format!("WindowsStackBufferOverrun({})", e.p0 & 0xffff_ffff)
                } else {
                    format!("WindowsNtStatus({n})")
                }
            } else {
                let fac = look("WinErrorFacilityWindows", (code >> 16) & 0xfff);
                let err = look("WinErrorWindows", code & 0xffff);
                match (code & 0xf000_0000 != 0, fac, err) {
                    (true, Some(f), Some(er)) => format!("WindowsWinErrorWithFacility({f},{er})"),
                    _ => format!("WindowsUnknown({})", e.code),
                }
            }
        }
        Os::Linux | Os::Android => match look("ExceptionCodeLinux", code) {
            None => unknown,
            Some(sig) => {
                let refined = ["SIGILL", "SIGTRAP", "SIGFPE", "SIGSEGV", "SIGBUS", "SIGSYS"].contains(&sig);
                // SIGSEGV -> family LinuxSigsegv, table ExceptionCodeLinuxSigsegvKind
                let stem = format!("Sig{}", sig[3..].to_ascii_lowercase());
                match look(&format!("ExceptionCodeLinux{stem}Kind"), flags) {
                    Some(kind) if refined => format!("Linux{stem}({kind})"),
                    _ => format!("LinuxGeneral({sig},{})", e.flags),
                }
            }
        },
        Os::MacOs | Os::Ios => match look("ExceptionCodeMac", code) {
            None => unknown,
            Some(exc) => {
                let cls = match cpu {
                    Cpu::Arm64 => "Arm",
                    Cpu::Ppc => "Ppc",
                    Cpu::X86 | Cpu::X86_64 => "X86",
                    _ => "",
                };
                let general = format!("MacGeneral({exc},{})", e.flags);
                let per_cpu = |stem: &str| -> String {
                    if cls.is_empty() {
                        return general.clone();
                    }
                    match look(&format!("ExceptionCodeMac{stem}{cls}Type"), flags) {
                        Some(ty) => format!("Mac{stem}{cls}({ty})"),
                        None => general.clone(),
                    }
                };
                let top3 = (flags >> 29) & 7;
                match exc {
                    "EXC_BAD_ACCESS" => match look("ExceptionCodeMacBadAccessKernType", flags) {
                        Some(k) => format!("MacBadAccessKern({k})"),
                        None => per_cpu("BadAccess"),
                    },
                    "EXC_BAD_INSTRUCTION" => per_cpu("BadInstruction"),
                    "EXC_ARITHMETIC" => per_cpu("Arithmetic"),
                    "EXC_BREAKPOINT" => per_cpu("Breakpoint"),
                    "EXC_SOFTWARE" => match look("ExceptionCodeMacSoftwareType", flags) {
                        Some(t) => format!("MacSoftware({t})"),
                        None => general,
                    },
                    "EXC_RESOURCE" => match look("ExceptionCodeMacResourceType", top3) {
                        Some(t) => format!("MacResource({t},{},{})", e.p1, e.p2),
                        None => general,
                    },
                    "EXC_GUARD" => match look("ExceptionCodeMacGuardType", top3) {
                        Some(t) => format!("MacGuard({t},{},{})", e.p1, e.p2),
                        None => general,
                    },
                    _ => general,
                }
            }
        },
        _ => unknown,
    })
}

/// Platform-ABI constants that the enum tables document (ntstatus.h, asm-generic/siginfo.h,
/// mach/exception_types.h, kern_return.h): (os class, code, flags, expected tag). Checked by the
/// oracle so that a silently changed table value yields a failing input.
/// os class: 'W' Windows, 'L' Linux/Android, 'M' macOS/iOS (any CPU unless the tag is CPU specific).
const DOCUMENTED: &[(char, u32, u32, &str)] = &[
    ('L', 11, 1, "LinuxSigsegv(SEGV_MAPERR)"),
    ('L', 11, 2, "LinuxSigsegv(SEGV_ACCERR)"),
    ('L', 7, 1, "LinuxSigbus(BUS_ADRALN)"),
    ('L', 7, 2, "LinuxSigbus(BUS_ADRERR)"),
    ('L', 4, 1, "LinuxSigill(ILL_ILLOPC)"),
    ('L', 4, 2, "LinuxSigill(ILL_ILLOPN)"),
    ('L', 8, 1, "LinuxSigfpe(FPE_INTDIV)"),
    ('L', 8, 3, "LinuxSigfpe(FPE_FLTDIV)"),
    ('L', 5, 1, "LinuxSigtrap(TRAP_BRKPT)"),
    ('L', 31, 1, "LinuxSigsys(SYS_SECCOMP)"),
    ('L', 6, 0, "LinuxGeneral(SIGABRT,0)"),
    ('L', 9, 0, "LinuxGeneral(SIGKILL,0)"),
    ('L', 13, 0, "LinuxGeneral(SIGPIPE,0)"),
    ('M', 1, 1, "MacBadAccessKern(KERN_INVALID_ADDRESS)"),
    ('M', 1, 2, "MacBadAccessKern(KERN_PROTECTION_FAILURE)"),
    ('M', 10, 0, "Unknown(10,0)"),
    ('M', 5, 0x10002, "MacSoftware(SIGABRT)"),
    ('W', 0x8000_0003, 0, "WindowsGeneral(EXCEPTION_BREAKPOINT)"),
    ('W', 0xc000_001d, 0, "WindowsGeneral(EXCEPTION_ILLEGAL_INSTRUCTION)"),
    ('W', 0xc000_0094, 0, "WindowsGeneral(EXCEPTION_INT_DIVIDE_BY_ZERO)"),
    ('W', 0xc000_00fd, 0, "WindowsGeneral(EXCEPTION_STACK_OVERFLOW)"),
    ('W', 0xc000_0017, 0, "WindowsNtStatus(STATUS_NO_MEMORY)"),
    ('W', 5, 0, "WindowsWinError(ERROR_ACCESS_DENIED)"),
    ('W', 0xe06d_7363, 0, "WindowsGeneral(UNHANDLED_CPP_EXCEPTION)"),
];

const PLATFORMS: &[u32] = &[0, 1, 2, 3, 4, 0x8000, 0x8101, 0x8102, 0x8201, 0x8202, 0x8203, 0x8204, 0x8205, 0x8206, 77, 0xffff_ffff];
const ARCHS: &[u16] = &[0, 1, 2, 3, 4, 5, 6, 7, 8, 9, 10, 11, 12, 0x8001, 0x8002, 0x8003, 0x8004, 0x8005, 0xffff];
const WIN: u32 = 3;
const MAC: u32 = 0x8101;
const LINUX: u32 = 0x8201;

fn pick_u64(rng: &mut Rng) -> u64 {
    match rng.below(8) {
        0 => 0,
        1 => rng.below(0x1_0000),
        2 => 0xffff_ffff_0000_0000 | rng.below(0x1_0000_0000), // sign-extended 32-bit value
        3 => rng.below(0x1_0000_0000),
        4 => u64::MAX - rng.below(4),
        5 => 0xffff_ffff + rng.below(3),
        _ => rng.next(),
    }
}

fn gen_code_flags(rng: &mut Rng, os: u32, codes: &BTreeMap<String, Vec<u64>>) -> (u32, u32) {
    let from = |rng: &mut Rng, names: &[&str]| -> u64 {
        let n = *rng.pick(names);
        match codes.get(n) {
            Some(v) if !v.is_empty() => *rng.pick(v),
            _ => rng.below(64),
        }
    };
    let near = |rng: &mut Rng, v: u64| -> u32 {
        match rng.below(10) {
            0 => v.wrapping_add(1) as u32,
            1 => v.wrapping_sub(1) as u32,
            _ => v as u32,
        }
    };
    let r = rng.below(10);
    if r == 0 {
        return (rng.next() as u32, rng.next() as u32);
    }
    match os {
        1 | 2 | 3 => {
            let code = match rng.below(8) {
                0 | 1 => *rng.pick(&[0xc000_0005u64, 0xc000_0006, 0xc000_0409]),
                2 => from(rng, &["ExceptionCodeWindows"]),
                3 => from(rng, &["WinErrorWindows"]),
                4 => from(rng, &["NtStatusWindows"]),
                5 => (*rng.pick(&[0x8000_0000u64, 0xc000_0000, 0x1000_0000, 0])) | (*rng.pick(&[109u64, 108, 110, 0]) << 16) | from(rng, &["WinErrorWindows"]) & 0xffff,
                _ => from(rng, &["ExceptionCodeWindows", "WinErrorWindows", "NtStatusWindows"]),
            };
            (near(rng, code), rng.below(3) as u32)
        }
        MAC | 0x8102 => {
            let code = from(rng, &["ExceptionCodeMac"]);
            let flags = match rng.below(6) {
                0 => rng.below(16),
                1 => (rng.below(8) << 29) | rng.below(0x100),
                _ => from(
                    rng,
                    &[
                        "ExceptionCodeMacBadAccessKernType",
                        "ExceptionCodeMacBadAccessArmType",
                        "ExceptionCodeMacBadAccessPpcType",
                        "ExceptionCodeMacBadAccessX86Type",
                        "ExceptionCodeMacBadInstructionArmType",
                        "ExceptionCodeMacBadInstructionPpcType",
                        "ExceptionCodeMacBadInstructionX86Type",
                        "ExceptionCodeMacArithmeticArmType",
                        "ExceptionCodeMacArithmeticPpcType",
                        "ExceptionCodeMacArithmeticX86Type",
                        "ExceptionCodeMacSoftwareType",
                        "ExceptionCodeMacBreakpointArmType",
                        "ExceptionCodeMacBreakpointPpcType",
                        "ExceptionCodeMacBreakpointX86Type",
                    ],
                ),
            };
            (near(rng, code), near(rng, flags))
        }
        _ => {
            let code = from(rng, &["ExceptionCodeLinux"]);
            let flags = match rng.below(4) {
                0 => from(rng, &["ExceptionCodeLinuxSicode"]),
                _ => rng.below(11),
            };
            (near(rng, code), near(rng, flags))
        }
    }
}

fn exc0(code: u32, flags: u32) -> Exc {
    Exc { tid: 1, code, flags, addr: 0x1234, np: 3, p0: 1, p1: 0xffff_ffff_8000_0010, p2: 0x1_c000_000e, ctx: Ctx::U(0) }
}


fn empty_case(os: u32, cpu: u16) -> Case {
    Case {
        ts: 1,
        os,
        cpu,
        th: Some(vec![]),
        nm: None,
        bp: None,
        ex: ExcSpec::None,
        mi: MiscSpec::None,
        st: None,
        mo: vec![],
        um: vec![],
        rg: vec![],
        be: false,
        ml: vec![],
        si: None,
        lsb: None,
        mac: None,
        ba: None,
        hd: None,
        ps: 0,
        sy: vec![],
        sw: vec![],
    }
}

fn thread(id: u32, ctx: Ctx) -> Thread {
    Thread { id, ctx, stack: None }
}

fn minimal(os: u32, cpu: u16, e: Exc) -> Case {
    let mut c = empty_case(os, cpu);
    c.th = Some(vec![thread(e.tid, rctx(4096))]);
    c.ex = ExcSpec::Some(e);
    c
}

/// names outside the ASCII-token alphabet: Latin-1, CJK, a surrogate pair, unpaired surrogates
/// (not well-formed UTF-16: unreadable), separators of the case/answer syntax, the empty string
fn odd_name(rng: &mut Rng) -> Name {
    let picks: &[&[u16]] = &[
        &[0x00e9, 0x0074, 0x00e9],
        &[0x65e5, 0x672c, 0x8a9e],
        &[0x0041, 0xd83d, 0xde00, 0x0042],
        &[0xd83d],
        &[0xde00, 0xd83d],
        &[0x0041, 0xdc00],
        &[0xd800, 0x0041],
        &[0x002f, 0x003b, 0x0020, 0x005e, 0x007c, 0x003d, 0x0026, 0x002b],
        &[],
        &[0x0078, 0x0031],
        &[0x0021],
        &[0x002d],
        &[0xfeff, 0x0061],
        &[0x0000, 0x0061],
        &[0xffff],
        &[0x0061, 0x000a, 0x0062],
    ];
    if rng.chance(1, 12) {
        Name::Bad
    } else {
        Name::Units(rng.pick(picks).to_vec())
    }
}

fn gen_sys(rng: &mut Rng, os: u32) -> Sys {
    let uname: &[&str] = &[
        "Linux 5.4.0-42-generic #46-Ubuntu SMP Fri Jul 10 00:24:02 UTC 2020 x86_64 Linux/GNU",
        "Linux 4.9.1 #1 SMP armv7l",
        "Linux 0.0.0 #1 x86_64",
        "Linux",
        "Linux 6.1.0",
        "Linux 6.1.0 x86_64",
        "Linux 6.1.0 Linux/GNU",
        "Linux  5.0  a  Linux/GNU",
        "",
        " Service Pack 1 ",
        "\u{3000}19H1234\u{a0}",
        "   ",
    ];
    let zero_ver = os == LINUX && rng.chance(2, 3);
    let csd = match rng.below(6) {
        0 => None,
        1 => Some(odd_name(rng)),
        _ => Some(Name::Units(rng.pick(uname).encode_utf16().collect())),
    };
    Sys {
        level: *rng.pick(&[6u16, 0, 15, 7, 8, 0xffff]),
        revision: if rng.chance(1, 2) { rng.next() as u16 } else { *rng.pick(&[0u16, 0x0a03, 0xff00, 0x00ff]) },
        ncpu: *rng.pick(&[1u8, 0, 2, 8, 64, 255]),
        major: if zero_ver { 0 } else { *rng.pick(&[0u32, 10, 6, 0xffff_ffff]) },
        minor: if zero_ver { 0 } else { rng.below(4) as u32 },
        build: if zero_ver { 0 } else { *rng.pick(&[0u32, 19041, 7601, 0xffff_ffff]) },
        csd,
        d: match rng.below(4) {
            0 => [0x756e_6547, 0x4965_6e69, 0x6c65_746e], // GenuineIntel
            1 => [*rng.pick(&[0x410f_c090u32, 0x510f_06f0, 0x4100_c050, 0x6900_0000, 0x12ab_c0de, 0]), rng.next() as u32 & *rng.pick(&[0x7_ffffu32, 0xffff_ffff, 0x38_0000, 0]), 0],
            2 => [rng.next() as u32, rng.next() as u32, rng.next() as u32],
            _ => [0, 0, 0],
        },
    }
}

fn gen_text(rng: &mut Rng) -> String {
    let picks = ["Ubuntu", "20.04", "focal", "Ubuntu 20.04.1 LTS", "d\u{e9}j\u{e0} vu", "a=b", "x", "\u{1f600}", "it's", "a\"b", "1.0 (beta)"];
    rng.pick(&picks).to_string()
}

fn gen_lsb(rng: &mut Rng) -> Vec<(String, String)> {
    let keys = ["DISTRIB_ID", "ID", "DISTRIB_RELEASE", "VERSION_ID", "DISTRIB_CODENAME", "VERSION_CODENAME", "DISTRIB_DESCRIPTION", "PRETTY_NAME", "NAME", "id", "HOME_URL"];
    let n = rng.below(7);
    (0..n).map(|_| (rng.pick(&keys).to_string(), gen_text(rng))).collect()
}

fn gen_mac(rng: &mut Rng) -> Vec<MacRec> {
    let n = rng.below(4);
    let v0 = *rng.pick(&[5u64, 4, 1, 5, 4, 0, 2, 3, 6, 255]);
    (0..n)
        .map(|_| MacRec {
            version: if rng.chance(1, 8) { *rng.pick(&[5u64, 4, 1, 0]) } else { v0 },
            thread: pick_u64(rng),
            dialog: rng.below(3),
            abort: pick_u64(rng),
            strs: [gen_text(rng), gen_text(rng), String::new(), gen_text(rng), gen_text(rng)],
        })
        .collect()
}

/// decorate a case with the streams whose contents are copied into the state
fn add_extras(rng: &mut Rng, c: &mut Case) {
    if rng.chance(1, 2) {
        c.si = Some(gen_sys(rng, c.os));
    }
    if rng.chance(1, 4) {
        c.lsb = Some(gen_lsb(rng));
    }
    if rng.chance(1, 5) {
        c.mac = Some(gen_mac(rng));
    }
    if rng.chance(1, 6) {
        c.ba = Some(if rng.chance(1, 3) { odd_name(rng) } else { Name::ascii("debug.1") });
    }
    if rng.chance(1, 6) {
        c.hd = Some(rng.range(1, 4) as u32);
    }
    if rng.chance(1, 4) {
        c.ps = rng.below(16) as u32;
    }
}

fn gen_random(rng: &mut Rng, codes: &BTreeMap<String, Vec<u64>>, big: bool) -> Case {
    let os = if rng.chance(3, 4) { *rng.pick(&[1, 2, 3, MAC, 0x8102, LINUX, 0x8203]) } else { *rng.pick(PLATFORMS) };
    let cpu = if rng.chance(3, 4) { *rng.pick(&[0, 9, 5, 12, 3, 1, 0x8001, 0x8002, 0x8003, 10]) } else { *rng.pick(ARCHS) };
    let is32ctx = ctx32(cpu);
    let n = if big {
        rng.range(7, 32)
    } else {
        *rng.pick(&[0, 1, 1, 2, 2, 3, 3, 4, 5, 6])
    } as usize;
    let pool: Vec<u32> = match rng.below(4) {
        0 => vec![1, 2, 3],
        1 => vec![0, 1, 2, 3, 4, 5, 6, 7],
        2 => vec![7, 0xffff_ffff, 0x8000_0000, 100],
        _ => (1..=(n as u32 + 2)).collect(),
    };
    let odd = rng.chance(1, 6);
    let gen_ctx = |rng: &mut Rng, salt: u64| -> Ctx {
        if rng.chance(1, 4) {
            Ctx::U(rng.below(5) as u8)
        } else {
            let ip = 0x1000 * (1 + salt) + rng.below(0x40) * 0x10;
            let ip = if is32ctx { ip & 0xffff_ffff } else if rng.chance(1, 8) { ip | 0x7fff_0000_0000 } else { ip };
            if rng.chance(1, 5) {
                // registers without any memory to look at
                let m = if is32ctx { 0xffff_ffffu64 } else { u64::MAX };
                rctx3(ip, pick_u64(rng) & m, pick_u64(rng) & m)
            } else {
                rctx(ip)
            }
        }
    };
    let mut th: Vec<Thread> = vec![];
    for i in 0..n {
        let id = if rng.chance(1, 12) { rng.next() as u32 } else { *rng.pick(&pool) };
        th.push(thread(id, gen_ctx(rng, i as u64)));
    }
    let th = if rng.chance(1, 40) { None } else { Some(th) };
    let ids: Vec<u32> = th.iter().flatten().map(|t| t.id).collect();
    let some_id = |rng: &mut Rng| -> u32 {
        if !ids.is_empty() && rng.chance(4, 5) {
            *rng.pick(&ids)
        } else {
            *rng.pick(&pool) ^ (rng.below(2) as u32 * 0x40)
        }
    };
    let nm = match rng.below(4) {
        0 => None,
        _ => {
            let k = rng.below(n as u64 + 3) as usize;
            let mut v = vec![];
            for j in 0..k {
                let id = some_id(rng);
                let name = if rng.chance(1, 5) {
                    Name::Bad
                } else if odd && rng.chance(1, 2) {
                    odd_name(rng)
                } else {
                    Name::ascii(&format!("t{}_{}", id % 1000, j))
                };
                v.push((id, name));
            }
            Some(v)
        }
    };
    let bp = if rng.chance(2, 5) {
        None
    } else {
        let v = *rng.pick(&[0u32, 1, 2, 3, 3, 3, 7, 0xffff_fffd, 0xffff_fffe, 4]);
        Some((v, some_id(rng), some_id(rng)))
    };
    let dump_id = bp.map(|b| b.1);
    let ex = match rng.below(20) {
        0..=4 => ExcSpec::None,
        5 => ExcSpec::Short,
        _ => {
            let tid = match rng.below(6) {
                0 => dump_id.unwrap_or(99),
                1 => 0xdead_beef,
                _ => some_id(rng),
            };
            let (code, flags) = gen_code_flags(rng, os, codes);
            let np = *rng.pick(&[0u32, 1, 2, 2, 3, 3, 4, 15, 16, 0xffff_ffff]);
            let p0 = *rng.pick(&[0u64, 1, 8, 2, 0x1_0000_0000, 0x1_0000_0001, u64::MAX]);
            ExcSpec::Some(Exc {
                tid,
                code,
                flags,
                addr: pick_u64(rng),
                np,
                p0: if rng.chance(1, 6) { rng.next() } else { p0 },
                p1: pick_u64(rng),
                p2: if rng.chance(1, 2) { *rng.pick(codes.get("NtStatusWindows").map(|v| v.as_slice()).unwrap_or(&[0xc000_000e])) | (rng.below(2) << 32) } else { pick_u64(rng) },
                ctx: gen_ctx(rng, 200),
            })
        }
    };
    let mi = match rng.below(8) {
        0..=2 => MiscSpec::None,
        3 => MiscSpec::Short,
        _ => MiscSpec::Some {
            flags: if rng.chance(3, 4) { rng.below(4) as u32 } else { rng.next() as u32 },
            pid: if rng.chance(1, 4) { 0 } else { rng.next() as u32 },
            ctime: if rng.chance(1, 4) { 0 } else { rng.next() as u32 },
            ver: rng.range(1, 5) as u8,
            soi: if rng.chance(1, 6) { Some(*rng.pick(&[0u32, 8, 23, 24, 25, 0x340, 0xffff_ffff])) } else { None },
        },
    };
    let st = match rng.below(6) {
        0..=2 => None,
        3 => Some(vec![]),
        _ => {
            let mut v = vec![("Name".to_string(), "crasher".to_string())];
            let k = rng.below(3);
            for _ in 0..k {
                let val = match rng.below(7) {
                    0 => "abc".to_string(),
                    1 => "4294967296".to_string(),
                    2 => "4294967295".to_string(),
                    3 => format!("+{}", rng.below(1000)),
                    4 => "-5".to_string(),
                    _ => rng.below(100_000).to_string(),
                };
                v.push((rng.pick(&["Pid", "Pid", "Tgid", "PPid", "pid"]).to_string(), val));
            }
            Some(v)
        }
    };
    // modules placed around the instruction pointers in use
    let ips: Vec<u64> = th
        .iter()
        .flatten()
        .filter_map(|t| if let Ctx::R { ip, .. } = t.ctx { Some(ip) } else { None })
        .chain(match &ex {
            ExcSpec::Some(Exc { ctx: Ctx::R { ip, .. }, .. }) => Some(*ip),
            _ => None,
        })
        .collect();
    let gen_mods = |rng: &mut Rng, prefix: &str, max: u64| -> Vec<Mod> {
        let k = rng.below(max + 1);
        let mut v = vec![];
        for j in 0..k {
            let anchor = if !ips.is_empty() && rng.chance(4, 5) { *rng.pick(&ips) } else { rng.below(0x10000) };
            let back = rng.below(0x300);
            let base = anchor.saturating_sub(back);
            let size = match rng.below(10) {
                0 => 0,
                1 => back as u32, // ends just below the anchor
                2 => back as u32 + 1,
                _ => (back + rng.below(0x400)) as u32,
            };
            let (base, size) = if rng.chance(1, 25) { (u64::MAX - rng.below(16), rng.below(32) as u32) } else { (base, size) };
            let name = if odd && rng.chance(1, 3) {
                odd_name(rng)
            } else if rng.chance(1, 4) {
                Name::ascii(&format!("{prefix}same"))
            } else {
                Name::ascii(&format!("{prefix}{j}"))
            };
            v.push(Mod { base, size, name });
        }
        v
    };
    let mo = gen_mods(rng, "m", 2);
    let um = gen_mods(rng, "u", 4);
    let mut c = empty_case(os, cpu);
    c.ts = rng.next() as u32;
    c.th = th;
    c.nm = nm;
    c.bp = bp;
    c.ex = ex;
    c.mi = mi;
    c.st = st;
    c.mo = mo;
    c.um = um;
    // these threads have no stack memory and the dump has no memory list: no walk reads memory, so
    // every CPU may come in a big-endian dump
    c.be = rng.chance(1, 8);
    if rng.chance(1, 3) {
        add_extras(rng, &mut c);
    }
    c
}

/// the `w` low bytes of `v` as a dump of the given byte order stores them
fn word(v: u64, w: u64, be: bool) -> Vec<u8> {
    let mut b = v.to_le_bytes()[..w as usize].to_vec();
    if be {
        b.reverse();
    }
    b
}

/// further registers of a context: some callee-saved ones and some scratch ones, with odd values
fn gen_rest(rng: &mut Rng, cpu: u16) -> Vec<(String, u64)> {
    let Some(arch) = walk_arch(cpu) else { return vec![] };
    let lim = if ctx32(cpu) { 0xffff_ffffu64 } else { u64::MAX };
    let mut rest = vec![];
    for r in walk::registers(arch) {
        if *r == walk::ip_name(arch) || *r == walk::sp_name(arch) || *r == walk::fp_name(arch) {
            continue;
        }
        if rng.chance(1, 3) {
            rest.push((r.to_string(), pick_u64(rng) & lim));
        }
    }
    rest
}

/// Threads WITH stack memory: frame-pointer chains, planted return addresses and junk in pool
/// regions; stack descriptors that cite them, cite nothing, or start elsewhere; memory lists of both
/// kinds with overlapping / empty / unreadable entries; contexts whose stack pointer is inside,
/// at the end of, or outside the regions.
fn gen_stacks(rng: &mut Rng, cpu: u16, coherent: bool) -> Case {
    // either byte order for every CPU: the reader swaps by the header signature, the walkers read the
    // stack words through `get_memory_at_address`, which uses the dump's byte order
    let be = rng.chance(1, 3);
    let w: u64 = match cpu {
        0 | 10 | 5 | 1 | 3 => 4,
        _ => 8,
    };
    let os = match cpu {
        5 if rng.chance(2, 3) => 0x8102, // iOS: the only OS with ARM frame pointers
        9 if rng.chance(1, 3) => WIN,
        _ => *rng.pick(&[LINUX, LINUX, MAC, WIN, 0x8203]),
    };
    let mut c = empty_case(os, cpu);
    c.ts = rng.next() as u32;
    let lim: u64 = if ctx32(cpu) { 0xffff_ffff } else { u64::MAX };
    // modules: one loaded (return addresses found by scanning must point into it), one unloaded
    let mod_base: u64 = 0x40_0000;
    if rng.chance(9, 10) {
        c.mo.push(Mod { base: mod_base, size: 0x1000, name: Name::ascii("mod") });
    }
    if rng.chance(1, 3) {
        c.mo.push(Mod { base: 0x50_0000, size: 0x800, name: Name::ascii("lib") });
    }
    if rng.chance(1, 2) {
        c.um.push(Mod { base: 0x60_0000, size: 0x1000, name: Name::ascii("gone") });
        if rng.chance(1, 3) {
            c.um.push(Mod { base: 0x60_0800, size: 0x1000, name: Name::ascii("gone2") });
        }
    }
    let ret_addr = |rng: &mut Rng| -> u64 {
        match if coherent { 3 + rng.below(17) } else { rng.below(8) } {
            3 | 4 | 5 => 0x60_0000 + rng.below(0x1800), // (coherent) unloaded module
            6 | 7 => 0x50_0000 + rng.below(0x800),    // (coherent) second module
            0 => 0x60_0000 + rng.below(0x1800),       // unloaded module
            1 => 0x50_0000 + rng.below(0x800),        // second module
            2 => rng.below(0x2000),                   // around the 4096 cut-off
            3 if !coherent => (rng.next() & lim) | 0x1000, // anywhere
            _ => mod_base + 0x10 + rng.below(0xfe0), // the loaded module
        }
    };
    // regions
    let size_a = if coherent { *rng.pick(&[0x100u64, 0x200, 0x400]) } else { *rng.pick(&[0x40u64, 0x80, 0x100, 0x200]) };
    let base_a: u64 = match rng.below(8) {
        0 if !ctx32(cpu) => u64::MAX - size_a,           // ends at 2^64 - 2: the last valid placement
        1 if !ctx32(cpu) => u64::MAX - size_a + 1,       // base + size = 2^64: no memory_range()
        2 if ctx32(cpu) => 0x1_0000_0000 - size_a,       // ends at 2^32 - 1
        _ => 0x1_0000 + rng.below(4) * 0x1000,
    };
    let size_b = if coherent { *rng.pick(&[0x100u64, 0x200]) } else { *rng.pick(&[0x40u64, 0x100, 0x200]) };
    let base_b: u64 = 0x2_0000;
    let fill = |rng: &mut Rng, base: u64, size: u64, chain: bool| -> (Region, u64) {
        let mut patches: Vec<(u64, Vec<u8>)> = vec![];
        let slots = size / w;
        // junk
        if rng.chance(1, if coherent { 6 } else { 3 }) {
            let mut junk = vec![];
            for _ in 0..size {
                junk.push(rng.next() as u8);
            }
            patches.push((0, junk));
        }
        // planted return addresses (found by scanning)
        for _ in 0..rng.below(4) {
            let s = rng.below(slots.max(1));
            if (s + 1) * w <= size {
                patches.push((s * w, word(ret_addr(rng), w, be)));
            }
        }
        // a frame-pointer chain: [bp] = caller's bp, [bp + w] = return address
        let mut first_bp = 0u64;
        if chain && slots >= 4 {
            let mut slot = rng.below(3) + if coherent { 2 } else { 0 };
            let mut prev: Option<u64> = None;
            let depth = if coherent { rng.range(2, 9) } else { rng.range(1, 5) };
            for _ in 0..depth {
                if (slot + 2) * w > size {
                    break;
                }
                let bp = base.wrapping_add(slot * w);
                if let Some(p) = prev {
                    patches.push((p, word(bp & lim, w, be)));
                } else {
                    first_bp = bp;
                }
                patches.push((slot * w + w, word(ret_addr(rng), w, be)));
                prev = Some(slot * w);
                slot += 2 + rng.below(4);
            }
            if let Some(p) = prev {
                // the last saved frame pointer: 0, outside, or back into the region (no progress)
                let last = match rng.below(4) {
                    0 => base,
                    1 => base.wrapping_add(size),
                    _ => 0,
                };
                patches.push((p, word(last & lim, w, be)));
            }
        }
        (Region { base, size, patches }, first_bp)
    };
    let (ra, bp_a) = fill(rng, base_a, size_a, true);
    let chain_b = coherent || rng.chance(1, 2);
    let (rb, bp_b) = fill(rng, base_b, size_b, chain_b);
    c.rg.push(ra); // 0 = A
    c.rg.push(rb); // 1 = B
    // 2 = C overlaps A (starts inside it, or is A's range with other bytes)
    let c_off = *rng.pick(&[0u64, w, size_a / 2, size_a - w]);
    let (rc, _) = fill(rng, base_a.wrapping_add(c_off) & lim, size_a, false);
    c.rg.push(rc);
    // 3 = an empty region at B's address; 4 = a region whose end does not fit the address space
    c.rg.push(Region { base: base_b, size: 0, patches: vec![] });
    c.rg.push(Region { base: u64::MAX - 7, size: 0x20, patches: vec![] });
    // memory lists
    let perm = |rng: &mut Rng| -> Vec<usize> {
        let mut v: Vec<usize> = match rng.below(10) {
            0 => vec![0, 1],
            1 => vec![1, 0],
            2 => vec![0, 2, 1],
            3 => vec![2, 0, 1],
            4 => vec![1, 3, 0, 4],
            5 => vec![0],
            6 => vec![1],
            8 | 9 => vec![1, 3],
            _ => vec![3, 4, 1, 2],
        };
        if rng.chance(1, 10) {
            v.push(*rng.pick(&[0usize, 1, 2]));
        }
        v
    };
    let l_items = |rng: &mut Rng| -> Vec<LItem> {
        let mut v: Vec<LItem> = perm(rng).into_iter().map(LItem::Pool).collect();
        if rng.chance(1, 5) {
            let at = rng.below(v.len() as u64 + 1) as usize;
            v.insert(at, LItem::Null(*rng.pick(&[base_a, base_b, 0])));
        }
        v
    };
    c.ml = match rng.below(if coherent { 16 } else { 10 }) {
        0 => vec![],
        1 | 2 => vec![MlSection::Q(perm(rng))],
        3 => vec![MlSection::L(l_items(rng)), MlSection::Q(perm(rng))],
        4 => vec![MlSection::X, MlSection::L(l_items(rng))],
        5 => vec![MlSection::Q(vec![])],
        _ => vec![MlSection::L(l_items(rng))],
    };
    // stack pointers of interest
    let sp_pick = |rng: &mut Rng| -> (u64, u64) {
        let (base, size, bp) = if rng.chance(2, 3) { (base_a, size_a, bp_a) } else { (base_b, size_b, bp_b) };
        if coherent && bp != 0 && rng.chance(1, 8) {
            // the last bytes of the region: no 64-bit word at sp, the chain still readable
            let sp = base.wrapping_add(size).wrapping_sub(rng.range(1, 8));
            return (sp & lim, bp & lim);
        }
        if coherent && bp != 0 && rng.chance(5, 6) {
            // a context that belongs to the chain: sp a few words below the first frame record
            let sp = bp.wrapping_sub(rng.below(3) * w).max(base);
            return (sp & lim, bp & lim);
        }
        let sp = match rng.below(12) {
            0 => base.wrapping_add(size).wrapping_sub(rng.below(10)), // the last bytes, the end, one past
            1 => base.wrapping_sub(rng.range(1, 8)),
            2 => 0,
            3 => lim,
            4 => base.wrapping_add(size),
            5 if cpu == 1 => (1 << 32) | base.wrapping_add(rng.below(size / w) * w), // MIPS: garbage above bit 31
            6 => base.wrapping_add(rng.below(size)), // unaligned
            _ => base.wrapping_add(rng.below((size / w).max(1)) * w),
        };
        let fp = match rng.below(6) {
            0 => 0,
            1 => rng.next(),
            2 => sp,
            _ => bp,
        };
        (sp & if cpu == 1 { u64::MAX } else { lim }, fp & lim)
    };
    let ip = |rng: &mut Rng| -> u64 { *rng.pick(&[mod_base + 0x100, mod_base + 0x200, 0x60_0100, 0x7000, 0x50_0010]) };
    let n = rng.range(1, 3);
    let ids: Vec<u32> = if rng.chance(1, 3) { vec![1] } else { vec![1, 2, 3] };
    let mut th = vec![];
    for _ in 0..n {
        let id = *rng.pick(&ids);
        let ctx = if rng.chance(1, 8) {
            Ctx::U(rng.below(5) as u8)
        } else {
            let (sp, fp) = sp_pick(rng);
            Ctx::R { ip: ip(rng), sp, fp, rest: if rng.chance(1, 6) { gen_rest(rng, cpu) } else { vec![] } }
        };
        let start = match rng.below(if coherent { 24 } else { 8 }) {
            0 => base_b,
            1 => base_a.wrapping_add(w),
            2 => 0,
            _ => base_a,
        };
        let stack = match rng.below(if coherent { 20 } else { 10 }) {
            0 => None,
            1 => Some((start, Own::Null)),
            2 => Some((start, Own::Outside)),
            3 => Some((start, Own::Pool(1))),
            4 => Some((start, Own::Pool(3))),
            _ => Some((start, Own::Pool(0))),
        };
        th.push(Thread { id, ctx, stack });
    }
    c.th = Some(th);
    if rng.chance(3, 5) {
        let (sp, fp) = sp_pick(rng);
        let ctx = if rng.chance(1, 6) { Ctx::U(rng.below(5) as u8) } else { rctx3(ip(rng), sp, fp) };
        let mut e = exc0(11, 1);
        e.tid = if rng.chance(1, 8) { 9 } else { *rng.pick(&ids) };
        e.ctx = ctx;
        c.ex = ExcSpec::Some(e);
    }
    if rng.chance(1, 4) {
        c.bp = Some((*rng.pick(&[1u32, 2, 3]), *rng.pick(&ids), *rng.pick(&ids)));
    }
    if rng.chance(1, 4) {
        c.nm = Some(vec![(1, if rng.chance(1, 2) { odd_name(rng) } else { Name::ascii("main") }), (2, Name::ascii("worker"))]);
    }
    c.be = be;
    if rng.chance(1, 6) {
        add_extras(rng, &mut c);
    }
    c
}

/// the start context's stack pointer lies in the last `k` bytes of the thread's own stack memory
/// (no 64-bit word there) and the memory list — absent, or holding region B only — does not serve
/// that address: the thread keeps its own memory, in which the frame-pointer chain (and, on 32-bit
/// CPUs, the last word) is still readable
fn tail_case(cpu: u16, k: u64, with_list: bool, fp_kind: u8, be: bool) -> Case {
    let w: u64 = if matches!(cpu, 0 | 5 | 1) { 4 } else { 8 };
    let (a, b, size) = (0x10000u64, 0x20000u64, 0x100u64);
    let os = if cpu == 5 { 0x8102 } else { LINUX };
    let mut c = empty_case(os, cpu);
    c.be = be;
    c.mo.push(Mod { base: 0x40_0000, size: 0x1000, name: Name::ascii("mod") });
    let mut patches = vec![
        (0x20, word(a + 0x40, w, be)),
        (0x20 + w, word(0x40_0310, w, be)),
        (0x40, word(0, w, be)),
        (0x40 + w, word(0x40_0420, w, be)),
        // a frame record in the last two words (caller's frame pointer 0, return address): its caller
        // frame has sp = end of the region, above every stack pointer inside it
        (size - 2 * w, word(0, w, be)),
        (size - w, word(0x40_0530, w, be)),
    ];
    patches.sort();
    c.rg.push(Region { base: a, size, patches });
    c.rg.push(Region { base: b, size, patches: vec![] });
    if with_list {
        c.ml = vec![MlSection::L(vec![LItem::Pool(1)])];
    }
    let fp = match fp_kind {
        0 => a + 0x20,
        1 => a + size - 2 * w,
        _ => 0,
    };
    c.th = Some(vec![Thread { id: 1, ctx: rctx3(0x40_0100, a + size - k, fp), stack: Some((a, Own::Pool(0))) }]);
    c
}

/// the former oracle-only `index stackmem` grid, now modelled: thread 1 owns region A and its own
/// context points into A; the exception context (readable unless `esp` is none) has sp = esp; one
/// return address into the module is planted in A or B at word `slot`
fn stackmem_case(cpu: u16, esp: Option<u64>, in_a: bool, slot: u64, be: bool) -> Case {
    let w: u64 = if cpu == 0 { 4 } else { 8 };
    let (a, b, size, ra) = (0x10000u64, 0x20000u64, 0x200u64, 0x40_0310u64);
    let mut c = empty_case(LINUX, cpu);
    c.be = be;
    c.mo.push(Mod { base: 0x40_0000, size: 0x1000, name: Name::ascii("mod") });
    let plant = |on: bool| if on { vec![(slot * w, word(ra, w, be))] } else { vec![] };
    c.rg.push(Region { base: a, size, patches: plant(in_a) });
    c.rg.push(Region { base: b, size, patches: plant(!in_a) });
    c.ml = vec![MlSection::L(vec![LItem::Pool(0), LItem::Pool(1)])];
    c.th = Some(vec![Thread { id: 1, ctx: rctx3(0x40_0100, a + 0x10, 0), stack: Some((a, Own::Pool(0))) }]);
    let mut e = exc0(11, 1);
    e.np = 0;
    e.ctx = match esp {
        Some(sp) => rctx3(0x40_0200, sp, 0),
        None => Ctx::U(0),
    };
    c.ex = ExcSpec::Some(e);
    c
}

/// the `win:` field of a `chain` case
fn parse_win_field(s: &str) -> Option<Vec<(String, Vec<WinRec>)>> {
    let body = s.strip_prefix("win:")?;
    if body == "-" {
        return Some(vec![]);
    }
    let mut out = vec![];
    for m in body.split(',') {
        let (name, recs) = m.split_once(':')?;
        out.push((name.to_string(), recs.split(';').filter(|x| !x.is_empty()).map(WinRec::parse).collect::<Option<Vec<_>>>()?));
    }
    Some(out)
}

/// A case of engine `walk` or `chain` (one context, one stack, modules, symbol records) as a WHOLE
/// DUMP: the context becomes a thread's (all its registers), the stack a pool region the thread's
/// stack descriptor cites, the modules the module list, the symbol records what the supplier has.
/// `variant` adds a second thread with the same context and stack, an exception stream naming
/// thread 1 (context = the thread's), a memory list. `be`: the dump is big-endian — the stack words
/// (laid out by the other engine's generator as little-endian words) are stored byte-swapped.
fn from_walk(wc: &walk::Case, wins: Vec<(String, Vec<WinRec>)>, be: bool, variant: u64) -> Option<Case> {
    let arch = wc.arch.as_str();
    let cpu: u16 = match arch {
        "x86" => 0,
        "amd64" => 9,
        "arm" => 5,
        "arm64" => 12,
        "arm64old" => 0x8003,
        "mips32" => 1,
        _ => return None, // a MIPS64 context is a flag of the context record, not a CPU of the dump
    };
    let os = match wc.os.as_str() {
        "windows" => WIN,
        "macos" => MAC,
        "ios" => 0x8102,
        "android" => 0x8203,
        _ => LINUX,
    };
    if wc.valid.is_some() || !wc.symraw.is_empty() {
        return None;
    }
    let (base, bytes) = wc.stack.as_ref()?;
    if bytes.is_empty() || bytes.len() > 6000 {
        return None;
    }
    let lim = if ctx32(cpu) { 0xffff_ffffu64 } else { u64::MAX };
    let (mut ip, mut sp, mut fp) = (0u64, 0u64, 0u64);
    let mut rest: Vec<(String, u64)> = vec![];
    for (n, v) in &wc.regs {
        let n = walk::canon(arch, n);
        if *v > lim {
            return None;
        }
        if n == walk::ip_name(arch) {
            ip = *v;
        } else if n == walk::sp_name(arch) {
            sp = *v;
        } else if n == walk::fp_name(arch) {
            fp = *v;
        } else if let Some(e) = rest.iter_mut().find(|(m, _)| m == n) {
            e.1 = *v;
        } else {
            rest.push((n.to_string(), *v));
        }
    }
    let mut c = empty_case(os, cpu);
    c.be = be;
    let w = walk::ptr_of(arch) as usize;
    let mut stored = bytes.clone();
    if be {
        for ch in stored.chunks_mut(w) {
            ch.reverse();
        }
    }
    c.rg.push(Region { base: *base, size: stored.len() as u64, patches: vec![(0, stored)] });
    let ctx = Ctx::R { ip, sp, fp, rest };
    let mut th = vec![Thread { id: 1, ctx: ctx.clone(), stack: Some((*base, Own::Pool(0))) }];
    if variant & 1 != 0 {
        // a second (non-requesting) thread: it too must be walked with the supplier's symbols
        th.push(Thread { id: 2, ctx: ctx.clone(), stack: Some((*base, Own::Pool(0))) });
    }
    if variant & 2 != 0 {
        let mut e = exc0(11, 1);
        e.tid = 1;
        e.ctx = if variant & 4 != 0 { Ctx::U(0) } else { ctx.clone() };
        c.ex = ExcSpec::Some(e);
    }
    if variant & 8 != 0 {
        c.ml = vec![MlSection::L(vec![LItem::Pool(0)])];
    }
    c.th = Some(th);
    for (b, z, n) in &wc.mods {
        if !name_ok(n) {
            return None;
        }
        c.mo.push(Mod { base: *b, size: *z, name: Name::ascii(n) });
    }
    for (n, recs) in &wc.syms {
        if !name_ok(n) || c.sy.iter().any(|(x, _)| x == n) {
            return None;
        }
        c.sy.push((n.clone(), recs.clone()));
    }
    for (n, recs) in wins {
        if !name_ok(&n) || recs.is_empty() {
            continue;
        }
        c.sw.push((n, recs));
    }
    Some(c)
}

/// whole-dump versions of sampled cases of the `chain` engine (frame-pointer / STACK CFI / scan /
/// STACK WIN / mixed chains that satisfy the C04 preconditions) and of the `walk` engine (arbitrary
/// contexts, stacks and CFI rules): every `step`-th case whose shape a dump can carry
fn emit_converted(tier: Tier, rng: &mut Rng, emit: &mut dyn FnMut(String)) {
    use crate::engines::chain::Chain;
    let (chain_step, walk_step) = if tier == Tier::Quick { (5u64, 90u64) } else { (1, 12) };
    let mut lines: Vec<(String, usize)> = vec![];
    {
        let mut k = 0u64;
        let mut sub = Rng::new(rng.next());
        Chain.generate(Tier::Quick, &mut sub, &mut |l: String| {
            k += 1;
            if k % chain_step == 0 {
                let n_extra = if l.split(' ').filter(|s| !s.is_empty()).nth(3).is_some_and(|t| t.starts_with("win:")) { 3 } else { 2 };
                lines.push((l, n_extra));
            }
        });
        let mut k = 0u64;
        let mut sub = Rng::new(rng.next());
        walk::Walk.generate(Tier::Quick, &mut sub, &mut |l: String| {
            k += 1;
            if k % walk_step == 0 && !l.contains(" symraw:") && !l.ends_with(" be:1") {
                lines.push((l, 0));
            }
        });
    }
    let mut dumped: Vec<String> = vec![];
    for (i, (l, n_extra)) in lines.iter().enumerate() {
        let Some(wc) = walk::Case::parse(l, *n_extra) else { continue };
        let wins = if *n_extra == 3 { parse_win_field(&wc.extra[2]).unwrap_or_default() } else { vec![] };
        let be = i % 3 == 2;
        let variant = rng.below(16);
        if let Some(c) = from_walk(&wc, wins, be, variant) {
            emit(c.line());
            dumped.push(c.line());
        }
    }
    // INDEX_DUMP=<file>: also write the converted cases there (debugging, corpus building)
    if let Ok(path) = std::env::var("INDEX_DUMP") {
        let _ = std::fs::write(path, dumped.join("\n"));
    }
}

impl Engine for Index {
    fn name(&self) -> &'static str {
        "index"
    }
    fn rule(&self) -> String {
        "abstract dump descriptions (0..32 threads with duplicate/missing ids, thread names with duplicates, unreadable \
         strings, non-ASCII / non-BMP / ill-formed UTF-16; Breakpad info validity bits; exception stream absent/short/present \
         with thread id absent/present/equal to the dump-writer thread; five kinds of unreadable context for either source; \
         every PlatformId x ProcessorArchitecture value and unknown ones; exception codes/flags from the repository's enum \
         tables and their neighbours and random u32; parameter counts 0..16 and 2^32-1; sign-extended addresses; misc-info \
         flag combinations in all five struct versions; /proc/status streams; loaded/unloaded modules around the frame \
         addresses incl. impossible sizes and unreadable names; THREADS WITH STACK MEMORY: pool regions holding \
         frame-pointer chains, planted return addresses and junk for x86/amd64/arm/arm64/arm64-old/mips (and ppc/sparc, which \
         have no unwinder), stack descriptors that cite a region, cite nothing (rva 0 / outside the file / size 0) or start \
         elsewhere, memory lists and memory-64 lists (both, a broken memory-64 stream, empty, unreadable descriptors) with \
         overlapping regions, a region ending at 2^64-2 or not fitting the address space, stack pointers inside / in the last \
         bytes of / at the end of / outside the regions, MIPS stack pointers with garbage above bit 31; big-endian dumps; \
         system-info / LSB / macOS crash-info / boot-args / handle streams and streams that are present without being \
         consulted) are turned into dump bytes with minidump-synth + raw sections and processed by the real \
         process_minidump; the canonical rendering of ProcessState (every frame of every call stack included) is compared \
         with the Lean model on the same description, and the property oracle (stack per thread in order with ids and \
         names, requesting-thread rule, context preference, every call stack = the real walk_stack on a memory that contains \
         the start context's stack pointer, C05 well-formedness and the C03 bound per stack, crash address incl. \
         zero-extension, reason family per OS, pid/times, module mirrors, unloaded offsets of every frame, copied fields) \
         is evaluated on the implementation alone. Exhaustive part: every literal of the Windows/Linux/macOS exception \
         enums as exception code (and every macOS/Linux sub-code as flags, per CPU class). non-trivial = processed dump \
         with at least one thread and an exception stream, Breakpad info or a walked stack."
            .into()
    }
    fn exhaustive_part(&self) -> Option<String> {
        Some(
            "every discriminant literal of minidump-common/src/errors/{windows,linux,macos}.rs used as exception code \
             (Windows: all of ExceptionCodeWindows/WinErrorWindows/NtStatusWindows; macOS: every code x every sub-code \
             literal x {arm64, ppc, x86, amd64, arm}; Linux: every signal x flags 0..10) — validates the translated \
             tables entry by entry against the real from_u32"
                .into(),
        )
    }

    fn generate(&self, tier: Tier, rng: &mut Rng, emit: &mut dyn FnMut(String)) {
        let codes = source_codes();
        let get = |n: &str| codes.get(n).cloned().unwrap_or_default();
        // --- exhaustive: the enum tables, entry by entry
        for n in ["ExceptionCodeWindows", "WinErrorWindows", "NtStatusWindows"] {
            for v in get(n) {
                emit(minimal(WIN, 9, exc0(v as u32, 0)).line());
            }
        }
        for v in get("WinErrorWindows").iter().step_by(if tier == Tier::Quick { 16 } else { 1 }) {
            for fac in [109u32, 108] {
                emit(minimal(WIN, 0, exc0(0x8000_0000 | (fac << 16) | (*v as u32 & 0xffff), 0)).line());
            }
        }
        let mut mac_flags: Vec<u64> = vec![];
        for (k, v) in &codes {
            if k.starts_with("ExceptionCodeMac") && k != "ExceptionCodeMac" && (k.contains("BadAccess") || k.contains("BadInstruction") || k.contains("Arithmetic") || k.contains("Software") || k.contains("Breakpoint")) {
                mac_flags.extend(v);
            }
        }
        for t in 0..8u64 {
            mac_flags.push(t << 29);
            mac_flags.push((t << 29) | 0x1234);
        }
        mac_flags.extend([0u64, 0x1000, 0xffff_ffff]);
        mac_flags.sort();
        mac_flags.dedup();
        let mut mac_codes = get("ExceptionCodeMac");
        mac_codes.extend([0, 10, 13]);
        for cpu in [12u16, 3, 0, 9, 5] {
            for code in &mac_codes {
                for fl in &mac_flags {
                    emit(minimal(MAC, cpu, exc0(*code as u32, *fl as u32)).line());
                }
            }
        }
        let mut linux_codes = get("ExceptionCodeLinux");
        linux_codes.extend([0, 32, 64]);
        for code in &linux_codes {
            for fl in 0..=10u32 {
                emit(minimal(LINUX, 9, exc0(*code as u32, fl)).line());
            }
        }
        // --- every OS x CPU with one Windows, one mac and one Linux shaped record, in both byte orders
        for os in PLATFORMS {
            for cpu in ARCHS {
                for (k, (code, flags)) in [(0xc000_0005u32, 0u32), (1, 2), (11, 1)].into_iter().enumerate() {
                    let mut e = exc0(code, flags);
                    e.ctx = rctx(0x7000);
                    e.np = 2;
                    let mut c = minimal(*os, *cpu, e);
                    c.th = Some(vec![thread(2, rctx(0x1000)), thread(1, rctx(0x2000)), thread(1, Ctx::U(3))]);
                    c.be = k == 1;
                    emit(c.line());
                }
            }
        }
        // --- misc-info flag combinations x versions x status presence
        for flags in [0u32, 1, 2, 3, 4, 0xffff_fffc, 0xffff_ffff] {
            for ver in 1..=5u8 {
                for st in [None, Some(vec![("Pid".to_string(), "77".to_string())])] {
                    let mut c = minimal(LINUX, 9, exc0(11, 1));
                    c.mi = MiscSpec::Some { flags, pid: 4242, ctime: 1_600_000_000, ver, soi: None };
                    c.st = st;
                    emit(c.line());
                }
            }
        }
        // --- the misc-info stream's own `size_of_info` field disagrees with the stream length: the
        //     field is untrusted and not consulted (the stream length selects the revision), so process
        //     id and create time are still those of the stream, with no fallback to the Linux status
        for ver in 1..=5u8 {
            let len = match ver {
                1 => md::MINIDUMP_MISC_INFO::size_with(&scroll::LE),
                2 => md::MINIDUMP_MISC_INFO_2::size_with(&scroll::LE),
                3 => md::MINIDUMP_MISC_INFO_3::size_with(&scroll::LE),
                4 => md::MINIDUMP_MISC_INFO_4::size_with(&scroll::LE),
                _ => md::MINIDUMP_MISC_INFO_5::size_with(&scroll::LE),
            } as u32;
            for soi in [0u32, 8, 23, 24, len - 1, len + 1, 0xffff_ffff] {
                for flags in [3u32, 1, 2] {
                    for st in [None, Some(vec![("Pid".to_string(), "77".to_string())])] {
                        for be in [false, true] {
                            let mut c = minimal(LINUX, 9, exc0(11, 1));
                            c.mi = MiscSpec::Some { flags, pid: 4242, ctime: 1_600_000_000, ver, soi: Some(soi) };
                            c.st = st.clone();
                            c.be = be;
                            emit(c.line());
                        }
                    }
                }
            }
        }
        // --- the stack memory is the region that contains the start context's stack pointer (directed grid)
        for cpu in [0u16, 9] {
            for esp in [None, Some(65568u64), Some(131072), Some(131104), Some(131576), Some(196608), Some(66040), Some(66041), Some(131577), Some(131583), Some(131584)] {
                for in_a in [true, false] {
                    for slot in [4u64, 8, 40, 62, 63] {
                        emit(stackmem_case(cpu, esp, in_a, slot, false).line());
                        if slot == 8 || slot == 63 {
                            emit(stackmem_case(cpu, esp, in_a, slot, true).line());
                        }
                    }
                }
            }
        }
        for cpu in [0u16, 9, 12, 5, 1, 0x8003] {
            for k in 0..=9u64 {
                for with_list in [false, true] {
                    for fp_kind in 0..3u8 {
                        emit(tail_case(cpu, k, with_list, fp_kind, false).line());
                        if k % 3 == 1 {
                            emit(tail_case(cpu, k, with_list, fp_kind, true).line());
                        }
                        if cpu == 5 {
                            // ARM frame pointers are followed on iOS only: the same case on Linux scans
                            let mut c = tail_case(cpu, k, with_list, fp_kind, false);
                            c.os = LINUX;
                            emit(c.line());
                        }
                    }
                }
            }
        }
        // --- copied fields: every CPU class x OS class with generated system info / LSB / crash info
        for cpu in [0u16, 9, 5, 12, 3, 1] {
            for os in [WIN, MAC, LINUX, 0x8203, 4] {
                for _ in 0..(if tier == Tier::Quick { 12 } else { 60 }) {
                    let mut c = minimal(os, cpu, exc0(11, 1));
                    c.si = Some(gen_sys(rng, os));
                    c.lsb = if rng.chance(1, 2) { Some(gen_lsb(rng)) } else { None };
                    c.mac = if rng.chance(1, 2) { Some(gen_mac(rng)) } else { None };
                    add_extras(rng, &mut c);
                    c.be = rng.chance(1, 6);
                    emit(c.line());
                }
            }
        }
        // --- threads with stack memory
        let n = if tier == Tier::Quick { 24000 } else { 120000 };
        for i in 0..n {
            let cpu = [9u16, 0, 12, 9, 0, 12, 5, 1, 0x8003, 10, 3, 0x8001, 0x8002, 9, 12, 0][i % 16];
            emit(gen_stacks(rng, cpu, i % 3 != 0).line());
        }
        // --- symbol files and full contexts: cases of the `chain` and `walk` engines as whole dumps
        emit_converted(tier, rng, emit);
        // --- random
        let n = if tier == Tier::Quick { 30000 } else { 100000 };
        for i in 0..n {
            let big = i % 10 == 0;
            emit(gen_random(rng, &codes, big).line());
        }
    }

    fn exec(&self, case: &str) -> ImplResult {
        let Some(c) = parse_case(case) else {
            return ImplResult { out: "bad-op".into(), oracle: vec![("bad-case".into(), "unparsable case line".into())], ..Default::default() };
        };
        let seen = match catch(|| run_impl(&c)) {
            Ok(s) => s,
            Err(msg) => {
                return ImplResult {
                    out: "PANIC".into(),
                    oracle: vec![("panic".into(), msg)],
                    nontrivial: false,
                    tags: vec!["panic".into()],
                }
            }
        };
        let oracle = match catch(|| oracle(&c, &seen)) {
            Ok(o) => o,
            Err(msg) => vec![("panic".into(), format!("while re-walking a stack: {msg}"))],
        };
        let mut tags = vec![];
        let n = c.th.as_ref().map(|t| t.len()).unwrap_or(0);
        tags.push(format!("threads:{}", match n { 0 => "0", 1 => "1", 2..=6 => "2-6", _ => "7-32" }));
        tags.push(format!("os:{:?}", Os::from_platform_id(c.os)).split('(').next().unwrap().to_string());
        tags.push(format!("cpu:{:?}", Cpu::from_processor_architecture(c.cpu)).split('(').next().unwrap().to_string());
        tags.push(format!("exc:{}", match &c.ex { ExcSpec::None => "none", ExcSpec::Short => "short", ExcSpec::Some(_) => "some" }));
        tags.push(format!("endian:{}", if c.be { "big" } else { "little" }));
        if !c.sy.is_empty() {
            tags.push("symbols:records".into());
        }
        if !c.sw.is_empty() {
            tags.push("symbols:stack-win".into());
        }
        for m in &c.ml {
            tags.push(format!("memory:{}", match m { MlSection::L(_) => "list", MlSection::Q(_) => "list64", MlSection::X => "broken-list64" }));
        }
        let mut walked = false;
        if let Some(st) = &seen.state {
            if let Some(e) = &st.exception_info {
                tags.push(format!("reason:{}", reason_tag(&e.reason).split('(').next().unwrap()));
            }
            tags.push(format!("req:{}", if st.requesting_thread.is_some() { "some" } else { "none" }));
            for t in &st.threads {
                tags.push(format!("info:{:?}", t.info));
                tags.push(format!("frames:{}", match t.frames.len() { 0 => "0", 1 => "1", 2 => "2", 3..=5 => "3-5", _ => "6+" }));
                if t.frames.len() > 1 {
                    walked = true;
                }
                for f in t.frames.iter().skip(1) {
                    tags.push(format!("trust:{}", f.trust.as_str()));
                    if c.be {
                        tags.push(format!("big-endian-walk:{}", f.trust.as_str()));
                    }
                    if let minidump::MinidumpContextValidity::Some(set) = &f.context.valid {
                        if set.len() > 3 {
                            tags.push("caller-with-forwarded-registers".into());
                        }
                    }
                }
                if t.frames.iter().any(|f| f.function_name.is_some()) {
                    tags.push("frame-with-function".into());
                }
                if t.frames.iter().any(|f| !f.unloaded_modules.is_empty()) {
                    tags.push("frame-in-unloaded".into());
                }
                if t.frames.iter().skip(1).any(|f| !f.unloaded_modules.is_empty()) {
                    tags.push("caller-frame-in-unloaded".into());
                }
                if t.frames.first().is_some_and(|f| f.module.is_some()) {
                    tags.push("frame-in-loaded".into());
                }
                if t.thread_name.as_deref().is_some_and(|n| !n.is_ascii()) {
                    tags.push("name:non-ascii".into());
                }
            }
            if let (ExcSpec::Some(e), Some(th)) = (&c.ex, &c.th) {
                let dump_id = c.bp.and_then(|(v, d, _)| if v & 1 != 0 { Some(d) } else { None });
                if Some(e.tid) == dump_id {
                    tags.push("exc-thread=dump-thread".into());
                }
                if !th.iter().any(|t| t.id == e.tid) {
                    tags.push("exc-thread-absent".into());
                }
                if th.iter().filter(|t| t.id == e.tid).count() > 1 {
                    tags.push("exc-thread-duplicated".into());
                }
                if matches!(e.ctx, Ctx::U(_)) {
                    tags.push("exc-ctx-unreadable".into());
                }
            }
            tags.push(format!("pid:{}", if st.process_id.is_some() { "some" } else { "none" }));
            if st.linux_standard_base.is_some() {
                tags.push("lsb".into());
            }
            if st.mac_crash_info.is_some() {
                tags.push("mac-crash-info".into());
            }
        } else {
            tags.push(format!("result:{}", seen.out));
        }
        let nontrivial = seen.state.is_some() && n > 0 && (matches!(c.ex, ExcSpec::Some(_)) || c.bp.is_some() || walked);
        ImplResult { out: seen.out, oracle, nontrivial, tags }
    }

    fn shrink(&self, case: &str, still_fails: &dyn Fn(&str) -> bool) -> String {
        let Some(mut cur) = parse_case(case) else {
            return case.to_string();
        };
        let mut progress = true;
        let mut rounds = 0;
        while progress && rounds < 60 {
            progress = false;
            rounds += 1;
            let mut cands: Vec<Case> = vec![];
            if let Some(th) = &cur.th {
                for i in 0..th.len() {
                    let mut c = cur.clone();
                    c.th.as_mut().unwrap().remove(i);
                    cands.push(c);
                }
                for i in 0..th.len() {
                    if th[i].stack.is_some() {
                        let mut c = cur.clone();
                        c.th.as_mut().unwrap()[i].stack = None;
                        cands.push(c);
                    }
                    if let Ctx::R { ip, sp, fp, rest } = &th[i].ctx {
                        if *fp != 0 {
                            let mut c = cur.clone();
                            c.th.as_mut().unwrap()[i].ctx = Ctx::R { ip: *ip, sp: *sp, fp: 0, rest: rest.clone() };
                            cands.push(c);
                        }
                        for j in 0..rest.len() {
                            let mut r2 = rest.clone();
                            r2.remove(j);
                            let mut c = cur.clone();
                            c.th.as_mut().unwrap()[i].ctx = Ctx::R { ip: *ip, sp: *sp, fp: *fp, rest: r2 };
                            cands.push(c);
                        }
                    }
                }
            }
            if let Some(nm) = &cur.nm {
                for i in 0..nm.len() {
                    let mut c = cur.clone();
                    c.nm.as_mut().unwrap().remove(i);
                    cands.push(c);
                }
                let mut c = cur.clone();
                c.nm = None;
                cands.push(c);
            }
            for i in 0..cur.mo.len() {
                let mut c = cur.clone();
                c.mo.remove(i);
                cands.push(c);
            }
            for i in 0..cur.um.len() {
                let mut c = cur.clone();
                c.um.remove(i);
                cands.push(c);
            }
            if cur.bp.is_some() {
                let mut c = cur.clone();
                c.bp = None;
                cands.push(c);
            }
            if cur.mi != MiscSpec::None {
                let mut c = cur.clone();
                c.mi = MiscSpec::None;
                cands.push(c);
            }
            if cur.st.is_some() {
                let mut c = cur.clone();
                c.st = None;
                cands.push(c);
            }
            if cur.ex != ExcSpec::None {
                let mut c = cur.clone();
                c.ex = ExcSpec::None;
                cands.push(c);
            }
            if let ExcSpec::Some(e) = &cur.ex {
                for f in 0..5 {
                    let mut e2 = e.clone();
                    match f {
                        0 => e2.p0 = 0,
                        1 => e2.p2 = 0,
                        2 => e2.flags = 0,
                        3 => e2.addr = 0,
                        _ => e2.np = 0,
                    }
                    if e2 != *e {
                        let mut c = cur.clone();
                        c.ex = ExcSpec::Some(e2);
                        cands.push(c);
                    }
                }
            }
            if cur.ts != 0 {
                let mut c = cur.clone();
                c.ts = 0;
                cands.push(c);
            }
            macro_rules! drop_field {
                ($f:ident, $empty:expr) => {
                    if cur.$f != $empty {
                        let mut c = cur.clone();
                        c.$f = $empty;
                        cands.push(c);
                    }
                };
            }
            drop_field!(si, None);
            drop_field!(lsb, None);
            drop_field!(mac, None);
            drop_field!(ba, None);
            drop_field!(hd, None);
            drop_field!(ps, 0);
            drop_field!(be, false);
            for i in 0..cur.sy.len() {
                let mut c = cur.clone();
                c.sy.remove(i);
                cands.push(c);
                for j in 0..cur.sy[i].1.len() {
                    // an `A` record belongs to the `C` before it: dropping a `C` drops its `A`s
                    let mut recs = cur.sy[i].1.clone();
                    recs.remove(j);
                    while j < recs.len() && matches!(recs[j], walk::Rec::A { .. }) && (j == 0 || !matches!(recs[j - 1], walk::Rec::C { .. } | walk::Rec::A { .. })) {
                        recs.remove(j);
                    }
                    let mut c = cur.clone();
                    c.sy[i].1 = recs;
                    cands.push(c);
                }
            }
            for i in 0..cur.sw.len() {
                let mut c = cur.clone();
                c.sw.remove(i);
                cands.push(c);
                for j in 0..cur.sw[i].1.len() {
                    let mut c = cur.clone();
                    c.sw[i].1.remove(j);
                    if c.sw[i].1.is_empty() {
                        c.sw.remove(i);
                    }
                    cands.push(c);
                }
            }
            // memory lists: drop a section, an item
            for i in 0..cur.ml.len() {
                let mut c = cur.clone();
                c.ml.remove(i);
                cands.push(c);
                match &cur.ml[i] {
                    MlSection::L(items) => {
                        for j in 0..items.len() {
                            let mut c = cur.clone();
                            if let MlSection::L(v) = &mut c.ml[i] {
                                v.remove(j);
                            }
                            cands.push(c);
                        }
                    }
                    MlSection::Q(items) => {
                        for j in 0..items.len() {
                            let mut c = cur.clone();
                            if let MlSection::Q(v) = &mut c.ml[i] {
                                v.remove(j);
                            }
                            cands.push(c);
                        }
                    }
                    MlSection::X => {}
                }
            }
            // region contents: drop a patch (region indices stay valid)
            for i in 0..cur.rg.len() {
                for j in 0..cur.rg[i].patches.len() {
                    let mut c = cur.clone();
                    c.rg[i].patches.remove(j);
                    cands.push(c);
                }
            }
            // an unreferenced pool is dropped as a whole
            let referenced = cur.th.iter().flatten().any(|t| matches!(t.stack, Some((_, Own::Pool(_))))) || !cur.ml.is_empty();
            if !referenced && !cur.rg.is_empty() {
                let mut c = cur.clone();
                c.rg.clear();
                cands.push(c);
            }
            for c in cands {
                if still_fails(&c.line()) {
                    cur = c;
                    progress = true;
                    break;
                }
            }
        }
        cur.line()
    }
}
