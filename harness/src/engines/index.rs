//! Engine `index` (C14): generated dumps (minidump-synth + raw sections) through the real
//! `minidump_processor::process_minidump`, compared with the Lean model `MdModel.Index` applied to
//! the generator's abstract description — the case line IS the abstract description; this engine
//! builds the dump bytes from it. The property's own oracle is evaluated on the implementation's
//! `ProcessState` alone.
//!
//! case line (fields in this order, numbers decimal):
//!   `index ts=<u32> os=<platform id> cpu=<arch> th=<T> nm=<N> bp=<B> ex=<E> mi=<M> st=<S> mo=<L> um=<L>`
//!   T = `-` (no thread list stream) | `.` (empty list) | `id:ctx,..`  ctx = `r<ip>` | `u<mode 0..4>`
//!   N = `-` | `.` | `id:name,..`   name `!` = unreadable string
//!   B = `-` | `validity:dump_thread_id:requesting_thread_id`
//!   E = `-` | `x` (stream too short) | `tid:code:flags:addr:nparams:p0:p1:p2:ctx`
//!   M = `-` | `x` (stream too short) | `flags1:pid:create_time:version(1..5)`
//!   S = `-` | `.` (empty stream) | `Key~value,..`
//!   L = `.` | `base:size:name,..`
//!
//! unreadable-context modes: 0 location (0,0) · 1 rva outside the file · 2 truncated by one byte ·
//! 3 context_flags without the CPU bits · 4 size 0 at a valid rva

use crate::common::*;
use minidump::system_info::{Cpu, Os, PointerWidth};
use minidump::*;
use minidump_common::format as md;
use minidump_synth as synth;
use scroll::ctx::SizeWith;
use scroll::{Pread, Pwrite};
use std::collections::BTreeMap;
use std::fmt::Write as _;
use synth::{DumpSection, SectionExtra};
use test_assembler::{Endian, Section};

pub struct Index;

const LE: Endian = Endian::Little;

// ------------------------------------------------------------------------------------ case

#[derive(Clone, Copy, Debug, PartialEq)]
enum Ctx {
    R(u64),
    U(u8),
}

#[derive(Clone, Debug, PartialEq)]
struct Exc {
    tid: u32,
    code: u32,
    flags: u32,
    addr: u64,
    np: u32,
    p0: u64,
    p1: u64,
    p2: u64,
    ctx: Ctx,
}

#[derive(Clone, Debug, PartialEq)]
enum ExcSpec {
    None,
    Short,
    Some(Exc),
}

#[derive(Clone, Debug, PartialEq)]
enum MiscSpec {
    None,
    Short,
    Some { flags: u32, pid: u32, ctime: u32, ver: u8 },
}

#[derive(Clone, Debug, PartialEq)]
struct Mod {
    base: u64,
    size: u32,
    name: String,
}

#[derive(Clone, Debug, PartialEq)]
struct Case {
    ts: u32,
    os: u32,
    cpu: u16,
    th: Option<Vec<(u32, Ctx)>>,
    nm: Option<Vec<(u32, Option<String>)>>,
    bp: Option<(u32, u32, u32)>,
    ex: ExcSpec,
    mi: MiscSpec,
    st: Option<Vec<(String, String)>>,
    mo: Vec<Mod>,
    um: Vec<Mod>,
}

fn fmt_ctx(c: &Ctx) -> String {
    match c {
        Ctx::R(ip) => format!("r{ip}"),
        Ctx::U(m) => format!("u{m}"),
    }
}

fn fmt_list<T>(xs: &[T], f: impl Fn(&T) -> String) -> String {
    if xs.is_empty() {
        ".".to_string()
    } else {
        xs.iter().map(f).collect::<Vec<_>>().join(",")
    }
}

impl Case {
    fn line(&self) -> String {
        let th = match &self.th {
            None => "-".to_string(),
            Some(v) => fmt_list(v, |(id, c)| format!("{id}:{}", fmt_ctx(c))),
        };
        let nm = match &self.nm {
            None => "-".to_string(),
            Some(v) => fmt_list(v, |(id, n)| format!("{id}:{}", n.as_deref().unwrap_or("!"))),
        };
        let bp = match &self.bp {
            None => "-".to_string(),
            Some((v, d, r)) => format!("{v}:{d}:{r}"),
        };
        let ex = match &self.ex {
            ExcSpec::None => "-".to_string(),
            ExcSpec::Short => "x".to_string(),
            ExcSpec::Some(e) => format!(
                "{}:{}:{}:{}:{}:{}:{}:{}:{}",
                e.tid, e.code, e.flags, e.addr, e.np, e.p0, e.p1, e.p2, fmt_ctx(&e.ctx)
            ),
        };
        let mi = match &self.mi {
            MiscSpec::None => "-".to_string(),
            MiscSpec::Short => "x".to_string(),
            MiscSpec::Some { flags, pid, ctime, ver } => format!("{flags}:{pid}:{ctime}:{ver}"),
        };
        let st = match &self.st {
            None => "-".to_string(),
            Some(v) => fmt_list(v, |(k, val)| format!("{k}~{val}")),
        };
        let ml = |v: &Vec<Mod>| fmt_list(v, |m| format!("{}:{}:{}", m.base, m.size, m.name));
        format!(
            "index ts={} os={} cpu={} th={} nm={} bp={} ex={} mi={} st={} mo={} um={}",
            self.ts, self.os, self.cpu, th, nm, bp, ex, mi, st, ml(&self.mo), ml(&self.um)
        )
    }
}

fn kv<'a>(tok: &'a str, key: &str) -> Option<&'a str> {
    tok.strip_prefix(key)?.strip_prefix('=')
}

fn parse_ctx(s: &str) -> Option<Ctx> {
    if let Some(r) = s.strip_prefix('r') {
        Some(Ctx::R(r.parse().ok()?))
    } else if let Some(u) = s.strip_prefix('u') {
        Some(Ctx::U(u.parse().ok()?))
    } else {
        None
    }
}

fn parse_list<T>(s: &str, f: impl Fn(&str) -> Option<T>) -> Option<Vec<T>> {
    if s == "." {
        Some(vec![])
    } else {
        s.split(',').map(f).collect()
    }
}

fn name_ok(s: &str) -> bool {
    !s.is_empty() && s.bytes().all(|b| b.is_ascii_alphanumeric() || b == b'_' || b == b'.')
}

fn parse_mod(s: &str) -> Option<Mod> {
    let p: Vec<&str> = s.split(':').collect();
    if p.len() != 3 || !name_ok(p[2]) {
        return None;
    }
    Some(Mod { base: p[0].parse().ok()?, size: p[1].parse().ok()?, name: p[2].to_string() })
}

fn parse_case(line: &str) -> Option<Case> {
    let f: Vec<&str> = line.split(' ').filter(|s| !s.is_empty()).collect();
    if f.len() != 12 || f[0] != "index" {
        return None;
    }
    let ts = kv(f[1], "ts")?.parse().ok()?;
    let os = kv(f[2], "os")?.parse().ok()?;
    let cpu = kv(f[3], "cpu")?.parse().ok()?;
    let th = match kv(f[4], "th")? {
        "-" => None,
        s => Some(parse_list(s, |t| {
            let (a, c) = t.split_once(':')?;
            Some((a.parse().ok()?, parse_ctx(c)?))
        })?),
    };
    let nm = match kv(f[5], "nm")? {
        "-" => None,
        s => Some(parse_list(s, |t| {
            let (a, n) = t.split_once(':')?;
            let id = a.parse().ok()?;
            if n == "!" {
                Some((id, None))
            } else if name_ok(n) {
                Some((id, Some(n.to_string())))
            } else {
                None
            }
        })?),
    };
    let bp = match kv(f[6], "bp")? {
        "-" => None,
        s => {
            let p: Vec<&str> = s.split(':').collect();
            if p.len() != 3 {
                return None;
            }
            Some((p[0].parse().ok()?, p[1].parse().ok()?, p[2].parse().ok()?))
        }
    };
    let ex = match kv(f[7], "ex")? {
        "-" => ExcSpec::None,
        "x" => ExcSpec::Short,
        s => {
            let p: Vec<&str> = s.split(':').collect();
            if p.len() != 9 {
                return None;
            }
            ExcSpec::Some(Exc {
                tid: p[0].parse().ok()?,
                code: p[1].parse().ok()?,
                flags: p[2].parse().ok()?,
                addr: p[3].parse().ok()?,
                np: p[4].parse().ok()?,
                p0: p[5].parse().ok()?,
                p1: p[6].parse().ok()?,
                p2: p[7].parse().ok()?,
                ctx: parse_ctx(p[8])?,
            })
        }
    };
    let mi = match kv(f[8], "mi")? {
        "-" => MiscSpec::None,
        "x" => MiscSpec::Short,
        s => {
            let p: Vec<&str> = s.split(':').collect();
            if p.len() != 4 {
                return None;
            }
            let ver: u8 = p[3].parse().ok()?;
            if !(1..=5).contains(&ver) {
                return None;
            }
            MiscSpec::Some { flags: p[0].parse().ok()?, pid: p[1].parse().ok()?, ctime: p[2].parse().ok()?, ver }
        }
    };
    let st = match kv(f[9], "st")? {
        "-" => None,
        s => Some(parse_list(s, |t| {
            let (k, v) = t.split_once('~')?;
            let ok = |x: &str| x.bytes().all(|b| b.is_ascii_alphanumeric() || b == b'+' || b == b'-' || b == b'_');
            if k.is_empty() || !ok(k) || !ok(v) {
                return None;
            }
            Some((k.to_string(), v.to_string()))
        })?),
    };
    let mo = parse_list(kv(f[10], "mo")?, parse_mod)?;
    let um = parse_list(kv(f[11], "um")?, parse_mod)?;
    Some(Case { ts, os, cpu, th, nm, bp, ex, mi, st, mo, um })
}

// ----------------------------------------------------------------------------- dump building

/// a well-formed context of the given raw architecture with the given ip (sp = 0);
/// `None`: `MinidumpContext::read` has no format for this architecture.
fn context_bytes(arch: u16, ip: u64, bad_flags: bool) -> Option<Vec<u8>> {
    use md::ContextFlagsCpu as F;
    use md::ProcessorArchitecture::*;
    use num_traits_shim::from_u16;
    macro_rules! build {
        ($t:ty, |$c:ident| $body:block) => {{
            let size = <$t>::size_with(&scroll::LE);
            let mut buf = vec![0u8; size];
            let mut $c: $t = buf.pread_with(0, scroll::LE).ok()?;
            $body
            buf.pwrite_with($c, 0, scroll::LE).ok()?;
            Some(buf)
        }};
    }
    match from_u16(arch)? {
        PROCESSOR_ARCHITECTURE_INTEL | PROCESSOR_ARCHITECTURE_IA32_ON_WIN64 => build!(md::CONTEXT_X86, |c| {
            c.context_flags = if bad_flags { 0x3f } else { F::CONTEXT_X86.bits() | 0x3f };
            c.eip = ip as u32;
        }),
        PROCESSOR_ARCHITECTURE_AMD64 => build!(md::CONTEXT_AMD64, |c| {
            c.context_flags = if bad_flags { 0x1f } else { F::CONTEXT_AMD64.bits() | 0x1f };
            c.rip = ip;
        }),
        PROCESSOR_ARCHITECTURE_PPC => build!(md::CONTEXT_PPC, |c| {
            c.context_flags = if bad_flags { 1 } else { F::CONTEXT_PPC.bits() | 1 };
            c.srr0 = ip as u32;
        }),
        PROCESSOR_ARCHITECTURE_PPC64 => build!(md::CONTEXT_PPC64, |c| {
            c.context_flags = if bad_flags { 1 } else { (F::CONTEXT_PPC64.bits() | 1) as u64 };
            c.srr0 = ip;
        }),
        PROCESSOR_ARCHITECTURE_SPARC => build!(md::CONTEXT_SPARC, |c| {
            c.context_flags = if bad_flags { 1 } else { F::CONTEXT_SPARC.bits() | 1 };
            c.pc = ip;
        }),
        PROCESSOR_ARCHITECTURE_ARM => build!(md::CONTEXT_ARM, |c| {
            c.context_flags = if bad_flags { 2 } else { F::CONTEXT_ARM.bits() | 2 };
            c.iregs[15] = ip as u32;
        }),
        PROCESSOR_ARCHITECTURE_ARM64 => build!(md::CONTEXT_ARM64, |c| {
            c.context_flags = if bad_flags { 0x1f } else { F::CONTEXT_ARM64.bits() | 0x1f };
            c.pc = ip;
        }),
        PROCESSOR_ARCHITECTURE_ARM64_OLD => build!(md::CONTEXT_ARM64_OLD, |c| {
            c.context_flags = if bad_flags { 2 } else { (F::CONTEXT_ARM64_OLD.bits() | 2) as u64 };
            c.pc = ip;
        }),
        PROCESSOR_ARCHITECTURE_MIPS => build!(md::CONTEXT_MIPS, |c| {
            c.context_flags = if bad_flags { 2 } else { F::CONTEXT_MIPS.bits() | 2 };
            c.epc = ip;
        }),
        _ => None,
    }
}

/// `ProcessorArchitecture::from_u16` without depending on num-traits directly
mod num_traits_shim {
    use minidump_common::format::ProcessorArchitecture::{self, *};
    pub fn from_u16(a: u16) -> Option<ProcessorArchitecture> {
        const ALL: &[ProcessorArchitecture] = &[
            PROCESSOR_ARCHITECTURE_INTEL,
            PROCESSOR_ARCHITECTURE_MIPS,
            PROCESSOR_ARCHITECTURE_ALPHA,
            PROCESSOR_ARCHITECTURE_PPC,
            PROCESSOR_ARCHITECTURE_SHX,
            PROCESSOR_ARCHITECTURE_ARM,
            PROCESSOR_ARCHITECTURE_IA64,
            PROCESSOR_ARCHITECTURE_ALPHA64,
            PROCESSOR_ARCHITECTURE_MSIL,
            PROCESSOR_ARCHITECTURE_AMD64,
            PROCESSOR_ARCHITECTURE_IA32_ON_WIN64,
            PROCESSOR_ARCHITECTURE_ARM64,
            PROCESSOR_ARCHITECTURE_SPARC,
            PROCESSOR_ARCHITECTURE_PPC64,
            PROCESSOR_ARCHITECTURE_ARM64_OLD,
            PROCESSOR_ARCHITECTURE_MIPS64,
            PROCESSOR_ARCHITECTURE_UNKNOWN,
        ];
        ALL.iter().copied().find(|x| *x as u16 == a)
    }
}

/// what a context location descriptor should say
enum Loc {
    Zero,
    Outside(u32),
    Section { sec: Section, cite_size: Option<u32> },
}

fn ctx_location(arch: u16, c: &Ctx) -> Loc {
    // for architectures without a context format an x86-shaped blob is written: it must be ignored
    let fallback = |ip: u64, bad: bool| context_bytes(0, ip, bad).unwrap();
    let bytes = |ip: u64, bad: bool| context_bytes(arch, ip, bad).unwrap_or_else(|| fallback(ip, bad));
    match c {
        Ctx::R(ip) => Loc::Section { sec: Section::with_endian(LE).append_bytes(&bytes(*ip, false)), cite_size: None },
        Ctx::U(0) => Loc::Zero,
        Ctx::U(1) => Loc::Outside(bytes(0, false).len() as u32),
        Ctx::U(2) => {
            let b = bytes(0x4444, false);
            let n = b.len() as u32 - 1;
            Loc::Section { sec: Section::with_endian(LE).append_bytes(&b), cite_size: Some(n) }
        }
        Ctx::U(3) => Loc::Section { sec: Section::with_endian(LE).append_bytes(&bytes(0x5555, true)), cite_size: None },
        Ctx::U(_) => Loc::Section { sec: Section::with_endian(LE).append_bytes(&bytes(0x6666, false)), cite_size: Some(0) },
    }
}

/// append the location descriptor to `entry`, and the context bytes (if any) to the dump
fn cite_ctx(mut dump: synth::SynthMinidump, entry: Section, loc: Loc) -> (synth::SynthMinidump, Section) {
    match loc {
        Loc::Zero => (dump, entry.D32(0).D32(0)),
        Loc::Outside(size) => (dump, entry.D32(size).D32(0xffff_fff0u32)),
        Loc::Section { sec, cite_size } => {
            let entry = match cite_size {
                None => entry.cite_location(&sec),
                Some(n) => entry.D32(n).D32(sec.file_offset()),
            };
            dump = dump.add(sec);
            (dump, entry)
        }
    }
}

fn build_dump(c: &Case) -> Vec<u8> {
    let mut dump = synth::SynthMinidump::with_endian(LE);
    dump = dump.add_system_info(
        synth::SystemInfo::new(LE).set_processor_architecture(c.cpu).set_platform_id(c.os),
    );
    // thread list (raw entries: no stack memory, explicit context location)
    if let Some(threads) = &c.th {
        let mut list = synth::ListStream::<Section>::new(md::MINIDUMP_STREAM_TYPE::ThreadListStream, LE);
        for (id, ctx) in threads {
            let entry = Section::with_endian(LE)
                .D32(*id)
                .D32(0) // suspend_count
                .D32(0) // priority_class
                .D32(0) // priority
                .D64(0) // teb
                .D64(0) // stack.start_of_memory_range
                .D32(0) // stack.memory.data_size
                .D32(0); // stack.memory.rva
            let (d, entry) = cite_ctx(dump, entry, ctx_location(c.cpu, ctx));
            dump = d;
            list = list.add(entry);
        }
        dump = dump.add_stream(list);
    }
    if let Some(names) = &c.nm {
        let mut list = synth::ListStream::<Section>::new(md::MINIDUMP_STREAM_TYPE::ThreadNamesStream, LE);
        for (id, name) in names {
            let entry = Section::with_endian(LE).D32(*id);
            let entry = match name {
                Some(n) => {
                    let s = synth::DumpString::new(n, LE);
                    let e = entry.D64(s.file_offset());
                    dump = dump.add(s);
                    e
                }
                None => entry.D64(0xffff_ffff_ffff_ffffu64),
            };
            list = list.add(entry);
        }
        dump = dump.add_stream(list);
    }
    if let Some((v, d, r)) = c.bp {
        dump = dump.add_stream(synth::SimpleStream {
            stream_type: md::MINIDUMP_STREAM_TYPE::BreakpadInfoStream as u32,
            section: Section::with_endian(LE).D32(v).D32(d).D32(r),
        });
    }
    match &c.ex {
        ExcSpec::None => {}
        ExcSpec::Short => {
            dump = dump.add_stream(synth::SimpleStream {
                stream_type: md::MINIDUMP_STREAM_TYPE::ExceptionStream as u32,
                section: Section::with_endian(LE).D32(1).D32(0).D32(0xc0000005u32),
            });
        }
        ExcSpec::Some(e) => {
            let mut s = Section::with_endian(LE)
                .D32(e.tid)
                .D32(0)
                .D32(e.code)
                .D32(e.flags)
                .D64(0)
                .D64(e.addr)
                .D32(e.np)
                .D32(0);
            for i in 0..15u64 {
                s = s.D64(match i {
                    0 => e.p0,
                    1 => e.p1,
                    2 => e.p2,
                    _ => 0xdead_0000 + i,
                });
            }
            let (d, s) = cite_ctx(dump, s, ctx_location(c.cpu, &e.ctx));
            dump = d.add_stream(synth::SimpleStream {
                stream_type: md::MINIDUMP_STREAM_TYPE::ExceptionStream as u32,
                section: s,
            });
        }
    }
    match &c.mi {
        MiscSpec::None => {}
        MiscSpec::Short => {
            dump = dump.add_stream(synth::SimpleStream {
                stream_type: md::MINIDUMP_STREAM_TYPE::MiscInfoStream as u32,
                section: Section::with_endian(LE).D32(8).D32(3),
            });
        }
        MiscSpec::Some { flags, pid, ctime, ver } => {
            let size = match ver {
                1 => md::MINIDUMP_MISC_INFO::size_with(&scroll::LE),
                2 => md::MINIDUMP_MISC_INFO_2::size_with(&scroll::LE),
                3 => md::MINIDUMP_MISC_INFO_3::size_with(&scroll::LE),
                4 => md::MINIDUMP_MISC_INFO_4::size_with(&scroll::LE),
                _ => md::MINIDUMP_MISC_INFO_5::size_with(&scroll::LE),
            };
            let s = Section::with_endian(LE)
                .D32(size as u32)
                .D32(*flags)
                .D32(*pid)
                .D32(*ctime)
                .D32(7) // user time
                .D32(9) // kernel time
                .append_repeated(0, size - 24);
            dump = dump.add_stream(synth::SimpleStream {
                stream_type: md::MINIDUMP_STREAM_TYPE::MiscInfoStream as u32,
                section: s,
            });
        }
    }
    if let Some(st) = &c.st {
        let mut text = String::new();
        for (k, v) in st {
            let _ = write!(text, "{k}:\t{v}\n");
        }
        dump = dump.set_linux_proc_status(text.as_bytes());
    }
    for m in &c.mo {
        let name = synth::DumpString::new(&m.name, LE);
        dump = dump.add_module(synth::Module::new(LE, m.base, m.size, &name, 0, 0, None)).add(name);
    }
    for m in &c.um {
        let name = synth::DumpString::new(&m.name, LE);
        dump = dump.add_unloaded_module(synth::UnloadedModule::new(LE, m.base, m.size, &name, 0, 0)).add(name);
    }
    let mut bytes = dump.finish().expect("synth dump");
    bytes[20..24].copy_from_slice(&c.ts.to_le_bytes());
    bytes
}

// --------------------------------------------------------------------------------- execution

fn opt<T: std::fmt::Display>(o: Option<T>) -> String {
    match o {
        Some(v) => v.to_string(),
        None => "-".to_string(),
    }
}

fn secs(t: std::time::SystemTime) -> Option<u64> {
    t.duration_since(std::time::UNIX_EPOCH).ok().map(|d| d.as_secs())
}

fn reason_tag(r: &CrashReason) -> String {
    format!("{r:?}").replace(' ', "")
}

struct Seen {
    out: String,
    state: Option<minidump_processor::ProcessState>,
}

fn run_impl(c: &Case) -> Seen {
    let bytes = build_dump(c);
    let dump = match Minidump::read(bytes) {
        Ok(d) => d,
        Err(e) => return Seen { out: format!("err:read:{e:?}"), state: None },
    };
    let provider = minidump_unwind::Symbolizer::new(minidump_unwind::string_symbol_supplier(Default::default()));
    let rt = tokio::runtime::Builder::new_current_thread().build().expect("tokio runtime");
    let res = rt.block_on(minidump_processor::process_minidump(&dump, &provider));
    let state = match res {
        Ok(s) => s,
        Err(e) => return Seen { out: format!("err:{}", e.name()), state: None },
    };
    let mut out = String::from("threads:");
    for (i, t) in state.threads.iter().enumerate() {
        if i > 0 {
            out.push(';');
        }
        let info = match t.info {
            minidump_unwind::CallStackInfo::Ok => "ok",
            minidump_unwind::CallStackInfo::MissingContext => "missing",
            minidump_unwind::CallStackInfo::DumpThreadSkipped => "skipped",
            _ => "other",
        };
        let mut offs: Vec<String> = vec![];
        let mut extra = String::new();
        if let Some(f) = t.frames.first() {
            for (name, set) in &f.unloaded_modules {
                offs.push(format!("{}={}", name, set.iter().map(|o| o.to_string()).collect::<Vec<_>>().join("+")));
            }
        }
        if t.frames.len() > 1 {
            let _ = write!(extra, "/frames={}", t.frames.len());
        }
        let _ = write!(
            out,
            "{}/{}/{}/{}/{}{}",
            t.thread_id,
            t.thread_name.as_deref().unwrap_or("-"),
            info,
            opt(t.frames.first().map(|f| f.instruction)),
            offs.join("&"),
            extra
        );
    }
    let _ = write!(out, " req:{}", opt(state.requesting_thread));
    match &state.exception_info {
        Some(e) => {
            let _ = write!(out, " exc:{} addr:{}", reason_tag(&e.reason), e.address.0);
        }
        None => out.push_str(" exc:- addr:-"),
    }
    let _ = write!(
        out,
        " pid:{} ctime:{} time:{}",
        opt(state.process_id),
        opt(state.process_create_time.and_then(secs)),
        opt(secs(state.time))
    );
    let ml = |it: Vec<(u64, u64, String)>| {
        it.iter().map(|(b, s, n)| format!("{b}:{s}:{n}")).collect::<Vec<_>>().join(",")
    };
    let _ = write!(
        out,
        " mods:{} umods:{}",
        ml(state.modules.iter().map(|m| (m.base_address(), m.size(), m.code_file().to_string())).collect()),
        ml(state.unloaded_modules.iter().map(|m| (m.base_address(), m.size(), m.code_file().to_string())).collect())
    );
    Seen { out, state: Some(state) }
}

// ------------------------------------------------------------------------------------ oracle
// The property, re-stated independently of the Lean model, on the implementation's ProcessState.

fn arch_has_context(arch: u16) -> bool {
    context_bytes(arch, 0, false).is_some()
}

fn oracle(c: &Case, seen: &Seen) -> Vec<(String, String)> {
    let mut bad: Vec<(String, String)> = vec![];
    let mut fail = |class: &str, detail: String| bad.push((class.to_string(), detail));
    let Some(threads) = &c.th else {
        if seen.out != "err:MissingThreadList" {
            fail("no-thread-list-not-reported", seen.out.clone());
        }
        return bad;
    };
    let Some(st) = &seen.state else {
        fail("processable-dump-rejected", seen.out.clone());
        return bad;
    };
    // 1. exactly one call stack per thread-list entry, in order, same ids and names
    if st.threads.len() != threads.len() {
        fail("stack-count", format!("{} stacks for {} threads", st.threads.len(), threads.len()));
        return bad;
    }
    let dump_id = c.bp.and_then(|(v, d, _)| if v & 1 != 0 { Some(d) } else { None });
    let bp_req = c.bp.and_then(|(v, _, r)| if v & 2 != 0 { Some(r) } else { None });
    let exc = match &c.ex {
        ExcSpec::Some(e) => Some(e),
        _ => None,
    };
    let name_of = |id: u32| -> Option<&str> {
        c.nm.as_ref()?.iter().rev().find(|(i, n)| *i == id && n.is_some()).and_then(|(_, n)| n.as_deref())
    };
    for (i, ((id, _), s)) in threads.iter().zip(st.threads.iter()).enumerate() {
        if s.thread_id != *id {
            fail("stack-order-or-id", format!("stack {i} has id {} but thread {i} has id {id}", s.thread_id));
        }
        if s.thread_name.as_deref() != name_of(*id) {
            let class = if Some(*id) == dump_id { "dump-thread-name-dropped" } else { "thread-name" };
            fail(class, format!("stack {i} (id {id}) is named {:?}, the names stream says {:?}", s.thread_name, name_of(*id)));
        }
    }
    // 2. requesting thread: the non-dump-writer thread named by the exception record, else Breakpad's
    let rid = match exc {
        Some(e) => Some(e.tid),
        None => bp_req,
    };
    let expect_req = threads.iter().rposition(|(id, _)| Some(*id) == rid && Some(*id) != dump_id);
    if st.requesting_thread != expect_req {
        fail("requesting-thread", format!("requesting_thread = {:?}, expected {:?}", st.requesting_thread, expect_req));
    }
    if let Some(r) = st.requesting_thread {
        if r >= threads.len() || Some(threads[r].0) == dump_id {
            fail("requesting-thread-is-dump-thread", format!("requesting_thread = {r}"));
        }
    }
    // 3. the walk starts from the exception's context when one can be read
    let readable = |x: &Ctx| match x {
        Ctx::R(ip) if arch_has_context(c.cpu) => Some(*ip),
        _ => None,
    };
    for (i, ((id, tctx), s)) in threads.iter().zip(st.threads.iter()).enumerate() {
        let skipped = Some(*id) == dump_id;
        let is_req = !skipped && Some(*id) == rid;
        let expect = if skipped {
            None
        } else if is_req {
            exc.and_then(|e| readable(&e.ctx)).or(readable(tctx))
        } else {
            readable(tctx)
        };
        let got = s.frames.first().map(|f| f.instruction);
        if got != expect {
            let class = if is_req { "context-preference" } else { "thread-context" };
            fail(class, format!("stack {i}: first frame instruction {got:?}, expected {expect:?}"));
        }
        let info_ok = match (&s.info, skipped, expect) {
            (minidump_unwind::CallStackInfo::DumpThreadSkipped, true, _) => true,
            (minidump_unwind::CallStackInfo::Ok, false, Some(_)) => true,
            (minidump_unwind::CallStackInfo::MissingContext, false, None) => true,
            _ => false,
        };
        if !info_ok {
            fail("stack-info", format!("stack {i}: info {:?}", s.info));
        }
        // 7. unloaded modules with per-frame offsets
        if let Some(f) = s.frames.first() {
            let a = f.instruction;
            let valid = |m: &Mod| m.size != 0 && (m.size as u64) <= u64::MAX - m.base;
            let in_loaded = f.module.is_some();
            let ums: &[Mod] = if c.um.iter().all(valid) { &c.um } else { &[] };
            let mut want: BTreeMap<String, std::collections::BTreeSet<u64>> = BTreeMap::new();
            if !in_loaded {
                for m in ums {
                    if m.base <= a && a - m.base < m.size as u64 {
                        want.entry(m.name.clone()).or_default().insert(a - m.base);
                    }
                }
            }
            if f.unloaded_modules != want {
                fail("unloaded-offsets", format!("stack {i} at {a}: {:?}, expected {:?}", f.unloaded_modules, want));
            }
            // a frame inside a (valid, non-overlapped) loaded module must be attributed to it
            let covering: Vec<&Mod> = c.mo.iter().filter(|m| valid(m) && m.base <= a && a - m.base < m.size as u64).collect();
            if covering.is_empty() && in_loaded {
                fail("frame-module", format!("stack {i} at {a}: attributed to a module that does not cover it"));
            }
        }
    }
    // 4. crash address: documented function of the record, OS and CPU; zero-extended on 32-bit CPUs
    let os = Os::from_platform_id(c.os);
    let cpu = Cpu::from_processor_architecture(c.cpu);
    match (exc, &st.exception_info) {
        (None, None) => {}
        (Some(e), Some(info)) => {
            // 0xc0000005 / 0xc0000006 are EXCEPTION_ACCESS_VIOLATION / EXCEPTION_IN_PAGE_ERROR (ntstatus.h)
            let raw = if os == Os::Windows && (e.code == 0xc000_0005 || e.code == 0xc000_0006) && e.np >= 2 {
                e.p1
            } else {
                e.addr
            };
            let want = if cpu.pointer_width() == PointerWidth::Bits32 { raw & 0xffff_ffff } else { raw };
            if info.address.0 != want {
                let class = if cpu.pointer_width() == PointerWidth::Bits32 && info.address.0 > 0xffff_ffff {
                    "crash-address-not-zero-extended"
                } else {
                    "crash-address"
                };
                fail(class, format!("crash address {:#x}, expected {:#x}", info.address.0, want));
            }
            // 5. the reason's family belongs to the operating system
            let tag = reason_tag(&info.reason);
            let fam_ok = match os {
                Os::Windows => tag.starts_with("Windows"),
                Os::MacOs | Os::Ios => tag.starts_with("Mac") || tag.starts_with("Unknown("),
                Os::Linux | Os::Android => tag.starts_with("Linux") || tag.starts_with("Unknown("),
                _ => tag.starts_with("Unknown("),
            };
            if !fam_ok {
                fail("reason-family", format!("{tag} on {os:?}"));
            }
            if tag.starts_with("Unknown(") && tag != format!("Unknown({},{})", e.code, e.flags) {
                fail("reason-unknown-fields", tag.clone());
            }
            // the reason is the documented function of record, OS and CPU
            if let Some(want) = expected_reason(e, os, cpu) {
                if tag != want {
                    fail("reason", format!("reason {tag}, documented {want} (os {os:?}, cpu {cpu:?})"));
                }
            }
            let cls = match os {
                Os::Windows => 'W',
                Os::Linux | Os::Android => 'L',
                Os::MacOs | Os::Ios => 'M',
                _ => '-',
            };
            for (c, code, flags, want) in DOCUMENTED {
                if *c == cls && *code == e.code && (*flags == e.flags || cls == 'W') && tag != *want {
                    fail("reason-documented-constant", format!("reason {tag} for code {code:#x} flags {flags:#x}, the platform ABI says {want}"));
                }
            }
            if cls == 'W' && e.code == 0xc000_0005 && e.np >= 1 {
                let want = match e.p0 {
                    0 => Some("WindowsAccessViolation(READ)"),
                    1 => Some("WindowsAccessViolation(WRITE)"),
                    8 => Some("WindowsAccessViolation(EXEC)"),
                    _ => None,
                };
                if let Some(w) = want {
                    if tag != w {
                        fail("reason-documented-constant", format!("reason {tag}, the platform ABI says {w}"));
                    }
                }
            }
            if cls == 'W' && e.code == 0xc000_0409 && e.np >= 1 && tag != format!("WindowsStackBufferOverrun({})", e.p0 & 0xffff_ffff) {
                fail("reason-documented-constant", format!("reason {tag} for STATUS_STACK_BUFFER_OVERRUN"));
            }
        }
        (a, b) => fail("exception-info-presence", format!("exception stream {:?}, exception_info {:?}", a.is_some(), b.is_some())),
    }
    // 6. process id and times are those of the streams
    let want_pid = match &c.mi {
        MiscSpec::Some { flags, pid, .. } => {
            if flags & 1 != 0 {
                Some(*pid)
            } else {
                None
            }
        }
        _ => c.st.as_ref().map(|kv| {
            kv.iter().find(|(k, _)| k == "Pid").and_then(|(_, v)| v.parse::<u32>().ok()).unwrap_or(0)
        }),
    };
    if st.process_id != want_pid {
        fail("process-id", format!("{:?}, expected {:?}", st.process_id, want_pid));
    }
    let want_ct = match &c.mi {
        MiscSpec::Some { flags, ctime, .. } if flags & 2 != 0 => Some(*ctime as u64),
        _ => None,
    };
    if st.process_create_time.and_then(secs) != want_ct {
        fail("create-time", format!("{:?}, expected {:?}", st.process_create_time, want_ct));
    }
    if secs(st.time) != Some(c.ts as u64) {
        fail("dump-time", format!("{:?}, expected {}", st.time, c.ts));
    }
    // modules / unloaded modules mirror the streams (entries with an impossible size excepted)
    let valid = |m: &Mod| m.size != 0 && (m.size as u64) <= u64::MAX - m.base;
    let want_mods: Vec<(u64, u64, String)> =
        c.mo.iter().filter(|m| valid(m)).map(|m| (m.base, m.size as u64, m.name.clone())).collect();
    let got_mods: Vec<(u64, u64, String)> =
        st.modules.iter().map(|m| (m.base_address(), m.size(), m.code_file().to_string())).collect();
    if got_mods != want_mods {
        fail("modules-mirror", format!("{got_mods:?}, expected {want_mods:?}"));
    }
    let want_um: Vec<(u64, u64, String)> = if c.um.iter().all(valid) {
        c.um.iter().map(|m| (m.base, m.size as u64, m.name.clone())).collect()
    } else {
        vec![]
    };
    let got_um: Vec<(u64, u64, String)> =
        st.unloaded_modules.iter().map(|m| (m.base_address(), m.size(), m.code_file().to_string())).collect();
    if got_um != want_um {
        fail("unloaded-modules-mirror", format!("{got_um:?}, expected {want_um:?}"));
    }
    bad
}

// ------------------------------------------------------------------- stack-memory selection
// Oracle-only cases `index stackmem cpu=<0|9> esp=<addr|u> ra=<A|B>:<slot>` (processor.rs:1150-1167):
// thread 1 (the exception thread) has stack memory A = [0x10000, +0x200) and its own context with
// sp = A+0x10; the memory list also holds B = [0x20000, +0x200); a module covers [0x400000, +0x1000).
// One return address into the module is stored at word `slot` of region A or B, everything else is 0.
// The exception context (readable unless esp=u) has sp = esp. The walk must use the memory region that
// contains the start context's stack pointer, so the scan finds the return address exactly when it
// lies in that region at or above the stack pointer, within the scan window.

const A_BASE: u64 = 0x10000;
const B_BASE: u64 = 0x20000;
const REG_SIZE: u64 = 0x200;
const RA: u64 = 0x400310;

fn exec_stackmem(case: &str) -> ImplResult {
    let f: Vec<&str> = case.split(' ').filter(|s| !s.is_empty()).collect();
    let bad = || ImplResult { out: "bad-op".into(), oracle: vec![("bad-case".into(), "unparsable stackmem case".into())], ..Default::default() };
    if f.len() != 5 {
        return bad();
    }
    let (Some(cpu), Some(esp), Some(ra)) = (kv(f[2], "cpu"), kv(f[3], "esp"), kv(f[4], "ra")) else {
        return bad();
    };
    let Ok(cpu) = cpu.parse::<u16>() else { return bad() };
    if cpu != 0 && cpu != 9 {
        return bad();
    }
    let esp: Option<u64> = if esp == "u" { None } else { match esp.parse() { Ok(v) => Some(v), Err(_) => return bad() } };
    let Some((reg, slot)) = ra.split_once(':') else { return bad() };
    let Ok(slot) = slot.parse::<u64>() else { return bad() };
    let w: u64 = if cpu == 0 { 4 } else { 8 };
    if (reg != "A" && reg != "B") || (slot + 1) * w > REG_SIZE {
        return bad();
    }
    let region = |with_ra: bool| -> Section {
        let mut s = Section::with_endian(LE);
        for i in 0..(REG_SIZE / w) {
            let v = if with_ra && i == slot { RA } else { 0 };
            s = if w == 4 { s.D32(v as u32) } else { s.D64(v) };
        }
        s
    };
    let mem_a = synth::Memory::with_section(region(reg == "A"), A_BASE);
    let mem_b = synth::Memory::with_section(region(reg == "B"), B_BASE);
    let tsp = A_BASE + 0x10;
    let ctx = |ip: u64, sp: u64| -> Section {
        if cpu == 0 { synth::x86_context(LE, ip as u32, sp as u32) } else { synth::amd64_context(LE, ip, sp) }
    };
    let tctx = ctx(0x400100, tsp);
    let thread = synth::Thread::new(LE, 1, &mem_a, &tctx);
    let name = synth::DumpString::new("mod", LE);
    let mut dump = synth::SynthMinidump::with_endian(LE)
        .add_system_info(synth::SystemInfo::new(LE).set_processor_architecture(cpu).set_platform_id(LINUX))
        .add_module(synth::Module::new(LE, 0x400000, 0x1000, &name, 0, 0, None))
        .add(name)
        .add_thread(thread)
        .add(tctx)
        .add_memory(mem_a)
        .add_memory(mem_b);
    let mut exc = Section::with_endian(LE).D32(1).D32(0).D32(11).D32(1).D64(0).D64(0x1234).D32(0).D32(0);
    for _ in 0..15 {
        exc = exc.D64(0);
    }
    match esp {
        Some(sp) => {
            let ectx = ctx(0x400200, sp);
            exc = exc.cite_location(&ectx);
            dump = dump.add(ectx);
        }
        None => exc = exc.D32(0).D32(0),
    }
    dump = dump.add_stream(synth::SimpleStream { stream_type: md::MINIDUMP_STREAM_TYPE::ExceptionStream as u32, section: exc });
    let bytes = dump.finish().expect("synth dump");
    let md_dump = Minidump::read(bytes).expect("readable dump");
    let provider = minidump_unwind::Symbolizer::new(minidump_unwind::string_symbol_supplier(Default::default()));
    let rt = tokio::runtime::Builder::new_current_thread().build().expect("tokio runtime");
    let state = match rt.block_on(minidump_processor::process_minidump(&md_dump, &provider)) {
        Ok(s) => s,
        Err(e) => return ImplResult { out: format!("err:{}", e.name()), oracle: vec![("processable-dump-rejected".into(), e.name().into())], ..Default::default() },
    };
    let t = &state.threads[0];
    let frames: Vec<String> = t.frames.iter().map(|f| format!("{}@{}", f.instruction, f.context.get_stack_pointer())).collect();
    let out = format!("req:{} frames:{}", opt(state.requesting_thread), frames.join(","));
    // the documented rule
    let start_sp = esp.unwrap_or(tsp);
    let in_reg = |base: u64, a: u64| a >= base && a < base + REG_SIZE;
    let selected: Option<u64> = if in_reg(A_BASE, start_sp) {
        Some(A_BASE)
    } else if in_reg(B_BASE, start_sp) {
        Some(B_BASE)
    } else {
        Some(A_BASE) // fallback: the thread's own stack memory (the walk then stops at once)
    };
    let ra_addr = (if reg == "A" { A_BASE } else { B_BASE }) + slot * w;
    let found = match selected {
        Some(base) => {
            in_reg(base, start_sp)
                && in_reg(base, ra_addr)
                && ra_addr >= start_sp
                && (ra_addr - start_sp) % w == 0
                && (ra_addr - start_sp) / w < 160
        }
        None => false,
    };
    let mut oracle = vec![];
    let first_ip = if esp.is_some() { 0x400200 } else { 0x400100 };
    if t.frames.first().map(|f| (f.instruction, f.context.get_stack_pointer())) != Some((first_ip, start_sp)) {
        oracle.push(("context-preference".to_string(), format!("first frame {:?}, expected ip {first_ip} sp {start_sp}", frames.first())));
    }
    let has_caller = t.frames.len() >= 2;
    if has_caller != found {
        oracle.push((
            "stack-memory-selection".to_string(),
            format!("{} frames; the return address at {ra_addr:#x} {} reachable from sp {start_sp:#x} in the region containing sp", t.frames.len(), if found { "is" } else { "is not" }),
        ));
    }
    if found && has_caller && (t.frames[1].instruction != RA - 1 || t.frames[1].context.get_stack_pointer() != ra_addr + w) {
        oracle.push(("stack-memory-selection".to_string(), format!("caller frame {}, expected {}@{}", frames[1], RA - 1, ra_addr + w)));
    }
    ImplResult {
        out,
        oracle,
        nontrivial: true,
        tags: vec![format!("stackmem:{}", if found { "caller-found" } else { "context-only" })],
    }
}

// --------------------------------------------------------------------------------- generator

/// (value, variant name) literals of the enums in the repository's error tables, read loosely at
/// run time (a second, independent reading of the same files the Lean translator reads strictly).
/// Used to aim the generator at interesting codes and by the oracle's statement of the documented
/// reason function.
type Tables = BTreeMap<String, Vec<(u64, String)>>;

fn source_tables() -> &'static Tables {
    static T: std::sync::OnceLock<Tables> = std::sync::OnceLock::new();
    T.get_or_init(|| {
        let repo = std::env::var("VERIF_REPO").unwrap_or_else(|_| "/repo".to_string());
        let mut out: Tables = BTreeMap::new();
        for f in ["windows.rs", "linux.rs", "macos.rs"] {
            let Ok(text) = std::fs::read_to_string(format!("{repo}/minidump-common/src/errors/{f}")) else {
                continue;
            };
            let mut cur: Option<String> = None;
            for l in text.lines() {
                let t = l.trim();
                if t.starts_with("//") {
                    continue;
                }
                if let Some(rest) = t.strip_prefix("pub enum ") {
                    cur = Some(rest.trim_end_matches('{').trim().to_string());
                } else if t == "}" {
                    cur = None;
                } else if let (Some(e), Some((name, v))) = (&cur, t.split_once(" = ")) {
                    let v = v.trim_end_matches(',').trim_end_matches("u32").trim_end_matches("u64").trim_end_matches("i32");
                    let n = if let Some(h) = v.strip_prefix("0x") { u64::from_str_radix(h, 16).ok() } else { v.parse().ok() };
                    if let Some(n) = n {
                        out.entry(e.clone()).or_default().push((n, name.trim().to_string()));
                    }
                }
            }
        }
        out
    })
}

fn source_codes() -> BTreeMap<String, Vec<u64>> {
    source_tables().iter().map(|(k, v)| (k.clone(), v.iter().map(|e| e.0).collect())).collect()
}

fn look<'a>(en: &str, v: u64) -> Option<&'a str> {
    source_tables().get(en)?.iter().find(|e| e.0 == v).map(|e| e.1.as_str())
}

/// The documented reason function (doc comments of `CrashReason::from_*_exception` and the enum
/// tables), stated independently of the implementation's control flow: returns the expected `{:?}`
/// tag without blanks. `None` when the tables could not be read.
fn expected_reason(e: &Exc, os: Os, cpu: Cpu) -> Option<String> {
    if source_tables().is_empty() {
        return None;
    }
    let code = e.code as u64;
    let flags = e.flags as u64;
    let unknown = format!("Unknown({},{})", e.code, e.flags);
    Some(match os {
        Os::Windows => {
            if let Some(n) = look("ExceptionCodeWindows", code) {
                if n == "EXCEPTION_ACCESS_VIOLATION" && e.np >= 1 {
                    if let Some(ty) = look("ExceptionCodeWindowsAccessType", e.p0) {
                        return Some(format!("WindowsAccessViolation({ty})"));
                    }
                }
                if n == "EXCEPTION_IN_PAGE_ERROR" && e.np >= 3 {
                    if let Some(ty) = look("ExceptionCodeWindowsInPageErrorType", e.p0) {
                        return Some(format!("WindowsInPageError({ty},{})", e.p2 & 0xffff_ffff));
                    }
                }
                format!("WindowsGeneral({n})")
            } else if let Some(n) = look("WinErrorWindows", code) {
                format!("WindowsWinError({n})")
            } else if let Some(n) = look("NtStatusWindows", code) {
                if n == "STATUS_STACK_BUFFER_OVERRUN" && e.np >= 1 {
                    format!("WindowsStackBufferOverrun({})", e.p0 & 0xffff_ffff)
                } else {
                    format!("WindowsNtStatus({n})")
                }
            } else {
                let fac = look("WinErrorFacilityWindows", (code >> 16) & 0xfff);
                let err = look("WinErrorWindows", code & 0xffff);
                match (code & 0xf000_0000 != 0, fac, err) {
                    (true, Some(f), Some(er)) => format!("WindowsWinErrorWithFacility({f},{er})"),
                    _ => format!("WindowsUnknown({})", e.code),
                }
            }
        }
        Os::Linux | Os::Android => match look("ExceptionCodeLinux", code) {
            None => unknown,
            Some(sig) => {
                let refined = ["SIGILL", "SIGTRAP", "SIGFPE", "SIGSEGV", "SIGBUS", "SIGSYS"].contains(&sig);
                // SIGSEGV -> family LinuxSigsegv, table ExceptionCodeLinuxSigsegvKind
                let stem = format!("Sig{}", sig[3..].to_ascii_lowercase());
                match look(&format!("ExceptionCodeLinux{stem}Kind"), flags) {
                    Some(kind) if refined => format!("Linux{stem}({kind})"),
                    _ => format!("LinuxGeneral({sig},{})", e.flags),
                }
            }
        },
        Os::MacOs | Os::Ios => match look("ExceptionCodeMac", code) {
            None => unknown,
            Some(exc) => {
                let cls = match cpu {
                    Cpu::Arm64 => "Arm",
                    Cpu::Ppc => "Ppc",
                    Cpu::X86 | Cpu::X86_64 => "X86",
                    _ => "",
                };
                let general = format!("MacGeneral({exc},{})", e.flags);
                let per_cpu = |stem: &str| -> String {
                    if cls.is_empty() {
                        return general.clone();
                    }
                    match look(&format!("ExceptionCodeMac{stem}{cls}Type"), flags) {
                        Some(ty) => format!("Mac{stem}{cls}({ty})"),
                        None => general.clone(),
                    }
                };
                let top3 = (flags >> 29) & 7;
                match exc {
                    "EXC_BAD_ACCESS" => match look("ExceptionCodeMacBadAccessKernType", flags) {
                        Some(k) => format!("MacBadAccessKern({k})"),
                        None => per_cpu("BadAccess"),
                    },
                    "EXC_BAD_INSTRUCTION" => per_cpu("BadInstruction"),
                    "EXC_ARITHMETIC" => per_cpu("Arithmetic"),
                    "EXC_BREAKPOINT" => per_cpu("Breakpoint"),
                    "EXC_SOFTWARE" => match look("ExceptionCodeMacSoftwareType", flags) {
                        Some(t) => format!("MacSoftware({t})"),
                        None => general,
                    },
                    "EXC_RESOURCE" => match look("ExceptionCodeMacResourceType", top3) {
                        Some(t) => format!("MacResource({t},{},{})", e.p1, e.p2),
                        None => general,
                    },
                    "EXC_GUARD" => match look("ExceptionCodeMacGuardType", top3) {
                        Some(t) => format!("MacGuard({t},{},{})", e.p1, e.p2),
                        None => general,
                    },
                    _ => general,
                }
            }
        },
        _ => unknown,
    })
}

/// Platform-ABI constants that the enum tables document (ntstatus.h, asm-generic/siginfo.h,
/// mach/exception_types.h, kern_return.h): (os class, code, flags, expected tag). Checked by the
/// oracle so that a silently changed table value yields a failing input.
/// os class: 'W' Windows, 'L' Linux/Android, 'M' macOS/iOS (any CPU unless the tag is CPU specific).
const DOCUMENTED: &[(char, u32, u32, &str)] = &[
    ('L', 11, 1, "LinuxSigsegv(SEGV_MAPERR)"),
    ('L', 11, 2, "LinuxSigsegv(SEGV_ACCERR)"),
    ('L', 7, 1, "LinuxSigbus(BUS_ADRALN)"),
    ('L', 7, 2, "LinuxSigbus(BUS_ADRERR)"),
    ('L', 4, 1, "LinuxSigill(ILL_ILLOPC)"),
    ('L', 4, 2, "LinuxSigill(ILL_ILLOPN)"),
    ('L', 8, 1, "LinuxSigfpe(FPE_INTDIV)"),
    ('L', 8, 3, "LinuxSigfpe(FPE_FLTDIV)"),
    ('L', 5, 1, "LinuxSigtrap(TRAP_BRKPT)"),
    ('L', 31, 1, "LinuxSigsys(SYS_SECCOMP)"),
    ('L', 6, 0, "LinuxGeneral(SIGABRT,0)"),
    ('L', 9, 0, "LinuxGeneral(SIGKILL,0)"),
    ('L', 13, 0, "LinuxGeneral(SIGPIPE,0)"),
    ('M', 1, 1, "MacBadAccessKern(KERN_INVALID_ADDRESS)"),
    ('M', 1, 2, "MacBadAccessKern(KERN_PROTECTION_FAILURE)"),
    ('M', 10, 0, "Unknown(10,0)"),
    ('M', 5, 0x10002, "MacSoftware(SIGABRT)"),
    ('W', 0x8000_0003, 0, "WindowsGeneral(EXCEPTION_BREAKPOINT)"),
    ('W', 0xc000_001d, 0, "WindowsGeneral(EXCEPTION_ILLEGAL_INSTRUCTION)"),
    ('W', 0xc000_0094, 0, "WindowsGeneral(EXCEPTION_INT_DIVIDE_BY_ZERO)"),
    ('W', 0xc000_00fd, 0, "WindowsGeneral(EXCEPTION_STACK_OVERFLOW)"),
    ('W', 0xc000_0017, 0, "WindowsNtStatus(STATUS_NO_MEMORY)"),
    ('W', 5, 0, "WindowsWinError(ERROR_ACCESS_DENIED)"),
    ('W', 0xe06d_7363, 0, "WindowsGeneral(UNHANDLED_CPP_EXCEPTION)"),
];

const PLATFORMS: &[u32] = &[0, 1, 2, 3, 4, 0x8000, 0x8101, 0x8102, 0x8201, 0x8202, 0x8203, 0x8204, 0x8205, 0x8206, 77, 0xffff_ffff];
const ARCHS: &[u16] = &[0, 1, 2, 3, 4, 5, 6, 7, 8, 9, 10, 11, 12, 0x8001, 0x8002, 0x8003, 0x8004, 0x8005, 0xffff];
const WIN: u32 = 3;
const MAC: u32 = 0x8101;
const LINUX: u32 = 0x8201;

fn minimal(os: u32, cpu: u16, e: Exc) -> Case {
    Case {
        ts: 1,
        os,
        cpu,
        th: Some(vec![(e.tid, Ctx::R(4096))]),
        nm: None,
        bp: None,
        ex: ExcSpec::Some(e),
        mi: MiscSpec::None,
        st: None,
        mo: vec![],
        um: vec![],
    }
}

fn pick_u64(rng: &mut Rng) -> u64 {
    match rng.below(8) {
        0 => 0,
        1 => rng.below(0x1_0000),
        2 => 0xffff_ffff_0000_0000 | rng.below(0x1_0000_0000), // sign-extended 32-bit value
        3 => rng.below(0x1_0000_0000),
        4 => u64::MAX - rng.below(4),
        5 => 0xffff_ffff + rng.below(3),
        _ => rng.next(),
    }
}

fn gen_random(rng: &mut Rng, codes: &BTreeMap<String, Vec<u64>>, big: bool) -> Case {
    let os = if rng.chance(3, 4) { *rng.pick(&[1, 2, 3, MAC, 0x8102, LINUX, 0x8203]) } else { *rng.pick(PLATFORMS) };
    let cpu = if rng.chance(3, 4) { *rng.pick(&[0, 9, 5, 12, 3, 1, 0x8001, 0x8002, 0x8003, 10]) } else { *rng.pick(ARCHS) };
    let is32ctx = matches!(cpu, 0 | 10 | 3 | 5);
    let n = if big {
        rng.range(7, 32)
    } else {
        *rng.pick(&[0, 1, 1, 2, 2, 3, 3, 4, 5, 6])
    } as usize;
    let pool: Vec<u32> = match rng.below(4) {
        0 => vec![1, 2, 3],
        1 => vec![0, 1, 2, 3, 4, 5, 6, 7],
        2 => vec![7, 0xffff_ffff, 0x8000_0000, 100],
        _ => (1..=(n as u32 + 2)).collect(),
    };
    let gen_ctx = |rng: &mut Rng, salt: u64| -> Ctx {
        if rng.chance(1, 4) {
            Ctx::U(rng.below(5) as u8)
        } else {
            let ip = 0x1000 * (1 + salt) + rng.below(0x40) * 0x10;
            Ctx::R(if is32ctx { ip & 0xffff_ffff } else if rng.chance(1, 8) { ip | 0x7fff_0000_0000 } else { ip })
        }
    };
    let mut th: Vec<(u32, Ctx)> = vec![];
    for i in 0..n {
        let id = if rng.chance(1, 12) { rng.next() as u32 } else { *rng.pick(&pool) };
        th.push((id, gen_ctx(rng, i as u64)));
    }
    let th = if rng.chance(1, 40) { None } else { Some(th) };
    let ids: Vec<u32> = th.iter().flatten().map(|t| t.0).collect();
    let some_id = |rng: &mut Rng| -> u32 {
        if !ids.is_empty() && rng.chance(4, 5) {
            *rng.pick(&ids)
        } else {
            *rng.pick(&pool) ^ (rng.below(2) as u32 * 0x40)
        }
    };
    let nm = match rng.below(4) {
        0 => None,
        _ => {
            let k = rng.below(n as u64 + 3) as usize;
            let mut v = vec![];
            for j in 0..k {
                let id = some_id(rng);
                let name = if rng.chance(1, 5) { None } else { Some(format!("t{}_{}", id % 1000, j)) };
                v.push((id, name));
            }
            Some(v)
        }
    };
    let bp = if rng.chance(2, 5) {
        None
    } else {
        let v = *rng.pick(&[0u32, 1, 2, 3, 3, 3, 7, 0xffff_fffd, 0xffff_fffe, 4]);
        Some((v, some_id(rng), some_id(rng)))
    };
    let dump_id = bp.map(|b| b.1);
    let ex = match rng.below(20) {
        0..=4 => ExcSpec::None,
        5 => ExcSpec::Short,
        _ => {
            let tid = match rng.below(6) {
                0 => dump_id.unwrap_or(99),
                1 => 0xdead_beef,
                _ => some_id(rng),
            };
            let (code, flags) = gen_code_flags(rng, os, codes);
            let np = *rng.pick(&[0u32, 1, 2, 2, 3, 3, 4, 15, 16, 0xffff_ffff]);
            let p0 = *rng.pick(&[0u64, 1, 8, 2, 0x1_0000_0000, 0x1_0000_0001, u64::MAX]);
            ExcSpec::Some(Exc {
                tid,
                code,
                flags,
                addr: pick_u64(rng),
                np,
                p0: if rng.chance(1, 6) { rng.next() } else { p0 },
                p1: pick_u64(rng),
                p2: if rng.chance(1, 2) { *rng.pick(codes.get("NtStatusWindows").map(|v| v.as_slice()).unwrap_or(&[0xc000_000e])) | (rng.below(2) << 32) } else { pick_u64(rng) },
                ctx: gen_ctx(rng, 200),
            })
        }
    };
    let mi = match rng.below(8) {
        0..=2 => MiscSpec::None,
        3 => MiscSpec::Short,
        _ => MiscSpec::Some {
            flags: if rng.chance(3, 4) { rng.below(4) as u32 } else { rng.next() as u32 },
            pid: if rng.chance(1, 4) { 0 } else { rng.next() as u32 },
            ctime: if rng.chance(1, 4) { 0 } else { rng.next() as u32 },
            ver: rng.range(1, 5) as u8,
        },
    };
    let st = match rng.below(6) {
        0..=2 => None,
        3 => Some(vec![]),
        _ => {
            let mut v = vec![("Name".to_string(), "crasher".to_string())];
            let k = rng.below(3);
            for _ in 0..k {
                let val = match rng.below(7) {
                    0 => "abc".to_string(),
                    1 => "4294967296".to_string(),
                    2 => "4294967295".to_string(),
                    3 => format!("+{}", rng.below(1000)),
                    4 => "-5".to_string(),
                    _ => rng.below(100_000).to_string(),
                };
                v.push((rng.pick(&["Pid", "Pid", "Tgid", "PPid", "pid"]).to_string(), val));
            }
            Some(v)
        }
    };
    // modules placed around the instruction pointers in use
    let ips: Vec<u64> = th
        .iter()
        .flatten()
        .filter_map(|t| if let Ctx::R(ip) = t.1 { Some(ip) } else { None })
        .chain(match &ex {
            ExcSpec::Some(Exc { ctx: Ctx::R(ip), .. }) => Some(*ip),
            _ => None,
        })
        .collect();
    let gen_mods = |rng: &mut Rng, prefix: &str, max: u64| -> Vec<Mod> {
        let k = rng.below(max + 1);
        let mut v = vec![];
        for j in 0..k {
            let anchor = if !ips.is_empty() && rng.chance(4, 5) { *rng.pick(&ips) } else { rng.below(0x10000) };
            let back = rng.below(0x300);
            let base = anchor.saturating_sub(back);
            let size = match rng.below(10) {
                0 => 0,
                1 => back as u32, // ends just below the anchor
                2 => back as u32 + 1,
                _ => (back + rng.below(0x400)) as u32,
            };
            let (base, size) = if rng.chance(1, 25) { (u64::MAX - rng.below(16), rng.below(32) as u32) } else { (base, size) };
            let name = if rng.chance(1, 4) { format!("{prefix}same") } else { format!("{prefix}{j}") };
            v.push(Mod { base, size, name });
        }
        v
    };
    let mo = gen_mods(rng, "m", 2);
    let um = gen_mods(rng, "u", 4);
    Case { ts: rng.next() as u32, os, cpu, th, nm, bp, ex, mi, st, mo, um }
}

fn gen_code_flags(rng: &mut Rng, os: u32, codes: &BTreeMap<String, Vec<u64>>) -> (u32, u32) {
    let from = |rng: &mut Rng, names: &[&str]| -> u64 {
        let n = *rng.pick(names);
        match codes.get(n) {
            Some(v) if !v.is_empty() => *rng.pick(v),
            _ => rng.below(64),
        }
    };
    let near = |rng: &mut Rng, v: u64| -> u32 {
        match rng.below(10) {
            0 => v.wrapping_add(1) as u32,
            1 => v.wrapping_sub(1) as u32,
            _ => v as u32,
        }
    };
    let r = rng.below(10);
    if r == 0 {
        return (rng.next() as u32, rng.next() as u32);
    }
    match os {
        1 | 2 | 3 => {
            let code = match rng.below(8) {
                0 | 1 => *rng.pick(&[0xc000_0005u64, 0xc000_0006, 0xc000_0409]),
                2 => from(rng, &["ExceptionCodeWindows"]),
                3 => from(rng, &["WinErrorWindows"]),
                4 => from(rng, &["NtStatusWindows"]),
                5 => (*rng.pick(&[0x8000_0000u64, 0xc000_0000, 0x1000_0000, 0])) | (*rng.pick(&[109u64, 108, 110, 0]) << 16) | from(rng, &["WinErrorWindows"]) & 0xffff,
                _ => from(rng, &["ExceptionCodeWindows", "WinErrorWindows", "NtStatusWindows"]),
            };
            (near(rng, code), rng.below(3) as u32)
        }
        MAC | 0x8102 => {
            let code = from(rng, &["ExceptionCodeMac"]);
            let flags = match rng.below(6) {
                0 => rng.below(16),
                1 => (rng.below(8) << 29) | rng.below(0x100),
                _ => from(
                    rng,
                    &[
                        "ExceptionCodeMacBadAccessKernType",
                        "ExceptionCodeMacBadAccessArmType",
                        "ExceptionCodeMacBadAccessPpcType",
                        "ExceptionCodeMacBadAccessX86Type",
                        "ExceptionCodeMacBadInstructionArmType",
                        "ExceptionCodeMacBadInstructionPpcType",
                        "ExceptionCodeMacBadInstructionX86Type",
                        "ExceptionCodeMacArithmeticArmType",
                        "ExceptionCodeMacArithmeticPpcType",
                        "ExceptionCodeMacArithmeticX86Type",
                        "ExceptionCodeMacSoftwareType",
                        "ExceptionCodeMacBreakpointArmType",
                        "ExceptionCodeMacBreakpointPpcType",
                        "ExceptionCodeMacBreakpointX86Type",
                    ],
                ),
            };
            (near(rng, code), near(rng, flags))
        }
        _ => {
            let code = from(rng, &["ExceptionCodeLinux"]);
            let flags = match rng.below(4) {
                0 => from(rng, &["ExceptionCodeLinuxSicode"]),
                _ => rng.below(11),
            };
            (near(rng, code), near(rng, flags))
        }
    }
}

fn exc0(code: u32, flags: u32) -> Exc {
    Exc { tid: 1, code, flags, addr: 0x1234, np: 3, p0: 1, p1: 0xffff_ffff_8000_0010, p2: 0x1_c000_000e, ctx: Ctx::U(0) }
}

impl Engine for Index {
    fn name(&self) -> &'static str {
        "index"
    }
    fn rule(&self) -> String {
        "abstract dump descriptions (0..32 threads with duplicate/missing ids, thread names with duplicates and \
         unreadable strings, Breakpad info validity bits, exception stream absent/short/present with thread id \
         absent/present/equal to the dump-writer thread, five kinds of unreadable context for either source, every \
         PlatformId x ProcessorArchitecture value and unknown ones, exception codes/flags from the repository's enum \
         tables and their neighbours and random u32, parameter counts 0..16 and 2^32-1, sign-extended addresses, \
         misc-info flag combinations in all five struct versions, /proc/status streams, loaded/unloaded modules \
         around the frame addresses incl. impossible sizes) are turned into dump bytes with minidump-synth + raw \
         sections and processed by the real process_minidump; the canonical rendering of ProcessState is compared \
         with the Lean model on the same description, and the property oracle (stack per thread in order with ids \
         and names, requesting-thread rule, context preference, crash address incl. zero-extension, reason family \
         per OS, pid/times, module mirrors, unloaded offsets) is evaluated on the implementation alone. Exhaustive \
         part: every literal of the Windows/Linux/macOS exception enums as exception code (and every macOS/Linux \
         sub-code as flags, per CPU class). non-trivial = processed dump with at least one thread and an exception \
         stream or Breakpad info."
            .into()
    }
    fn exhaustive_part(&self) -> Option<String> {
        Some(
            "every discriminant literal of minidump-common/src/errors/{windows,linux,macos}.rs used as exception code \
             (Windows: all of ExceptionCodeWindows/WinErrorWindows/NtStatusWindows; macOS: every code x every sub-code \
             literal x {arm64, ppc, x86, amd64, arm}; Linux: every signal x flags 0..10) — validates the translated \
             tables entry by entry against the real from_u32"
                .into(),
        )
    }

    fn generate(&self, tier: Tier, rng: &mut Rng, emit: &mut dyn FnMut(String)) {
        let codes = source_codes();
        let get = |n: &str| codes.get(n).cloned().unwrap_or_default();
        // --- exhaustive: the enum tables, entry by entry
        for n in ["ExceptionCodeWindows", "WinErrorWindows", "NtStatusWindows"] {
            for v in get(n) {
                emit(minimal(WIN, 9, exc0(v as u32, 0)).line());
            }
        }
        for v in get("WinErrorWindows").iter().step_by(if tier == Tier::Quick { 16 } else { 1 }) {
            for fac in [109u32, 108] {
                emit(minimal(WIN, 0, exc0(0x8000_0000 | (fac << 16) | (*v as u32 & 0xffff), 0)).line());
            }
        }
        let mut mac_flags: Vec<u64> = vec![];
        for (k, v) in &codes {
            if k.starts_with("ExceptionCodeMac") && k != "ExceptionCodeMac" && (k.contains("BadAccess") || k.contains("BadInstruction") || k.contains("Arithmetic") || k.contains("Software") || k.contains("Breakpoint")) {
                mac_flags.extend(v);
            }
        }
        for t in 0..8u64 {
            mac_flags.push(t << 29);
            mac_flags.push((t << 29) | 0x1234);
        }
        mac_flags.extend([0u64, 0x1000, 0xffff_ffff]);
        mac_flags.sort();
        mac_flags.dedup();
        let mut mac_codes = get("ExceptionCodeMac");
        mac_codes.extend([0, 10, 13]);
        for cpu in [12u16, 3, 0, 9, 5] {
            for code in &mac_codes {
                for fl in &mac_flags {
                    emit(minimal(MAC, cpu, exc0(*code as u32, *fl as u32)).line());
                }
            }
        }
        let mut linux_codes = get("ExceptionCodeLinux");
        linux_codes.extend([0, 32, 64]);
        for code in &linux_codes {
            for fl in 0..=10u32 {
                emit(minimal(LINUX, 9, exc0(*code as u32, fl)).line());
            }
        }
        // --- every OS x CPU with one Windows, one mac and one Linux shaped record
        for os in PLATFORMS {
            for cpu in ARCHS {
                for (code, flags) in [(0xc000_0005u32, 0u32), (1, 2), (11, 1)] {
                    let mut e = exc0(code, flags);
                    e.ctx = Ctx::R(0x7000);
                    e.np = 2;
                    let mut c = minimal(*os, *cpu, e);
                    c.th = Some(vec![(2, Ctx::R(0x1000)), (1, Ctx::R(0x2000)), (1, Ctx::U(3))]);
                    emit(c.line());
                }
            }
        }
        // --- misc-info flag combinations x versions x status presence
        for flags in [0u32, 1, 2, 3, 4, 0xffff_fffc, 0xffff_ffff] {
            for ver in 1..=5u8 {
                for st in [None, Some(vec![("Pid".to_string(), "77".to_string())])] {
                    let mut c = minimal(LINUX, 9, exc0(11, 1));
                    c.mi = MiscSpec::Some { flags, pid: 4242, ctime: 1_600_000_000, ver };
                    c.st = st;
                    emit(c.line());
                }
            }
        }
        // --- oracle-only: the stack memory is the region that contains the start context's stack pointer
        for cpu in [0u16, 9] {
            for esp in ["u", "65568", "131072", "131104", "131576", "196608", "66040"] {
                for reg in ["A", "B"] {
                    for slot in [4u64, 8, 40, 62] {
                        emit(format!("index stackmem cpu={cpu} esp={esp} ra={reg}:{slot}"));
                    }
                }
            }
        }
        // --- random
        let n = if tier == Tier::Quick { 40000 } else { 80000 };
        for i in 0..n {
            let big = i % 10 == 0;
            emit(gen_random(rng, &codes, big).line());
        }
    }

    fn model_request(&self, case: &str) -> Option<String> {
        // `index stackmem ..` cases are oracle-only (the model does not walk stacks)
        if case.starts_with("index stackmem ") {
            None
        } else {
            Some(case.to_string())
        }
    }

    fn exec(&self, case: &str) -> ImplResult {
        if case.starts_with("index stackmem ") {
            return match catch(|| exec_stackmem(case)) {
                Ok(r) => r,
                Err(msg) => ImplResult { out: "PANIC".into(), oracle: vec![("panic".into(), msg)], nontrivial: false, tags: vec!["panic".into()] },
            };
        }
        let Some(c) = parse_case(case) else {
            return ImplResult { out: "bad-op".into(), ..Default::default() };
        };
        let seen = match catch(|| run_impl(&c)) {
            Ok(s) => s,
            Err(msg) => {
                return ImplResult {
                    out: "PANIC".into(),
                    oracle: vec![("panic".into(), msg)],
                    nontrivial: false,
                    tags: vec!["panic".into()],
                }
            }
        };
        let oracle = oracle(&c, &seen);
        let mut tags = vec![];
        let n = c.th.as_ref().map(|t| t.len()).unwrap_or(0);
        tags.push(format!("threads:{}", match n { 0 => "0", 1 => "1", 2..=6 => "2-6", _ => "7-32" }));
        tags.push(format!("os:{:?}", Os::from_platform_id(c.os)).split('(').next().unwrap().to_string());
        tags.push(format!("cpu:{:?}", Cpu::from_processor_architecture(c.cpu)).split('(').next().unwrap().to_string());
        tags.push(format!("exc:{}", match &c.ex { ExcSpec::None => "none", ExcSpec::Short => "short", ExcSpec::Some(_) => "some" }));
        if let Some(st) = &seen.state {
            if let Some(e) = &st.exception_info {
                tags.push(format!("reason:{}", reason_tag(&e.reason).split('(').next().unwrap()));
            }
            tags.push(format!("req:{}", if st.requesting_thread.is_some() { "some" } else { "none" }));
            for t in &st.threads {
                tags.push(format!("info:{:?}", t.info));
                if t.frames.first().is_some_and(|f| !f.unloaded_modules.is_empty()) {
                    tags.push("frame-in-unloaded".into());
                }
                if t.frames.first().is_some_and(|f| f.module.is_some()) {
                    tags.push("frame-in-loaded".into());
                }
            }
            if let (ExcSpec::Some(e), Some(th)) = (&c.ex, &c.th) {
                let dump_id = c.bp.and_then(|(v, d, _)| if v & 1 != 0 { Some(d) } else { None });
                if Some(e.tid) == dump_id {
                    tags.push("exc-thread=dump-thread".into());
                }
                if !th.iter().any(|t| t.0 == e.tid) {
                    tags.push("exc-thread-absent".into());
                }
                if th.iter().filter(|t| t.0 == e.tid).count() > 1 {
                    tags.push("exc-thread-duplicated".into());
                }
                if matches!(e.ctx, Ctx::U(_)) {
                    tags.push("exc-ctx-unreadable".into());
                }
            }
            tags.push(format!("pid:{}", if st.process_id.is_some() { "some" } else { "none" }));
        } else {
            tags.push(format!("result:{}", seen.out));
        }
        let nontrivial = seen.state.is_some() && n > 0 && (matches!(c.ex, ExcSpec::Some(_)) || c.bp.is_some());
        ImplResult { out: seen.out, oracle, nontrivial, tags }
    }

    fn shrink(&self, case: &str, still_fails: &dyn Fn(&str) -> bool) -> String {
        let Some(mut cur) = parse_case(case) else {
            return case.to_string();
        };
        let mut progress = true;
        let mut rounds = 0;
        while progress && rounds < 50 {
            progress = false;
            rounds += 1;
            let mut cands: Vec<Case> = vec![];
            if let Some(th) = &cur.th {
                for i in 0..th.len() {
                    let mut c = cur.clone();
                    c.th.as_mut().unwrap().remove(i);
                    cands.push(c);
                }
            }
            if let Some(nm) = &cur.nm {
                for i in 0..nm.len() {
                    let mut c = cur.clone();
                    c.nm.as_mut().unwrap().remove(i);
                    cands.push(c);
                }
                let mut c = cur.clone();
                c.nm = None;
                cands.push(c);
            }
            for i in 0..cur.mo.len() {
                let mut c = cur.clone();
                c.mo.remove(i);
                cands.push(c);
            }
            for i in 0..cur.um.len() {
                let mut c = cur.clone();
                c.um.remove(i);
                cands.push(c);
            }
            if cur.bp.is_some() {
                let mut c = cur.clone();
                c.bp = None;
                cands.push(c);
            }
            if cur.mi != MiscSpec::None {
                let mut c = cur.clone();
                c.mi = MiscSpec::None;
                cands.push(c);
            }
            if cur.st.is_some() {
                let mut c = cur.clone();
                c.st = None;
                cands.push(c);
            }
            if cur.ex != ExcSpec::None {
                let mut c = cur.clone();
                c.ex = ExcSpec::None;
                cands.push(c);
            }
            if let ExcSpec::Some(e) = &cur.ex {
                for f in 0..5 {
                    let mut e2 = e.clone();
                    match f {
                        0 => e2.p0 = 0,
                        1 => e2.p2 = 0,
                        2 => e2.flags = 0,
                        3 => e2.addr = 0,
                        _ => e2.np = 0,
                    }
                    if e2 != *e {
                        let mut c = cur.clone();
                        c.ex = ExcSpec::Some(e2);
                        cands.push(c);
                    }
                }
            }
            if cur.ts != 0 {
                let mut c = cur.clone();
                c.ts = 0;
                cands.push(c);
            }
            for c in cands {
                if still_fails(&c.line()) {
                    cur = c;
                    progress = true;
                    break;
                }
            }
        }
        cur.line()
    }
}
