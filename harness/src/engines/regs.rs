//! Engine `regs` (C18): every by-name register method of the nine CPU context types
//! (`CpuContext` impls in minidump/src/context.rs and the `MinidumpContext` dispatch) against the
//! Lean model `MdModel.Regs`, which interprets the tables translated from the same source — plus
//! the property's own oracle evaluated on the implementation alone.
//!
//! case line:  `regs <CTX> <valid> <op> <op> …`
//!   CTX    X86 | AMD64 | ARM | ARM64_OLD | ARM64 | PPC | PPC64 | MIPS | SPARC
//!   valid  `all` | `some:` name tokens separated by `,` (duplicate-free, may be empty)
//!   name token: `[A-Za-z0-9_]+` verbatim, anything else `%` + hex(utf-8)   (`%` alone = empty name)
//!   ops (the context starts all-zero; `set` is the only op that changes it):
//!     set:<n>:<hex> geta:<n> get:<n> mget:<n> mgeta:<n> fmt:<n> mfmt:<n> memo:<n> valid:<n>
//!     regs vregs mregs mvregs gpr size sp ip spname ipname names dump
//!   (`m…` = through `MinidumpContext`, the others through `CpuContext`)
//! answer: the op results joined by `;` (a panic inside one op is `PANIC` for that op).

use crate::common::*;
use minidump::{CpuContext, MinidumpContext, MinidumpContextValidity, MinidumpRawContext};
use minidump_common::format as md;
use scroll::ctx::SizeWith;
use scroll::{Pread, Pwrite, LE};
use std::collections::{HashMap, HashSet};
use std::sync::{Arc, Mutex, OnceLock};

pub struct Regs;

const CTXS: &[&str] = &[
    "X86", "AMD64", "ARM", "ARM64_OLD", "ARM64", "PPC", "PPC64", "MIPS", "SPARC",
];

// ------------------------------------------------------------------------------------ names

fn is_plain(s: &str) -> bool {
    !s.is_empty() && s.bytes().all(|b| b.is_ascii_alphanumeric() || b == b'_')
}
fn enc_name(s: &str) -> String {
    if is_plain(s) {
        s.to_string()
    } else if s.is_empty() {
        "%".to_string()
    } else {
        format!("%{}", hex(s.as_bytes()))
    }
}
fn dec_name(t: &str) -> Option<String> {
    if let Some(h) = t.strip_prefix('%') {
        if h.is_empty() {
            return Some(String::new());
        }
        if h == "-" {
            return None;
        }
        let b = unhex(h)?;
        if b.is_empty() {
            return None;
        }
        String::from_utf8(b).ok()
    } else if is_plain(t) {
        Some(t.to_string())
    } else {
        None
    }
}

/// `MinidumpContextValidity::Some` holds `&'static str`: every distinct name is leaked once.
fn intern(s: &str) -> &'static str {
    static POOL: OnceLock<Mutex<HashSet<&'static str>>> = OnceLock::new();
    let mut g = POOL.get_or_init(|| Mutex::new(HashSet::new())).lock().unwrap();
    if let Some(x) = g.get(s) {
        return x;
    }
    let l: &'static str = Box::leak(s.to_string().into_boxed_str());
    g.insert(l);
    l
}

/// candidate names: short alphanumerics, letter+number forms, every spelling used by any context,
/// case variants and near misses. Which of them a context accepts is asked of the implementation.
fn universe() -> &'static Vec<String> {
    static U: OnceLock<Vec<String>> = OnceLock::new();
    U.get_or_init(|| {
        let mut v: Vec<String> = vec![];
        let alpha: Vec<char> = "abcdefghijklmnopqrstuvwxyz0123456789_".chars().collect();
        for a in &alpha {
            v.push(a.to_string());
            for b in &alpha {
                v.push(format!("{a}{b}"));
            }
        }
        for a in 'a'..='z' {
            for n in 10..100 {
                v.push(format!("{a}{n}"));
            }
            for n in 0..10 {
                v.push(format!("{a}0{n}"));
            }
        }
        for n in 0..48 {
            v.push(format!("g_r{n}"));
            v.push(format!("g_r0{n}"));
            v.push(format!("gr{n}"));
        }
        for w in [
            "eip", "esp", "ebp", "ebx", "esi", "edi", "eax", "ecx", "edx", "eflags", "efl", "rax", "rdx", "rcx", "rbx",
            "rsi", "rdi", "rbp", "rsp", "rip", "rflags", "srr0", "srr1", "xer", "ctr", "vrsave", "ccr", "npc", "asi",
            "fprs", "cpsr", "epc", "mdhi", "mdlo", "iregs", "gpr", "g_r", "context_flags", "badvaddr", "status",
            "cause", "dsp_control", "fpscr", "fpsr", "fpcr", "fir", "fpcsr", "zero", "at", "v0", "v1", "a0", "t0", "t9",
            "k0", "k1", "s8", "ra", "gp", "ip", "sl", "sb", "wsp", "xzr", "x31", "x32", "r32", "r16", "o8", "g8", "i8",
            "l8", "o9", "$esp", "$rsp", "$sp", "%rsp", ".cfa", ".ra", "$eip", "", " ", "sp ", " sp", "sp\0", "s p",
            "pc\n", "SP", "PC", "FP", "LR", "EIP", "RSP", "R11", "X29", "X30", "G_R14", "O6", "Sp", "Pc", "é6", "o٦",
            "ｓｐ", "spp", "ssp", "usp", "pcc", "lrr", "fpp", "r011", "x029", "x29 ", "g_r14 ", "g_r_14", "g_r", "gr14",
            "o06", "o-1", "o/", "o8", "g:", "i@", "l`",
        ] {
            v.push(w.to_string());
        }
        // every string literal of the generated Lean tables, as a CANDIDATE spelling only (whether a
        // context accepts it is still asked of the implementation): a table name outside the built-in
        // universe is then probed like any other instead of only showing up in the `names` comparison
        if let Ok(text) = std::fs::read_to_string("lean/MdModel/Gen/Regs.lean") {
            for (i, piece) in text.split('"').enumerate() {
                if i % 2 == 1 && piece.len() <= 24 && !piece.contains('\n') {
                    v.push(piece.to_string());
                }
            }
        }
        v.sort();
        v.dedup();
        v
    })
}

// ------------------------------------------------------------------------------ context types

/// What the engine needs from a raw context type beyond `CpuContext`.
trait Raw: CpuContext + Clone + Sized {
    const NAME: &'static str;
    fn zero() -> Self;
    fn wrap(self) -> MinidumpRawContext;
    fn bytes(&self) -> Vec<u8>;
    /// register-bearing fields in struct order: (cell text, value)
    fn cells(&self) -> Vec<(String, u64)>;
    fn to_u64(r: Self::Register) -> u64;
    fn from_u64(v: u64) -> Option<Self::Register>;
    fn reg_bytes() -> usize {
        std::mem::size_of::<Self::Register>()
    }
}

macro_rules! scalar_cells {
    ($s:expr, $out:expr, $($f:ident),*) => { $( $out.push((stringify!($f).to_string(), $s.$f as u64)); )* };
}
macro_rules! array_cells {
    ($s:expr, $out:expr, $f:ident) => {
        for (i, v) in $s.$f.iter().enumerate() {
            $out.push((format!("{}[{}]", stringify!($f), i), *v as u64));
        }
    };
}

macro_rules! raw_impl {
    ($ty:ty, $name:expr, $variant:ident, $reg:ty, |$s:ident, $out:ident| $cells:block) => {
        impl Raw for $ty {
            const NAME: &'static str = $name;
            fn zero() -> Self {
                let n = <$ty>::size_with(&LE);
                let buf = vec![0u8; n];
                buf.pread_with::<$ty>(0, LE).expect("zero context")
            }
            fn wrap(self) -> MinidumpRawContext {
                MinidumpRawContext::$variant(self)
            }
            fn bytes(&self) -> Vec<u8> {
                let n = <$ty>::size_with(&LE);
                let mut buf = vec![0u8; n];
                buf.pwrite_with(self.clone(), 0, LE).expect("serialise context");
                buf
            }
            fn cells(&self) -> Vec<(String, u64)> {
                let $s = self;
                let mut $out: Vec<(String, u64)> = vec![];
                $cells
                $out
            }
            fn to_u64(r: $reg) -> u64 {
                r as u64
            }
            fn from_u64(v: u64) -> Option<$reg> {
                <$reg>::try_from(v).ok()
            }
        }
    };
}

raw_impl!(md::CONTEXT_X86, "X86", X86, u32, |s, out| {
    scalar_cells!(s, out, edi, esi, ebx, edx, ecx, eax, ebp, eip, eflags, esp);
});
raw_impl!(md::CONTEXT_AMD64, "AMD64", Amd64, u64, |s, out| {
    scalar_cells!(s, out, rax, rcx, rdx, rbx, rsp, rbp, rsi, rdi, r8, r9, r10, r11, r12, r13, r14, r15, rip);
});
raw_impl!(md::CONTEXT_ARM, "ARM", Arm, u32, |s, out| {
    array_cells!(s, out, iregs);
});
raw_impl!(md::CONTEXT_ARM64_OLD, "ARM64_OLD", OldArm64, u64, |s, out| {
    array_cells!(s, out, iregs);
    scalar_cells!(s, out, sp, pc);
});
raw_impl!(md::CONTEXT_ARM64, "ARM64", Arm64, u64, |s, out| {
    array_cells!(s, out, iregs);
    scalar_cells!(s, out, sp, pc);
});
raw_impl!(md::CONTEXT_PPC, "PPC", Ppc, u32, |s, out| {
    scalar_cells!(s, out, srr0, srr1);
    array_cells!(s, out, gpr);
    scalar_cells!(s, out, cr, xer, lr, ctr, mq, vrsave);
});
raw_impl!(md::CONTEXT_PPC64, "PPC64", Ppc64, u64, |s, out| {
    scalar_cells!(s, out, srr0, srr1);
    array_cells!(s, out, gpr);
    scalar_cells!(s, out, cr, xer, lr, ctr, vrsave);
});
raw_impl!(md::CONTEXT_MIPS, "MIPS", Mips, u64, |s, out| {
    array_cells!(s, out, iregs);
    scalar_cells!(s, out, epc);
});
raw_impl!(md::CONTEXT_SPARC, "SPARC", Sparc, u64, |s, out| {
    array_cells!(s, out, g_r);
    scalar_cells!(s, out, ccr, pc, npc, y, asi, fprs);
});

macro_rules! dispatch {
    ($ctx:expr, $f:ident ( $($a:expr),* )) => {
        match $ctx {
            "X86" => Some($f::<md::CONTEXT_X86>($($a),*)),
            "AMD64" => Some($f::<md::CONTEXT_AMD64>($($a),*)),
            "ARM" => Some($f::<md::CONTEXT_ARM>($($a),*)),
            "ARM64_OLD" => Some($f::<md::CONTEXT_ARM64_OLD>($($a),*)),
            "ARM64" => Some($f::<md::CONTEXT_ARM64>($($a),*)),
            "PPC" => Some($f::<md::CONTEXT_PPC>($($a),*)),
            "PPC64" => Some($f::<md::CONTEXT_PPC64>($($a),*)),
            "MIPS" => Some($f::<md::CONTEXT_MIPS>($($a),*)),
            "SPARC" => Some($f::<md::CONTEXT_SPARC>($($a),*)),
            _ => None,
        }
    };
}

/// What the IMPLEMENTATION says about names (asked once per context type over the universe).
struct NameInfo {
    /// names accepted by any of REGISTERS / set_register / memoize_register, sorted
    accepted: Vec<String>,
    /// accepted name -> canonical name (`memoize_register`), None when memoize does not know it
    canon: HashMap<String, Option<&'static str>>,
    registers: Vec<&'static str>,
}

fn name_info<T: Raw>() -> Arc<NameInfo> {
    static CACHE: OnceLock<Mutex<HashMap<&'static str, Arc<NameInfo>>>> = OnceLock::new();
    let cache = CACHE.get_or_init(|| Mutex::new(HashMap::new()));
    if let Some(x) = cache.lock().unwrap().get(T::NAME) {
        return x.clone();
    }
    let zero = T::zero();
    let mut accepted = vec![];
    let mut canon = HashMap::new();
    for n in universe() {
        let one = T::from_u64(1).unwrap();
        let memo = catch(|| zero.memoize_register(n)).unwrap_or(None);
        let set = catch(|| zero.clone().set_register(n, one).is_some()).unwrap_or(true);
        let inreg = T::REGISTERS.contains(&n.as_str());
        if memo.is_some() || set || inreg {
            accepted.push(n.clone());
            canon.insert(n.clone(), memo);
        }
    }
    for r in T::REGISTERS {
        if !canon.contains_key(*r) {
            accepted.push(r.to_string());
            canon.insert(r.to_string(), catch(|| zero.memoize_register(r)).unwrap_or(None));
        }
    }
    accepted.sort();
    let info = Arc::new(NameInfo { accepted, canon, registers: T::REGISTERS.to_vec() });
    cache.lock().unwrap().insert(T::NAME, info.clone());
    info
}

// ------------------------------------------------------------------------------------- cases

#[derive(Clone)]
struct Case {
    ctx: String,
    /// None = All
    valid: Option<Vec<String>>,
    ops: Vec<String>,
}

fn parse_case(case: &str) -> Option<Case> {
    let f: Vec<&str> = case.split(' ').filter(|s| !s.is_empty()).collect();
    if f.len() < 4 || f[0] != "regs" || !CTXS.contains(&f[1]) {
        return None;
    }
    let valid = if f[2] == "all" {
        None
    } else {
        let rest = f[2].strip_prefix("some:")?;
        let mut names = vec![];
        for t in rest.split(',').filter(|t| !t.is_empty()) {
            let n = dec_name(t)?;
            if names.contains(&n) {
                return None;
            }
            names.push(n);
        }
        Some(names)
    };
    Some(Case { ctx: f[1].to_string(), valid, ops: f[3..].iter().map(|s| s.to_string()).collect() })
}

fn render_case(c: &Case) -> String {
    let v = match &c.valid {
        None => "all".to_string(),
        Some(s) => format!("some:{}", s.iter().map(|n| enc_name(n)).collect::<Vec<_>>().join(",")),
    };
    format!("regs {} {} {}", c.ctx, v, c.ops.join(" "))
}

fn hexv(v: u64) -> String {
    format!("{v:x}")
}
fn show_pairs(ps: &[(String, u64)]) -> String {
    if ps.is_empty() {
        "-".into()
    } else {
        ps.iter().map(|(n, v)| format!("{}={:x}", enc_name(n), v)).collect::<Vec<_>>().join(",")
    }
}

/// the oracle's reading of "valid, also through aliases": some element of the set denotes the
/// same register (same canonical name according to the implementation's `memoize_register`)
fn oracle_valid(info: &NameInfo, n: &str, valid: &Option<Vec<String>>) -> Option<bool> {
    let cn = info.canon.get(n)?.as_ref()?;
    match valid {
        None => Some(true),
        Some(s) => {
            let mut any = false;
            for e in s {
                match info.canon.get(e.as_str()) {
                    Some(Some(ce)) => any |= ce == cn,
                    _ => return None, // a foreign name in the set: outside the property's quantifier
                }
            }
            Some(any)
        }
    }
}

/// class of a "should be valid but is not" failure: which kind of set element was overlooked.
///   validity-not-honoured:<CTX>            the set holds the queried name itself
///   validity-missed-canonical-in-set:<CTX> the set holds the canonical (REGISTERS) name of the register
///   validity-missed-alias-in-set:<CTX>     the set only holds another alias of the register
fn missed_class(info: &NameInfo, ctx: &str, n: &str, valid: &Option<Vec<String>>) -> String {
    let s = valid.as_ref().map(|v| v.as_slice()).unwrap_or(&[]);
    let canon = info.canon.get(n).cloned().flatten();
    if s.iter().any(|e| e == n) {
        format!("validity-not-honoured:{ctx}")
    } else if canon.map_or(false, |c| s.iter().any(|e| e == c)) {
        format!("validity-missed-canonical-in-set:{ctx}")
    } else {
        format!("validity-missed-alias-in-set:{ctx}")
    }
}

fn run<T: Raw>(case: &Case) -> ImplResult {
    let mut res = ImplResult::default();
    let info = name_info::<T>();
    let mut raw = T::zero();
    let validity = match &case.valid {
        None => MinidumpContextValidity::All,
        Some(s) => MinidumpContextValidity::Some(s.iter().map(|n| intern(n)).collect()),
    };
    let set_is_known = case.valid.as_ref().map_or(true, |s| s.iter().all(|n| matches!(info.canon.get(n.as_str()), Some(Some(_)))));
    res.tags.push(format!("ctx:{}", T::NAME));
    res.tags.push(match &case.valid {
        None => "valid:all".to_string(),
        Some(s) if s.is_empty() => "valid:empty".to_string(),
        Some(s) if s.len() == 1 => {
            if info.registers.contains(&s[0].as_str()) { "valid:singleton-name".to_string() } else { "valid:singleton-alias-or-other".to_string() }
        }
        Some(_) => "valid:many".to_string(),
    });
    let is_accepted = |n: &str| info.canon.contains_key(n);
    let mut outs: Vec<String> = vec![];
    let mut touched_known = false;
    let mut wrote = false;
    let mut read_after_write = false;
    macro_rules! fail {
        ($class:expr, $($arg:tt)*) => { res.oracle.push(($class.to_string(), format!($($arg)*))) };
    }
    let mdctx = |raw: &T| MinidumpContext { raw: raw.clone().wrap(), valid: validity.clone() };
    for op in &case.ops {
        let parts: Vec<&str> = op.split(':').collect();
        let kind = parts[0];
        res.tags.push(format!("op:{kind}"));
        let name = if parts.len() >= 2 {
            match dec_name(parts[1]) {
                Some(n) => Some(n),
                None => {
                    res.out = "bad-op".into();
                    res.oracle.clear();
                    return res;
                }
            }
        } else {
            None
        };
        if let Some(n) = &name {
            if is_accepted(n) {
                touched_known = true;
                if !info.registers.contains(&n.as_str()) {
                    res.tags.push("name:alias".into());
                }
            } else {
                res.tags.push("name:unknown".into());
            }
        }
        let out: String = match (kind, parts.len()) {
            ("set", 3) => {
                let n = name.clone().unwrap();
                let Some(vv) = u64::from_str_radix(parts[2], 16).ok().filter(|x| T::from_u64(*x).is_some()) else {
                    res.out = "bad-op".into();
                    res.oracle.clear();
                    return res;
                };
                let v = T::from_u64(vv).unwrap();
                let before_bytes = raw.bytes();
                let before: Vec<(String, Result<u64, String>)> = info
                    .accepted
                    .iter()
                    .filter(|m| info.canon[m.as_str()].is_some())
                    .map(|m| (m.clone(), catch(|| T::to_u64(raw.get_register_always(m)))))
                    .collect();
                match catch(|| raw.set_register(&n, v)) {
                    Err(msg) => {
                        fail!("set-panics", "set_register({n:?}) panicked: {msg}");
                        "PANIC".into()
                    }
                    Ok(None) => {
                        if info.canon.get(n.as_str()).map_or(false, |c| c.is_some()) {
                            fail!("named-register-not-settable", "memoize_register knows {n:?} but set_register returns None");
                        }
                        if raw.bytes() != before_bytes {
                            fail!("rejected-set-changes-state", "set_register({n:?}) returned None but changed the context");
                        }
                        "none".into()
                    }
                    Ok(Some(())) => {
                        let cn = info.canon.get(n.as_str()).cloned().flatten();
                        if cn.is_none() {
                            fail!("set-accepts-unnamed", "set_register({n:?}) succeeds but memoize_register({n:?}) is None: the value cannot be read back through get_register");
                        }
                        match catch(|| T::to_u64(raw.get_register_always(&n))) {
                            Ok(got) if got == vv => {}
                            Ok(got) => fail!("set-get-mismatch", "set {n}={vv:x}, get_register_always({n}) = {got:x}"),
                            Err(msg) => fail!("set-get-mismatch", "set {n}={vv:x}, get_register_always({n}) panicked: {msg}"),
                        }
                        if cn.is_some() {
                            match catch(|| raw.get_register(&n, &MinidumpContextValidity::All).map(T::to_u64)) {
                                Ok(Some(got)) if got == vv => {}
                                other => fail!("set-get-mismatch", "set {n}={vv:x}, get_register({n}, All) = {other:?}"),
                            }
                        }
                        for (m, old) in &before {
                            let now = catch(|| T::to_u64(raw.get_register_always(m)));
                            let same_reg = cn.is_some() && info.canon[m.as_str()] == cn;
                            if same_reg {
                                if now != Ok(vv) {
                                    fail!("alias-differs", "after set {n}={vv:x}: alias {m} reads {now:?}");
                                }
                            } else if &now != old {
                                fail!("set-clobbers-other", "after set {n}={vv:x}: {m} changed from {old:?} to {now:?}");
                            }
                        }
                        let after_bytes = raw.bytes();
                        let diff: Vec<usize> = (0..after_bytes.len()).filter(|&i| after_bytes[i] != before_bytes[i]).collect();
                        if let (Some(lo), Some(hi)) = (diff.first(), diff.last()) {
                            if hi - lo >= T::reg_bytes() {
                                fail!("set-touches-foreign-bytes", "set {n}: serialised context differs at bytes {lo}..={hi}, wider than one register");
                            }
                        }
                        wrote = true;
                        "ok".into()
                    }
                }
            }
            ("geta", 2) | ("mgeta", 2) => {
                let n = name.clone().unwrap();
                let r = if kind == "geta" {
                    catch(|| T::to_u64(raw.get_register_always(&n)))
                } else {
                    let c = mdctx(&raw);
                    catch(|| c.get_register_always(&n))
                };
                match r {
                    Ok(v) => hexv(v),
                    Err(msg) => {
                        if info.canon.get(n.as_str()).map_or(false, |c| c.is_some()) {
                            fail!("named-register-unreadable", "{kind}({n:?}) panicked although memoize_register accepts the name: {msg}");
                        }
                        "PANIC".into()
                    }
                }
            }
            ("get", 2) | ("mget", 2) => {
                let n = name.clone().unwrap();
                let r = if kind == "get" {
                    catch(|| raw.get_register(&n, &validity).map(T::to_u64))
                } else {
                    let c = mdctx(&raw);
                    catch(|| c.get_register(&n))
                };
                match &r {
                    Err(msg) => {
                        // a foreign name inside the validity set is outside the property's quantifier
                        if set_is_known {
                            fail!(if is_accepted(&n) { "get-panics" } else { "unknown-name-panics" }, "{kind}({n:?}) panicked: {msg}");
                        }
                    }
                    Ok(got) => {
                        if !is_accepted(&n) {
                            if got.is_some() && set_is_known {
                                fail!("unknown-name-present", "{kind}({n:?}) = {got:?} for a name no table knows");
                            }
                        } else if let Some(want) = oracle_valid(&info, &n, &case.valid) {
                            let always = catch(|| T::to_u64(raw.get_register_always(&n))).ok();
                            match (want, got) {
                                (true, Some(v)) if Some(*v) == always => {}
                                (true, Some(v)) => fail!("get-differs-from-always", "{kind}({n}) = {v:x}, get_register_always = {always:?}"),
                                (false, None) => {}
                                (true, None) => {
                                    fail!(missed_class(&info, T::NAME, &n, &case.valid),
                                        "{kind}({n}) = None although the validity set {:?} names the same register", case.valid.as_ref().unwrap());
                                }
                                (false, Some(v)) => fail!(format!("validity-not-honoured:{}", T::NAME), "{kind}({n}) = {v:x} although no element of {:?} names that register", case.valid.as_ref().unwrap()),
                            }
                        }
                    }
                }
                match r {
                    Ok(Some(v)) => hexv(v),
                    Ok(None) => "none".into(),
                    Err(_) => "PANIC".into(),
                }
            }
            ("fmt", 2) | ("mfmt", 2) => {
                let n = name.clone().unwrap();
                let r = if kind == "fmt" {
                    catch(|| raw.format_register(&n))
                } else {
                    let c = mdctx(&raw);
                    catch(|| c.format_register(&n))
                };
                match r {
                    Ok(s) => {
                        if let Ok(v) = catch(|| T::to_u64(raw.get_register_always(&n))) {
                            let want = format!("0x{:0w$x}", v, w = T::reg_bytes() * 2);
                            if s != want {
                                fail!("format-differs", "{kind}({n}) = {s:?}, value {v:x} at natural width is {want:?}");
                            }
                        }
                        s
                    }
                    Err(_) => "PANIC".into(),
                }
            }
            ("memo", 2) => {
                let n = name.clone().unwrap();
                match catch(|| raw.memoize_register(&n)) {
                    Ok(Some(c)) => {
                        if !info.registers.contains(&c) {
                            fail!("memoize-not-canonical", "memoize_register({n:?}) = {c:?} is not in REGISTERS");
                        }
                        enc_name(c)
                    }
                    Ok(None) => "none".into(),
                    Err(msg) => {
                        fail!("unknown-name-panics", "memoize_register({n:?}) panicked: {msg}");
                        "PANIC".into()
                    }
                }
            }
            ("valid", 2) => {
                let n = name.clone().unwrap();
                match catch(|| raw.register_is_valid(&n, &validity)) {
                    Ok(b) => {
                        if is_accepted(&n) {
                            if let Some(want) = oracle_valid(&info, &n, &case.valid) {
                                if want && !b {
                                    fail!(missed_class(&info, T::NAME, &n, &case.valid),
                                        "register_is_valid({n}) = false although the validity set {:?} names the same register", case.valid);
                                } else if !want && b {
                                    fail!(format!("validity-not-honoured:{}", T::NAME), "register_is_valid({n}) = true although no element of {:?} names that register", case.valid);
                                }
                            }
                        } else if b && set_is_known {
                            fail!("unknown-name-present", "register_is_valid({n:?}) = true for a name no table knows");
                        }
                        if b { "1".into() } else { "0".into() }
                    }
                    Err(msg) => {
                        fail!("unknown-name-panics", "register_is_valid({n:?}) panicked: {msg}");
                        "PANIC".into()
                    }
                }
            }
            ("regs", 1) | ("vregs", 1) | ("mregs", 1) | ("mvregs", 1) => {
                let r: Result<Vec<(String, u64)>, String> = match kind {
                    "regs" => catch(|| raw.registers().map(|(n, v)| (n.to_string(), T::to_u64(v))).collect()),
                    "vregs" => catch(|| raw.valid_registers(&validity).map(|(n, v)| (n.to_string(), T::to_u64(v))).collect()),
                    "mregs" => {
                        let c = mdctx(&raw);
                        catch(|| c.registers().map(|(n, v)| (n.to_string(), v)).collect())
                    }
                    _ => {
                        let c = mdctx(&raw);
                        catch(|| c.valid_registers().map(|(n, v)| (n.to_string(), v)).collect())
                    }
                };
                match r {
                    Err(msg) => {
                        if set_is_known {
                            fail!("enumeration-panics", "{kind} panicked: {msg}");
                        }
                        "PANIC".into()
                    }
                    Ok(mut ps) => {
                        // hash-set iteration order is arbitrary: present in the order of the case's set
                        if kind == "vregs" {
                            if let Some(s) = &case.valid {
                                ps.sort_by_key(|(n, _)| s.iter().position(|x| x == n).unwrap_or(usize::MAX));
                            }
                        }
                        // the enumerations list exactly the named general-purpose registers (that are valid)
                        let want: Option<Vec<String>> = match (kind, &case.valid) {
                            ("regs", _) | ("mregs", _) | (_, None) => Some(info.registers.iter().map(|s| s.to_string()).collect()),
                            ("vregs", Some(s)) => Some(s.clone()),
                            (_, Some(_)) => {
                                if set_is_known {
                                    Some(info.registers.iter().filter(|r| oracle_valid(&info, r, &case.valid) == Some(true)).map(|s| s.to_string()).collect())
                                } else {
                                    None
                                }
                            }
                        };
                        if let Some(want) = want {
                            let got: Vec<String> = ps.iter().map(|(n, _)| n.clone()).collect();
                            if got != want {
                                let missed: Option<&String> = if kind == "mvregs" && got.iter().all(|g| want.contains(g)) { want.iter().find(|w| !got.contains(w)) } else { None };
                                fail!(match missed { Some(w) => missed_class(&info, T::NAME, w, &case.valid), None => "enumeration-differs".to_string() },
                                    "{kind} lists {got:?}, expected exactly {want:?} (validity {:?})", case.valid);
                            }
                        }
                        for (n, v) in &ps {
                            if catch(|| T::to_u64(raw.get_register_always(n))) != Ok(*v) {
                                fail!("enumeration-value-differs", "{kind} yields {n}={v:x}, get_register_always differs");
                            }
                        }
                        show_pairs(&ps)
                    }
                }
            }
            ("gpr", 1) => {
                let c = mdctx(&raw);
                let g = c.general_purpose_registers();
                if g != T::REGISTERS {
                    fail!("enumeration-differs", "general_purpose_registers() differs from {}::REGISTERS", T::NAME);
                }
                g.iter().map(|n| enc_name(n)).collect::<Vec<_>>().join(",")
            }
            ("size", 1) => {
                let c = mdctx(&raw);
                let s = c.register_size();
                if s != T::reg_bytes() {
                    fail!("register-size-differs", "register_size() = {s}, size_of::<Register>() = {}", T::reg_bytes());
                }
                s.to_string()
            }
            ("sp", 1) | ("ip", 1) => {
                let c = mdctx(&raw);
                let (acc, nm) = if kind == "sp" {
                    (c.get_stack_pointer(), raw.stack_pointer_register_name())
                } else {
                    (c.get_instruction_pointer(), raw.instruction_pointer_register_name())
                };
                let by_name = catch(|| T::to_u64(raw.get_register_always(nm)));
                if by_name != Ok(acc) {
                    fail!("sp-ip-disagree", "{kind}: accessor = {acc:x}, get_register_always({nm}) = {by_name:?}");
                }
                let all = MinidumpContext { raw: raw.clone().wrap(), valid: MinidumpContextValidity::All };
                let by_md = catch(|| all.get_register(nm));
                if by_md != Ok(Some(acc)) {
                    fail!("sp-ip-disagree", "{kind}: accessor = {acc:x}, MinidumpContext::get_register({nm}) = {by_md:?}");
                }
                hexv(acc)
            }
            ("spname", 1) => enc_name(raw.stack_pointer_register_name()),
            ("ipname", 1) => enc_name(raw.instruction_pointer_register_name()),
            ("names", 1) => {
                // REGISTERS: duplicate-free, each its own canonical name
                let mut seen = HashSet::new();
                for r in &info.registers {
                    if !seen.insert(*r) {
                        fail!("registers-duplicate", "REGISTERS lists {r} twice");
                    }
                    if info.canon.get(*r).cloned().flatten() != Some(*r) {
                        fail!("memoize-not-canonical", "memoize_register({r}) = {:?} for a REGISTERS name", info.canon.get(*r));
                    }
                }
                info.accepted.iter().map(|n| enc_name(n)).collect::<Vec<_>>().join(",")
            }
            ("dump", 1) => {
                let nz: Vec<(String, u64)> = raw.cells().into_iter().filter(|(_, v)| *v != 0).collect();
                if nz.is_empty() {
                    "-".into()
                } else {
                    nz.iter().map(|(c, v)| format!("{c}={v:x}")).collect::<Vec<_>>().join(",")
                }
            }
            _ => {
                res.out = "bad-op".into();
                res.oracle.clear();
                return res;
            }
        };
        if wrote && kind != "set" && (kind == "dump" || kind == "regs" || kind == "mregs" || kind == "vregs" || kind == "mvregs" || name.as_ref().map_or(false, |n| is_accepted(n))) {
            read_after_write = true;
        }
        outs.push(out);
    }
    // non-trivial: a named register was written and then observed, or a validity set was consulted
    // for a name the context accepts, or the tables were enumerated
    res.nontrivial = read_after_write
        || (touched_known && case.valid.is_some())
        || case.ops.iter().any(|o| matches!(o.as_str(), "names" | "regs" | "mregs" | "vregs" | "mvregs"));
    res.out = outs.join(";");
    res
}

// -------------------------------------------------------------------------------- generation

struct GenInfo {
    accepted: Vec<String>,
    registers: Vec<String>,
    unknown: Vec<String>,
    bits: u32,
}
fn gen_info<T: Raw>() -> GenInfo {
    let i = name_info::<T>();
    GenInfo {
        accepted: i.accepted.clone(),
        registers: i.registers.iter().map(|s| s.to_string()).collect(),
        unknown: universe().iter().filter(|n| !i.canon.contains_key(n.as_str())).cloned().collect(),
        bits: (T::reg_bytes() * 8) as u32,
    }
}

fn mask(bits: u32, v: u64) -> u64 {
    if bits >= 64 { v } else { v & ((1u64 << bits) - 1) }
}

/// `set` ops giving every REGISTERS name a distinct non-zero value
fn background(g: &GenInfo, salt: u64) -> Vec<String> {
    g.registers
        .iter()
        .enumerate()
        .map(|(i, r)| format!("set:{}:{:x}", enc_name(r), mask(g.bits, (0x0101_0101_0101_0101u64.wrapping_mul(i as u64 + 1)) ^ (salt << 8) | 1)))
        .collect()
}

fn random_name(rng: &mut Rng) -> String {
    match rng.below(6) {
        0 => {
            let n = rng.range(1, 40);
            (0..n).map(|_| (b'a' + rng.below(26) as u8) as char).collect()
        }
        1 => {
            let pool = ['é', 'ß', '٦', 'ｓ', '𝔯', '\u{0}', ' ', '\t', '"', '\\', '$', '.', '%', ':', ',', ';', '=', 'g', 'o', '6', '7'];
            let n = rng.range(1, 4);
            (0..n).map(|_| *rng.pick(&pool)).collect()
        }
        2 => format!("{}{}", *rng.pick(&["r", "x", "g", "o", "l", "i", "s", "g_r", "e", "R", "X"]), rng.below(300)),
        3 => {
            // two-byte strings around the SPARC alias shape
            let a = *rng.pick(&[b'g', b'o', b'l', b'i', b'h', b'f', b'G', b'O']);
            let b = *rng.pick(&[b'/', b'0', b'7', b'8', b'9', b':', b'a']);
            String::from_utf8(vec![a, b]).unwrap()
        }
        4 => {
            let base = rng.pick(universe()).clone();
            match rng.below(3) {
                0 => base.to_uppercase(),
                1 => format!("{base} "),
                _ => format!("{base}{}", rng.below(10)),
            }
        }
        _ => "x".repeat(rng.range(100, 2000) as usize),
    }
}

impl Engine for Regs {
    fn name(&self) -> &'static str {
        "regs"
    }
    fn rule(&self) -> String {
        "case = (context type, validity All|Some(S), op script on an initially zero context). Exhaustive part: for each of the 9 context types, every name the implementation accepts (REGISTERS + every alias found by probing a ~5000-name universe with set_register/memoize_register) x values {0,1,all-ones,random} for set-then-read-everything (all accepted names, dump of the register cells, sp/ip accessors, registers()/format), and x validity patterns {empty, every singleton by name and by alias, REGISTERS, all accepted names} for register_is_valid/get_register/MinidumpContext::get_register of every accepted name plus valid_registers at both levels; every universe name the context does not accept under {All, Some(empty), Some(REGISTERS)} on all Option-returning methods. Random part: random scripts, random subsets incl. aliases, random unknown names (unicode, NUL, long, near-miss). non-trivial = a named register is written and then observed, or a Some(S) validity set is consulted for an accepted name, or an enumeration is listed; distinct = distinct case line".into()
    }
    fn exhaustive_part(&self) -> Option<String> {
        Some("9 context types x all accepted names/aliases x {0,1,all-ones,random} (set/get/alias/other-cells-unchanged) and x validity {empty, each singleton by name and by alias, full} (validity through aliases, enumerations); all ~5000 universe names not accepted, per context, on memoize/set/register_is_valid/get_register under All, Some(empty), Some(full)".into())
    }

    fn generate(&self, tier: Tier, rng: &mut Rng, emit: &mut dyn FnMut(String)) {
        for ctx in CTXS {
            let g: GenInfo = dispatch!(*ctx, gen_info()).unwrap();
            let tok = |n: &String| enc_name(n);
            // (1) tables
            emit(format!("regs {ctx} all names gpr size spname ipname sp ip regs mregs vregs mvregs dump"));
            // (2) set-then-read-everything
            for n in &g.accepted {
                let vals = [0u64, 1, mask(g.bits, u64::MAX), mask(g.bits, rng.next())];
                for (k, v) in vals.iter().enumerate() {
                    let mut ops = background(&g, k as u64);
                    ops.push(format!("set:{}:{:x}", tok(n), v));
                    for m in &g.accepted {
                        ops.push(format!("geta:{}", tok(m)));
                    }
                    ops.push(format!("get:{}", tok(n)));
                    ops.push(format!("mget:{}", tok(n)));
                    ops.push(format!("mgeta:{}", tok(n)));
                    ops.push(format!("fmt:{}", tok(n)));
                    ops.push(format!("mfmt:{}", tok(n)));
                    ops.extend(["dump", "sp", "ip", "regs", "mregs"].iter().map(|s| s.to_string()));
                    emit(format!("regs {ctx} all {}", ops.join(" ")));
                }
            }
            // (3) validity patterns
            let mut patterns: Vec<Vec<String>> = vec![vec![], g.registers.clone(), g.accepted.clone()];
            for n in &g.accepted {
                patterns.push(vec![n.clone()]);
            }
            let extra = if tier == Tier::Quick { 40 } else { 600 };
            for _ in 0..extra {
                let k = rng.range(2, 6) as usize;
                let mut s: Vec<String> = vec![];
                for _ in 0..k {
                    let n = rng.pick(&g.accepted).clone();
                    if !s.contains(&n) {
                        s.push(n);
                    }
                }
                patterns.push(s);
            }
            for (pi, s) in patterns.iter().enumerate() {
                let mut ops = background(&g, 7);
                for m in &g.accepted {
                    ops.push(format!("valid:{}", tok(m)));
                    ops.push(format!("get:{}", tok(m)));
                    ops.push(format!("mget:{}", tok(m)));
                }
                for j in 0..3 {
                    let u = &g.unknown[(pi * 3 + j) * 7919 % g.unknown.len()];
                    ops.push(format!("valid:{}", tok(u)));
                    ops.push(format!("get:{}", tok(u)));
                    ops.push(format!("mget:{}", tok(u)));
                }
                ops.extend(["vregs", "mvregs", "regs", "mregs"].iter().map(|s| s.to_string()));
                emit(format!(
                    "regs {ctx} some:{} {}",
                    s.iter().map(tok).collect::<Vec<_>>().join(","),
                    ops.join(" ")
                ));
            }
            // (4) every universe name the context does not accept
            let full = format!("some:{}", g.registers.iter().map(tok).collect::<Vec<_>>().join(","));
            for chunk in g.unknown.chunks(12) {
                let mut ops: Vec<String> = vec![format!("set:{}:5", tok(&g.registers[0]))];
                for u in chunk {
                    for k in ["memo", "valid", "get", "mget"] {
                        ops.push(format!("{k}:{}", tok(u)));
                    }
                    ops.push(format!("set:{}:3", tok(u)));
                }
                ops.push("dump".into());
                for v in ["all", "some:", full.as_str()] {
                    emit(format!("regs {ctx} {v} {}", ops.join(" ")));
                }
            }
        }
        // (5) random scripts and random (mostly unknown) names
        let n = if tier == Tier::Quick { 15000 } else { 60000 };
        let infos: Vec<GenInfo> = CTXS.iter().map(|c| dispatch!(*c, gen_info()).unwrap()).collect();
        for _ in 0..n {
            let ci = rng.below(CTXS.len() as u64) as usize;
            let g = &infos[ci];
            let pick_name = |rng: &mut Rng| -> String {
                match rng.below(10) {
                    0..=5 => rng.pick(&g.accepted).clone(),
                    6 => rng.pick(&g.unknown).clone(),
                    7 => rng.pick(universe()).clone(),
                    _ => random_name(rng),
                }
            };
            let valid = match rng.below(4) {
                0 => "all".to_string(),
                _ => {
                    let k = rng.below(5) as usize;
                    let mut s: Vec<String> = vec![];
                    for _ in 0..k {
                        let n = rng.pick(&g.accepted).clone();
                        if !s.contains(&n) {
                            s.push(n);
                        }
                    }
                    format!("some:{}", s.iter().map(|n| enc_name(n)).collect::<Vec<_>>().join(","))
                }
            };
            let mut ops: Vec<String> = vec![];
            for _ in 0..rng.range(1, 14) {
                let nm = pick_name(rng);
                let known = g.accepted.contains(&nm);
                let t = enc_name(&nm);
                let op = match rng.below(14) {
                    0..=3 => format!("set:{t}:{:x}", match rng.below(4) { 0 => 0, 1 => 1, 2 => mask(g.bits, u64::MAX), _ => mask(g.bits, rng.next()) }),
                    4 => format!("get:{t}"),
                    5 => format!("mget:{t}"),
                    6 => format!("memo:{t}"),
                    7 => format!("valid:{t}"),
                    // get_register_always / format_register: only on names the context accepts (DESIGN §6.0)
                    8 if known => format!("geta:{t}"),
                    9 if known => format!("mfmt:{t}"),
                    10 if known => format!("fmt:{t}"),
                    11 => (*rng.pick(&["regs", "vregs", "mregs", "mvregs", "dump", "sp", "ip"])).to_string(),
                    _ => format!("get:{t}"),
                };
                ops.push(op);
            }
            ops.push("dump".into());
            emit(format!("regs {} {valid} {}", CTXS[ci], ops.join(" ")));
        }
    }

    fn exec(&self, case: &str) -> ImplResult {
        let Some(c) = parse_case(case) else {
            return ImplResult { out: "bad-op".into(), ..Default::default() };
        };
        match dispatch!(c.ctx.as_str(), run(&c)) {
            Some(r) => r,
            None => ImplResult { out: "bad-op".into(), ..Default::default() },
        }
    }

    fn shrink(&self, case: &str, still_fails: &dyn Fn(&str) -> bool) -> String {
        let Some(mut c) = parse_case(case) else { return case.to_string() };
        let mut progress = true;
        while progress {
            progress = false;
            // drop blocks of ops, then single ops
            let mut step = (c.ops.len() / 2).max(1);
            loop {
                let mut i = 0;
                while c.ops.len() > 1 && i < c.ops.len() {
                    let mut d = c.clone();
                    let end = (i + step).min(d.ops.len());
                    d.ops.drain(i..end);
                    if !d.ops.is_empty() && still_fails(&render_case(&d)) {
                        c = d;
                        progress = true;
                    } else {
                        i += step;
                    }
                }
                if step == 1 {
                    break;
                }
                step /= 2;
            }
            if let Some(s) = c.valid.clone() {
                let mut i = 0;
                let mut s = s;
                while i < s.len() {
                    let mut t = s.clone();
                    t.remove(i);
                    let mut d = c.clone();
                    d.valid = Some(t.clone());
                    if still_fails(&render_case(&d)) {
                        s = t;
                        c = d;
                        progress = true;
                    } else {
                        i += 1;
                    }
                }
            }
        }
        render_case(&c)
    }
}
