//! Engine `cli` (C20): the built `minidump-stackwalk` binary over the cross product of output
//! options on a corpus of files, against (a) the Lean decision table `MdModel.Cli.cli` and
//! (b) the reports the library produces in-process for the same file and options.
//!
//! case line: `cli <flags> file:<id> feat:<0|1|2> out:<0|1> log:<0|1> sym:<0..4>`
//!   flags ⊆ "hjcdbp" (human json cyborg dump brief pretty) or "-"
//!   file ids: t:<name> (repo testdata) | missing | empty | dir | garbage:<seed> | trunc:<name>:<len>
//!             | mut:<name>:<seed> (byte-mutated copy)
//! The model request is `cli <flags> <input class>`; the class (unreadable / unprocessable / ok) is
//! determined by running the library in-process.

use crate::common::*;
use crate::gen::dump_printer::print_minidump_dump;
use minidump::Minidump;
use minidump_processor::ProcessorOptions;
use minidump_unwind::{simple_symbol_supplier, MultiSymbolProvider, Symbolizer};
use std::path::{Path, PathBuf};
use std::process::{Command, Stdio};
use std::sync::atomic::{AtomicU64, Ordering};

pub struct Cli;

static COUNTER: AtomicU64 = AtomicU64::new(0);
/// input class per (file id, features, symbols) as determined by `exec` (saves a second in-process run)
static CLASSES: std::sync::Mutex<Option<std::collections::HashMap<String, &'static str>>> = std::sync::Mutex::new(None);

fn repo() -> PathBuf {
    PathBuf::from(std::env::var("VERIF_REPO").unwrap_or_else(|_| "/repo".into()))
}
fn verif() -> PathBuf {
    // harness/target/release/mdharness -> /verif
    let exe = std::env::current_exe().unwrap();
    exe.ancestors().nth(4).unwrap().to_path_buf()
}
fn tool() -> PathBuf {
    match std::env::var("VERIF_TARGET_REPO") {
        Ok(d) => PathBuf::from(d).join("release/minidump-stackwalk"),
        Err(_) => verif().join("harness/target-repo/release/minidump-stackwalk"),
    }
}
fn scratch() -> PathBuf {
    let d = verif().join(".scratch/cli").join(std::process::id().to_string());
    std::fs::create_dir_all(&d).unwrap();
    d
}

const TESTDATA: &[&str] = &[
    "test.dmp",
    "linux-mini.dmp",
    "simple-crashpad.dmp",
    "invalid-range.dmp",
    "invalid-record-count.dmp",
    "invalid-parameter.dmp",
    "pipeline-inlines-macos-segv.dmp",
];

/// materialise the file denoted by `id`; returns its path (which may not exist, for `missing`)
fn materialise(id: &str, dir: &Path) -> PathBuf {
    let parts: Vec<&str> = id.split(':').collect();
    match parts[0] {
        "t" => repo().join("testdata").join(parts[1]),
        "missing" => dir.join("does-not-exist.dmp"),
        "empty" => {
            let p = dir.join("empty.dmp");
            std::fs::write(&p, b"").unwrap();
            p
        }
        "dir" => {
            let p = dir.join("a-directory");
            std::fs::create_dir_all(&p).unwrap();
            p
        }
        "garbage" => {
            let mut rng = Rng::new(parts[1].parse().unwrap_or(0));
            let n = rng.range(1, 4096) as usize;
            let mut bytes: Vec<u8> = (0..n).map(|_| rng.next() as u8).collect();
            if rng.chance(1, 2) && n >= 4 {
                bytes[..4].copy_from_slice(b"MDMP");
            }
            let p = dir.join("garbage.dmp");
            std::fs::write(&p, bytes).unwrap();
            p
        }
        "trunc" => {
            let bytes = std::fs::read(repo().join("testdata").join(parts[1])).unwrap();
            let n: usize = parts[2].parse().unwrap_or(0);
            let p = dir.join("trunc.dmp");
            std::fs::write(&p, &bytes[..n.min(bytes.len())]).unwrap();
            p
        }
        "mut" => {
            let mut bytes = std::fs::read(repo().join("testdata").join(parts[1])).unwrap();
            let mut rng = Rng::new(parts[2].parse().unwrap_or(0));
            let k = rng.range(1, 8);
            for _ in 0..k {
                let i = rng.below(bytes.len() as u64) as usize;
                let v = *rng.pick(&[0u8, 1, 0x7f, 0x80, 0xff, 0x10]);
                // mostly corrupt the header/directory/stream headers (first 4 KiB)
                let i = if rng.chance(3, 4) { i % 4096.min(bytes.len()) } else { i };
                bytes[i] = v;
            }
            let p = dir.join("mut.dmp");
            std::fs::write(&p, bytes).unwrap();
            p
        }
        _ => dir.join("bad-id"),
    }
}

/// symbol path forms: 0 none | 1 positional | 2 --symbols-path | 3 --symbols-path <empty dir> + positional
/// symbols | 4 --symbols-path symbols + positional <empty dir>. Returns (named, positional).
fn sym_paths(sym: u32) -> (Vec<PathBuf>, Vec<PathBuf>) {
    let symdir = repo().join("testdata/symbols");
    let empty = verif().join(".scratch/cli/empty-symbols");
    let _ = std::fs::create_dir_all(&empty);
    match sym {
        1 => (vec![], vec![symdir]),
        2 => (vec![symdir], vec![]),
        3 => (vec![empty], vec![symdir]),
        4 => (vec![symdir], vec![empty]),
        _ => (vec![], vec![]),
    }
}

struct Case {
    flags: String,
    file: String,
    feat: u32,
    out: bool,
    log: bool,
    sym: u32,
}

fn parse_case(case: &str) -> Option<Case> {
    let f: Vec<&str> = case.split(' ').filter(|s| !s.is_empty()).collect();
    if f.len() != 7 || f[0] != "cli" {
        return None;
    }
    Some(Case {
        flags: f[1].to_string(),
        file: f[2].strip_prefix("file:")?.to_string(),
        feat: f[3].strip_prefix("feat:")?.parse().ok()?,
        out: f[4].strip_prefix("out:")? == "1",
        log: f[5].strip_prefix("log:")? == "1",
        sym: f[6].strip_prefix("sym:")?.parse().ok()?,
    })
}

/// What the library produces in-process for this file.
struct Lib {
    class: &'static str, // unreadable | unprocessable | ok
    human: Vec<u8>,
    human_brief: Vec<u8>,
    json: Vec<u8>,
    json_pretty: Vec<u8>,
    dump: Vec<u8>,
    dump_brief: Vec<u8>,
    panicked: Option<String>,
}

fn library(path: &Path, feat: u32, sym: u32) -> Lib {
    let mut lib = Lib {
        class: "unreadable",
        human: vec![],
        human_brief: vec![],
        json: vec![],
        json_pretty: vec![],
        dump: vec![],
        dump_brief: vec![],
        panicked: None,
    };
    let r = catch(|| {
        let dump = match Minidump::read_path(path) {
            Ok(d) => d,
            Err(_) => return ("unreadable", vec![]),
        };
        let mut outs: Vec<Vec<u8>> = vec![];
        for brief in [false, true] {
            let mut v = vec![];
            print_minidump_dump(&dump, &mut v, brief).unwrap();
            outs.push(v);
        }
        let mut options = match feat {
            0 => ProcessorOptions::stable_basic(),
            1 => ProcessorOptions::stable_all(),
            _ => ProcessorOptions::unstable_all(),
        };
        // main.rs overrides these from the command line (not given): None / false
        options.evil_json = None;
        options.recover_function_args = false;
        let mut provider = MultiSymbolProvider::new();
        // the tool merges `--symbols-path` values and positional paths, in that order
        let (named, positional) = sym_paths(sym);
        let all: Vec<PathBuf> = named.into_iter().chain(positional).collect();
        if !all.is_empty() {
            provider.add(Box::new(Symbolizer::new(simple_symbol_supplier(all))));
        }
        let rt = tokio::runtime::Builder::new_current_thread().enable_all().build().unwrap();
        let state = rt.block_on(minidump_processor::process_minidump_with_options(&dump, &provider, options));
        match state {
            Err(_) => ("unprocessable", outs),
            Ok(state) => {
                let mut h = vec![];
                state.print(&mut h).unwrap();
                let mut hb = vec![];
                state.print_brief(&mut hb).unwrap();
                let mut j = vec![];
                state.print_json(&mut j, false).unwrap();
                let mut jp = vec![];
                state.print_json(&mut jp, true).unwrap();
                outs.extend([h, hb, j, jp]);
                ("ok", outs)
            }
        }
    });
    match r {
        Err(msg) => {
            lib.panicked = Some(msg);
        }
        Ok((class, mut outs)) => {
            lib.class = class;
            if outs.len() >= 2 {
                lib.dump = std::mem::take(&mut outs[0]);
                lib.dump_brief = std::mem::take(&mut outs[1]);
            }
            if outs.len() >= 6 {
                lib.human = std::mem::take(&mut outs[2]);
                lib.human_brief = std::mem::take(&mut outs[3]);
                lib.json = std::mem::take(&mut outs[4]);
                lib.json_pretty = std::mem::take(&mut outs[5]);
            }
        }
    }
    lib
}

fn classify(bytes: &[u8], lib: &Lib, brief: bool, pretty: bool) -> String {
    if bytes.is_empty() {
        return "-".into();
    }
    // candidates ordered so that byte-identical reports are named consistently with the flags
    let mut cands: Vec<(&str, &Vec<u8>)> = vec![];
    if lib.class == "ok" {
        if brief {
            cands.push(("human-brief", &lib.human_brief));
            cands.push(("human", &lib.human));
        } else {
            cands.push(("human", &lib.human));
            cands.push(("human-brief", &lib.human_brief));
        }
        if pretty {
            cands.push(("json-pretty", &lib.json_pretty));
            cands.push(("json", &lib.json));
        } else {
            cands.push(("json", &lib.json));
            cands.push(("json-pretty", &lib.json_pretty));
        }
    }
    if lib.class != "unreadable" {
        if brief {
            cands.push(("dump-brief", &lib.dump_brief));
            cands.push(("dump", &lib.dump));
        } else {
            cands.push(("dump", &lib.dump));
            cands.push(("dump-brief", &lib.dump_brief));
        }
    }
    for (name, c) in &cands {
        if !c.is_empty() && bytes == c.as_slice() {
            return (*name).into();
        }
    }
    // two reports back to back?
    for (n1, c1) in &cands {
        for (n2, c2) in &cands {
            if !c1.is_empty() && !c2.is_empty() && bytes.len() == c1.len() + c2.len() && bytes.starts_with(c1) && bytes.ends_with(c2) {
                return format!("{n1}+{n2}");
            }
        }
    }
    format!("UNKNOWN[{} bytes, fnv {:016x}]", bytes.len(), fnv64(bytes))
}

impl Engine for Cli {
    fn name(&self) -> &'static str {
        "cli"
    }
    fn rule(&self) -> String {
        "case = (output flags ⊆ {--human,--json,--cyborg F,--dump,--brief,--pretty}, file, --features value, --output-file?, --log-file?, symbol path form); all 64 flag sets x files (7 repo dumps, missing, empty, directory, garbage, truncations, byte-mutated dumps) with the other options cycled; the built binary is run and its exit status/stdout/stderr/files are compared with the Lean decision table and with the library's reports computed in-process on the same file. non-trivial = the tool accepted the options and the file was readable (a report was due); distinct = distinct case line".into()
    }
    fn exhaustive_part(&self) -> Option<String> {
        Some("all 64 subsets of {human,json,cyborg,dump,brief,pretty} for every corpus file (the decision table's whole flag space)".into())
    }

    fn generate(&self, tier: Tier, rng: &mut Rng, emit: &mut dyn FnMut(String)) {
        let mut files: Vec<String> = TESTDATA.iter().map(|n| format!("t:{n}")).collect();
        files.extend(["missing".to_string(), "empty".into(), "dir".into()]);
        let extra = if tier == Tier::Quick { 10 } else { 24 };
        for _ in 0..extra {
            files.push(format!("garbage:{}", rng.below(1 << 32)));
            let name = *rng.pick(&["test.dmp", "linux-mini.dmp", "simple-crashpad.dmp"]);
            let len = std::fs::metadata(repo().join("testdata").join(name)).map(|m| m.len()).unwrap_or(1000);
            files.push(format!("trunc:{name}:{}", rng.below(len)));
            files.push(format!("mut:{name}:{}", rng.below(1 << 32)));
        }
        let mut k = 0u32;
        for file in &files {
            for mask in 0..64u32 {
                let mut flags = String::new();
                for (i, c) in "hjcdbp".chars().enumerate() {
                    if mask & (1 << i) != 0 {
                        flags.push(c);
                    }
                }
                if flags.is_empty() {
                    flags.push('-');
                }
                // cycle the options that do not take part in the decision
                k = k.wrapping_add(1);
                let variants: &[(u32, u32, u32, u32)] = if tier == Tier::Quick {
                    &[(0, 0, 0, 0), (1, 1, 1, 1)]
                } else {
                    &[(0, 0, 0, 0), (1, 1, 0, 1), (2, 0, 1, 2), (2, 1, 1, 0)]
                };
                for (vi, v) in variants.iter().enumerate() {
                    let (feat, out, log, sym) = if tier == Tier::Quick {
                        let k = k.wrapping_add(7 * vi as u32);
                        (k % 3, (k / 3) % 2, (k / 6) % 2, (k / 12) % 5)
                    } else {
                        (v.0, v.1, v.2, (v.3 + vi as u32 + k) % 5)
                    };
                    emit(format!("cli {flags} file:{file} feat:{feat} out:{out} log:{log} sym:{sym}"));
                }
            }
        }
    }

    fn model_request(&self, case: &str) -> Option<String> {
        let c = parse_case(case)?;
        let key = format!("{}|{}|{}", c.file, c.feat, c.sym);
        if let Some(class) = CLASSES.lock().unwrap().as_ref().and_then(|m| m.get(&key).copied()) {
            return Some(format!("cli {} {}", c.flags, class));
        }
        let dir = scratch().join(format!("m{}", COUNTER.fetch_add(1, Ordering::Relaxed)));
        std::fs::create_dir_all(&dir).ok()?;
        let path = materialise(&c.file, &dir);
        let lib = library(&path, c.feat, c.sym);
        let _ = std::fs::remove_dir_all(&dir);
        Some(format!("cli {} {}", c.flags, lib.class))
    }

    fn exec(&self, case: &str) -> ImplResult {
        let mut res = ImplResult::default();
        let Some(c) = parse_case(case) else {
            res.out = "bad-op".into();
            return res;
        };
        let dir = scratch().join(format!("c{}", COUNTER.fetch_add(1, Ordering::Relaxed)));
        std::fs::create_dir_all(&dir).unwrap();
        let path = materialise(&c.file, &dir);
        let lib = library(&path, c.feat, c.sym);
        CLASSES
            .lock()
            .unwrap()
            .get_or_insert_with(Default::default)
            .insert(format!("{}|{}|{}", c.file, c.feat, c.sym), lib.class);
        res.tags.push(format!("input:{}", lib.class));
        res.tags.push(format!("file:{}", c.file.split(':').next().unwrap()));

        let out_file = dir.join("out.txt");
        let cyborg_file = dir.join("cyborg.json");
        let log_file = dir.join("log.txt");
        let mut args: Vec<String> = vec![];
        let has = |ch: char| c.flags.contains(ch);
        if has('h') {
            args.push("--human".into());
        }
        if has('j') {
            args.push("--json".into());
        }
        if has('c') {
            args.push("--cyborg".into());
            args.push(cyborg_file.display().to_string());
        }
        if has('d') {
            args.push("--dump".into());
        }
        if has('b') {
            args.push("--brief".into());
        }
        if has('p') {
            args.push("--pretty".into());
        }
        args.push("--features".into());
        args.push(["stable-basic", "stable-all", "unstable-all"][c.feat as usize % 3].into());
        if c.out {
            args.push("--output-file".into());
            args.push(out_file.display().to_string());
        }
        if c.log {
            args.push("--log-file".into());
            args.push(log_file.display().to_string());
        }
        args.push("--no-interactive".into());
        let (named, positional) = sym_paths(c.sym);
        for p in &named {
            args.push("--symbols-path".into());
            args.push(p.display().to_string());
        }
        args.push(path.display().to_string());
        for p in &positional {
            args.push(p.display().to_string());
        }
        let output = Command::new(tool())
            .args(&args)
            .env("RUST_BACKTRACE", "0")
            .env("NO_COLOR", "1")
            .stdin(Stdio::null())
            .output();
        let output = match output {
            Ok(o) => o,
            Err(e) => {
                res.out = format!("cannot run tool: {e}");
                res.oracle.push(("tool-not-runnable".into(), format!("{}: {e}", tool().display())));
                return res;
            }
        };
        let stdout = output.stdout;
        let stderr = String::from_utf8_lossy(&output.stderr).to_string();
        let log = std::fs::read_to_string(&log_file).unwrap_or_default();
        let primary: Vec<u8> = if c.out { std::fs::read(&out_file).unwrap_or_default() } else { stdout.clone() };
        let cyborg: Vec<u8> = std::fs::read(&cyborg_file).unwrap_or_default();
        let diag = format!("{stderr}{log}");
        let brief = has('b');
        let pretty = has('p');
        match output.status.code() {
            Some(0) => {
                let p = classify(&primary, &lib, brief, pretty);
                let cy = classify(&cyborg, &lib, brief, pretty);
                res.out = format!("exit0 primary:{p} cyborg:{cy}");
                res.nontrivial = true;
                if p.starts_with("UNKNOWN") || cy.starts_with("UNKNOWN") {
                    res.oracle.push((
                        "report-differs-from-library".into(),
                        format!("args {args:?}: primary={p} cyborg={cy}; library class {}", lib.class),
                    ));
                }
                if c.out && !stdout.is_empty() {
                    res.oracle.push(("stdout-not-empty-with-output-file".into(), format!("args {args:?}: {} bytes on stdout", stdout.len())));
                }
                if p == "-" && cy == "-" {
                    res.oracle.push(("exit0-without-report".into(), format!("args {args:?}")));
                }
            }
            Some(1) => {
                res.out = "exit1".into();
                if !primary.is_empty() || !stdout.is_empty() || !cyborg.is_empty() {
                    res.oracle.push((
                        "failure-wrote-output".into(),
                        format!("args {args:?}: exit 1 but primary={}B stdout={}B cyborg={}B", primary.len(), stdout.len(), cyborg.len()),
                    ));
                }
                if diag.trim().is_empty() {
                    res.oracle.push(("failure-without-diagnostic".into(), format!("args {args:?}")));
                }
            }
            Some(2) => {
                res.out = "usage".into();
                if !primary.is_empty() || !stdout.is_empty() || !cyborg.is_empty() {
                    res.oracle.push(("usage-error-wrote-output".into(), format!("args {args:?}")));
                }
                if stderr.trim().is_empty() {
                    res.oracle.push(("usage-error-without-diagnostic".into(), format!("args {args:?}")));
                }
            }
            other => {
                res.out = format!("ABNORMAL {other:?}");
                let tail: String = diag.lines().rev().take(3).collect::<Vec<_>>().join(" | ");
                res.oracle.push((
                    "abnormal-exit".into(),
                    format!("args {args:?}: status {:?} ({tail})", output.status),
                ));
            }
        }
        if let Some(msg) = &lib.panicked {
            res.oracle.push(("library-panics-on-file".into(), format!("file {}: {msg}", c.file)));
        }
        let _ = std::fs::remove_dir_all(&dir);
        res
    }
}
