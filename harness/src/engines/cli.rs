//! Engine `cli` (C20): the built `minidump-stackwalk` binary against the Lean models of
//! `MdModel.Cli*` and against the reports the library produces in-process.
//!
//! Case kinds (one text line each):
//!   `cli <flags> file:<id> feat:<0|1|2> out:<0|1> log:<0|1> sym:<0..4>`
//!        the decision table: all 64 subsets of {human,json,cyborg,dump,brief,pretty} x files
//!   `cli io <flags> v:<0|1> hm:<0|1> lu:<0|1> in:<file id> cy:<id|-> out:<id|-> log:<id|-> so:<ok|full|closed|cap:N> lim:<N|-> fs:<spec|->`
//!        one run of `main` in a described world (files that exist / cannot be created / fail on
//!        write, size limits, failing standard output) vs `MdModel.Cli.run`
//!   `cli opt feat:<0..3> rec:<0|1> evil:<0|1> sym:<0..4> url:<0|1> local:<0|1> noint:<0|1> mode:<h|j|c>`
//!        processing options vs `MdModel.Cli.plan` and vs the library called with the planned options
//!   `cli dump b:<0|1> ok:<hex mask> bad:<hex mask> dup:<hex mask> seed:<n>`
//!        `--dump` on a synthesized dump containing the given stream types vs `MdModel.Cli.dumpSections`
//!        and vs the library's per-stream printers
//!   `cli selfout <out|cy>`   the output path is the minidump itself
//! flags ⊆ "hjcdbp" (human json cyborg dump brief pretty) or "-"
//! file ids: t:<name> (repo testdata) | missing | empty | dir | garbage:<seed> | trunc:<name>:<len>
//!           | mut:<name>:<seed> (byte-mutated copy) | synth:nosys (readable, not processable)

use crate::common::*;
use minidump::*;
use minidump_common::format as md;
use minidump_processor::ProcessorOptions;
use minidump_synth as synth;
use minidump_unwind::{http_symbol_supplier, simple_symbol_supplier, MultiSymbolProvider, Symbolizer};
use std::collections::HashMap;
use std::io::Write;
use std::ops::Deref;
use std::path::{Path, PathBuf};
use std::process::{Command, Stdio};
use std::sync::atomic::{AtomicU64, Ordering};
use std::sync::{Arc, Mutex, OnceLock};
use test_assembler::{Endian, Section};

pub struct Cli;

static COUNTER: AtomicU64 = AtomicU64::new(0);

fn repo() -> PathBuf {
    PathBuf::from(std::env::var("VERIF_REPO").unwrap_or_else(|_| "/repo".into()))
}
fn verif() -> PathBuf {
    // harness/target/release/mdharness -> /verif
    let exe = std::env::current_exe().unwrap();
    exe.ancestors().nth(4).unwrap().to_path_buf()
}
fn tool() -> PathBuf {
    match std::env::var("VERIF_TARGET_REPO") {
        Ok(d) => PathBuf::from(d).join("release/minidump-stackwalk"),
        Err(_) => verif().join("harness/target-repo/release/minidump-stackwalk"),
    }
}
fn scratch() -> PathBuf {
    // under the (git-ignored) cargo target directory
    let d = verif().join("harness/target/cli-scratch").join(std::process::id().to_string());
    std::fs::create_dir_all(&d).unwrap();
    d
}
fn fresh_dir(tag: &str) -> PathBuf {
    let d = scratch().join(format!("{tag}{}", COUNTER.fetch_add(1, Ordering::Relaxed)));
    std::fs::create_dir_all(&d).unwrap();
    d
}

const TESTDATA: &[&str] = &[
    "test.dmp",
    "linux-mini.dmp",
    "simple-crashpad.dmp",
    "invalid-range.dmp",
    "invalid-record-count.dmp",
    "invalid-parameter.dmp",
    "pipeline-inlines-macos-segv.dmp",
];

/// materialise the file denoted by `id`; returns its path (which may not exist, for `missing`)
fn materialise(id: &str, dir: &Path) -> PathBuf {
    let parts: Vec<&str> = id.split(':').collect();
    match parts[0] {
        "t" => repo().join("testdata").join(parts[1]),
        "missing" => dir.join("does-not-exist.dmp"),
        "empty" => {
            let p = dir.join("empty.dmp");
            std::fs::write(&p, b"").unwrap();
            p
        }
        "dir" => {
            let p = dir.join("a-directory");
            std::fs::create_dir_all(&p).unwrap();
            p
        }
        "garbage" => {
            let mut rng = Rng::new(parts[1].parse().unwrap_or(0));
            let n = rng.range(1, 4096) as usize;
            let mut bytes: Vec<u8> = (0..n).map(|_| rng.next() as u8).collect();
            if rng.chance(1, 2) && n >= 4 {
                bytes[..4].copy_from_slice(b"MDMP");
            }
            let p = dir.join("garbage.dmp");
            std::fs::write(&p, bytes).unwrap();
            p
        }
        "trunc" => {
            let bytes = std::fs::read(repo().join("testdata").join(parts[1])).unwrap();
            let n: usize = parts[2].parse().unwrap_or(0);
            let p = dir.join("trunc.dmp");
            std::fs::write(&p, &bytes[..n.min(bytes.len())]).unwrap();
            p
        }
        "mut" => {
            let mut bytes = std::fs::read(repo().join("testdata").join(parts[1])).unwrap();
            let mut rng = Rng::new(parts[2].parse().unwrap_or(0));
            let k = rng.range(1, 8);
            for _ in 0..k {
                let i = rng.below(bytes.len() as u64) as usize;
                let v = *rng.pick(&[0u8, 1, 0x7f, 0x80, 0xff, 0x10]);
                // mostly corrupt the header/directory/stream headers (first 4 KiB)
                let i = if rng.chance(3, 4) { i % 4096.min(bytes.len()) } else { i };
                bytes[i] = v;
            }
            let p = dir.join("mut.dmp");
            std::fs::write(&p, bytes).unwrap();
            p
        }
        "synth" => {
            // a valid minidump without any stream: readable, `process_minidump` fails (no system info)
            let bytes = synth::SynthMinidump::with_endian(Endian::Little).finish().unwrap_or_default();
            let p = dir.join("nosys.dmp");
            std::fs::write(&p, bytes).unwrap();
            p
        }
        _ => dir.join("bad-id"),
    }
}

/// symbol path forms: 0 none | 1 positional | 2 --symbols-path | 3 --symbols-path <empty dir> + positional
/// symbols | 4 --symbols-path symbols + positional <empty dir>. Returns (named, positional).
fn sym_paths_in(symdir: PathBuf, sym: u32) -> (Vec<PathBuf>, Vec<PathBuf>) {
    let empty = verif().join("harness/target/cli-scratch/empty-symbols");
    let _ = std::fs::create_dir_all(&empty);
    match sym {
        1 => (vec![], vec![symdir]),
        2 => (vec![symdir], vec![]),
        3 => (vec![empty], vec![symdir]),
        4 => (vec![symdir], vec![empty]),
        _ => (vec![], vec![]),
    }
}
fn sym_paths(sym: u32) -> (Vec<PathBuf>, Vec<PathBuf>) {
    sym_paths_in(repo().join("testdata/symbols"), sym)
}

// ------------------------------------------------------------------------------------------------
// The raw dump as the LIBRARY prints it: one section per stream type, composed here by hand from the
// minidump crate's printers (independent of the text of main.rs — the translation of main.rs lives
// in the Lean table `Gen.dumpStmts`, and the two meet in `exec`).
// ------------------------------------------------------------------------------------------------

type Sections = Vec<(String, Vec<u8>)>;

fn opt_label<T>(name: &str, x: &Option<T>, ty: &str) -> String {
    format!("{name}={}", if x.is_some() { ty } else { "-" })
}

fn thread_list_section<'a, T: Deref<Target = [u8]> + 'a>(
    dump: &'a Minidump<'a, T>,
    mem: u8, // 0 none, 1 memory list, 2 memory64 list
    sys: bool,
    misc: bool,
    brief: bool,
) -> Option<(String, Vec<u8>)> {
    let tl = dump.get_stream::<MinidumpThreadList<'_>>().ok()?;
    let unified = match mem {
        2 => dump.get_stream::<MinidumpMemory64List<'_>>().ok().map(UnifiedMemoryList::Memory64),
        1 => dump.get_stream::<MinidumpMemoryList<'_>>().ok().map(UnifiedMemoryList::Memory),
        _ => None,
    };
    let system_info = if sys { dump.get_stream::<MinidumpSystemInfo>().ok() } else { None };
    let misc_info = if misc { dump.get_stream::<MinidumpMiscInfo>().ok() } else { None };
    let mut v = vec![];
    tl.print(&mut v, unified.as_ref(), system_info.as_ref(), misc_info.as_ref(), brief).ok()?;
    let um = match (mem, unified.is_some()) {
        (2, true) => "MinidumpMemory64List",
        (1, true) => "MinidumpMemoryList",
        _ => "-",
    };
    Some((
        format!(
            "MinidumpThreadList[unified_memory={um},{},{},brief={}]",
            opt_label("system_info", &system_info, "MinidumpSystemInfo"),
            opt_label("misc_info", &misc_info, "MinidumpMiscInfo"),
            brief as u8
        ),
        v,
    ))
}

fn exception_section<'a, T: Deref<Target = [u8]> + 'a>(dump: &'a Minidump<'a, T>, sys: bool, misc: bool) -> Option<(String, Vec<u8>)> {
    let ex = dump.get_stream::<MinidumpException>().ok()?;
    let system_info = if sys { dump.get_stream::<MinidumpSystemInfo>().ok() } else { None };
    let misc_info = if misc { dump.get_stream::<MinidumpMiscInfo>().ok() } else { None };
    let mut v = vec![];
    ex.print(&mut v, system_info.as_ref(), misc_info.as_ref()).ok()?;
    Some((
        format!(
            "MinidumpException[{},{}]",
            opt_label("system_info", &system_info, "MinidumpSystemInfo"),
            opt_label("misc_info", &misc_info, "MinidumpMiscInfo")
        ),
        v,
    ))
}

const RAW_STREAMS: &[(md::MINIDUMP_STREAM_TYPE, &str)] = &[
    (md::MINIDUMP_STREAM_TYPE::LinuxCmdLine, "LinuxCmdLine"),
    (md::MINIDUMP_STREAM_TYPE::LinuxEnviron, "LinuxEnviron"),
    (md::MINIDUMP_STREAM_TYPE::LinuxLsbRelease, "LinuxLsbRelease"),
    (md::MINIDUMP_STREAM_TYPE::LinuxProcStatus, "LinuxProcStatus"),
    (md::MINIDUMP_STREAM_TYPE::LinuxCpuInfo, "LinuxCpuInfo"),
    (md::MINIDUMP_STREAM_TYPE::LinuxMaps, "LinuxMaps"),
    (md::MINIDUMP_STREAM_TYPE::MozLinuxLimits, "MozLinuxLimits"),
    (md::MINIDUMP_STREAM_TYPE::MozSoftErrors, "MozSoftErrors"),
];

/// "Dump the 'raw' contents of the minidump": the header, then every stream the library can print, each
/// once, the two memory lists both when both exist (64-bit first, it is the one the stacks are read
/// from), then the Linux text streams as NUL-separated text.
fn lib_sections<'a, T: Deref<Target = [u8]> + 'a>(dump: &'a Minidump<'a, T>, brief: bool) -> Sections {
    let mut out: Sections = vec![];
    let mut v = vec![];
    dump.print(&mut v).unwrap();
    out.push(("header".into(), v));
    let have64 = dump.get_stream::<MinidumpMemory64List<'_>>().is_ok();
    let have32 = dump.get_stream::<MinidumpMemoryList<'_>>().is_ok();
    let mem = if have64 { 2 } else if have32 { 1 } else { 0 };
    if let Some(s) = thread_list_section(dump, mem, true, true, brief) {
        out.push(s);
    }
    macro_rules! plain {
        ($t:ty, $name:expr) => {
            if let Ok(s) = dump.get_stream::<$t>() {
                let mut v = vec![];
                s.print(&mut v).unwrap();
                out.push(($name.to_string(), v));
            }
        };
    }
    plain!(MinidumpModuleList, "MinidumpModuleList");
    plain!(MinidumpUnloadedModuleList, "MinidumpUnloadedModuleList");
    plain!(MinidumpHandleDataStream, "MinidumpHandleDataStream");
    if let Ok(m) = dump.get_stream::<MinidumpMemory64List<'_>>() {
        let mut v = vec![];
        m.print(&mut v, brief).unwrap();
        out.push((format!("MinidumpMemory64List[brief={}]", brief as u8), v));
    }
    if let Ok(m) = dump.get_stream::<MinidumpMemoryList<'_>>() {
        let mut v = vec![];
        m.print(&mut v, brief).unwrap();
        out.push((format!("MinidumpMemoryList[brief={}]", brief as u8), v));
    }
    plain!(MinidumpMemoryInfoList<'_>, "MinidumpMemoryInfoList");
    if let Some(s) = exception_section(dump, true, true) {
        out.push(s);
    }
    plain!(MinidumpAssertion, "MinidumpAssertion");
    plain!(MinidumpSystemInfo, "MinidumpSystemInfo");
    plain!(MinidumpMiscInfo, "MinidumpMiscInfo");
    plain!(MinidumpThreadNames, "MinidumpThreadNames");
    plain!(MinidumpBreakpadInfo, "MinidumpBreakpadInfo");
    match dump.get_stream::<MinidumpCrashpadInfo>() {
        Ok(s) => {
            let mut v = vec![];
            s.print(&mut v).unwrap();
            out.push(("MinidumpCrashpadInfo".into(), v));
        }
        Err(Error::StreamNotFound) => {}
        Err(_) => out.push(("note:MinidumpCrashpadInfo".into(), b"MinidumpCrashpadInfo cannot print invalid data".to_vec())),
    }
    plain!(MinidumpMacCrashInfo, "MinidumpMacCrashInfo");
    plain!(MinidumpMacBootargs, "MinidumpMacBootargs");
    for (ty, name) in RAW_STREAMS {
        if let Ok(contents) = dump.get_raw_stream(*ty as u32) {
            let s = contents.split(|&v| v == 0).map(String::from_utf8_lossy).collect::<Vec<_>>().join("\\0\n");
            out.push((format!("raw:{name}"), format!("Stream {name}:\n{s}\n\n").into_bytes()));
        }
    }
    out
}

fn concat(secs: &Sections) -> Vec<u8> {
    secs.iter().flat_map(|(_, b)| b.iter().copied()).collect()
}

/// Name the sections found in `actual` (the tool's `--dump` output) by matching the library's section
/// bytes in order; sections that are absent are skipped, repeated ones are listed repeatedly, bytes that
/// belong to no section end the list with `UNKNOWN[..]`.
fn segment<'a, T: Deref<Target = [u8]> + 'a>(dump: &'a Minidump<'a, T>, expected: &Sections, actual: &[u8], brief: bool) -> Vec<String> {
    let mut labels = vec![];
    let mut pos = 0usize;
    for (label, bytes) in expected {
        let mut candidates: Vec<(String, Vec<u8>)> = vec![(label.clone(), bytes.clone())];
        let mut matched = false;
        let mut tried_variants = false;
        loop {
            for (l, b) in &candidates {
                while !b.is_empty() && actual[pos..].starts_with(b) && labels.iter().filter(|x| *x == l).count() < 4 {
                    labels.push(l.clone());
                    pos += b.len();
                    matched = true;
                }
                if matched {
                    break;
                }
            }
            if matched || tried_variants {
                break;
            }
            tried_variants = true;
            // the sections whose bytes depend on other streams: which arguments did the tool pass?
            candidates.clear();
            if label.starts_with("MinidumpThreadList[") {
                for mem in [2u8, 1, 0] {
                    for sys in [true, false] {
                        for misc in [true, false] {
                            if let Some(c) = thread_list_section(dump, mem, sys, misc, brief) {
                                candidates.push(c);
                            }
                            if let Some(c) = thread_list_section(dump, mem, sys, misc, !brief) {
                                candidates.push(c);
                            }
                        }
                    }
                }
            } else if label.starts_with("MinidumpException[") {
                for sys in [true, false] {
                    for misc in [true, false] {
                        if let Some(c) = exception_section(dump, sys, misc) {
                            candidates.push(c);
                        }
                    }
                }
            } else if label.starts_with("MinidumpMemory") && label.contains("[brief=") {
                let other = !brief;
                let mut v = vec![];
                if label.starts_with("MinidumpMemory64List") {
                    if let Ok(m) = dump.get_stream::<MinidumpMemory64List<'_>>() {
                        m.print(&mut v, other).unwrap();
                        candidates.push((format!("MinidumpMemory64List[brief={}]", other as u8), v));
                    }
                } else if let Ok(m) = dump.get_stream::<MinidumpMemoryList<'_>>() {
                    m.print(&mut v, other).unwrap();
                    candidates.push((format!("MinidumpMemoryList[brief={}]", other as u8), v));
                }
            }
            if candidates.is_empty() {
                break;
            }
        }
    }
    if pos != actual.len() {
        labels.push(format!("UNKNOWN[{} bytes at {}]", actual.len() - pos, pos));
    }
    labels
}

// ------------------------------------------------------------------------------------------------
// The library in-process
// ------------------------------------------------------------------------------------------------

/// a report and the number of its trailing bytes a `std::io::LineWriter` (what standard output is)
/// still holds when the printer returns
#[derive(Default, Clone)]
struct Rep {
    bytes: Vec<u8>,
    pend: usize,
}

/// how the library is to be called
#[derive(Clone)]
struct LibPlan {
    recover: bool,
    evil: Option<PathBuf>,
    /// 0 none | 1 simple(paths) | 2 http(paths, urls, cache, tmp)
    supplier: u8,
    paths: Vec<PathBuf>,
    urls: Vec<String>,
    cache: PathBuf,
    tmp: PathBuf,
}
impl LibPlan {
    fn plain(paths: Vec<PathBuf>) -> LibPlan {
        LibPlan { recover: false, evil: None, supplier: if paths.is_empty() { 0 } else { 1 }, paths, urls: vec![], cache: PathBuf::new(), tmp: PathBuf::new() }
    }
}

/// What the library produces in-process for this file.
#[derive(Default)]
struct Lib {
    class: &'static str, // unreadable | unprocessable | ok
    human: Rep,
    human_brief: Rep,
    json: Rep,
    json_pretty: Rep,
    dump: Rep,
    dump_brief: Rep,
    dump_labels: Vec<String>,
    /// the system info is readable and its CPU is neither x86-64 nor arm64
    cpu_unsupported_by_debuginfo: bool,
    panicked: Option<String>,
}

fn with_pend(print: impl Fn(&mut dyn Write)) -> Rep {
    let mut lw = std::io::LineWriter::new(Vec::new());
    print(&mut lw);
    let flushed = lw.get_ref().len();
    let mut bytes = vec![];
    print(&mut bytes);
    Rep { pend: bytes.len().saturating_sub(flushed), bytes }
}

fn library(path: &Path, plan: &LibPlan) -> Lib {
    let mut lib = Lib { class: "unreadable", ..Default::default() };
    let r = catch(|| {
        let mut lib = Lib { class: "unreadable", ..Default::default() };
        let dump = match Minidump::read_path(path) {
            Ok(d) => d,
            Err(_) => return lib,
        };
        lib.class = "unprocessable";
        if let Ok(si) = dump.get_stream::<MinidumpSystemInfo>() {
            lib.cpu_unsupported_by_debuginfo = !matches!(si.cpu, minidump::system_info::Cpu::X86_64 | minidump::system_info::Cpu::Arm64);
        }
        for brief in [false, true] {
            let secs = lib_sections(&dump, brief);
            let bytes = concat(&secs);
            // the dump printers end every section with a newline except the crashpad note
            let pend = match bytes.iter().rposition(|&b| b == b'\n') {
                Some(i) => (bytes.len() - 1 - i).min(1023),
                None => bytes.len().min(1023),
            };
            if brief {
                lib.dump_brief = Rep { bytes, pend };
            } else {
                lib.dump_labels = secs.iter().map(|(l, _)| l.clone()).collect();
                lib.dump = Rep { bytes, pend };
            }
        }
        let mut options = ProcessorOptions::default();
        options.evil_json = plan.evil.as_deref();
        options.recover_function_args = plan.recover;
        let mut provider = MultiSymbolProvider::new();
        match plan.supplier {
            1 => provider.add(Box::new(Symbolizer::new(simple_symbol_supplier(plan.paths.clone())))),
            2 => provider.add(Box::new(Symbolizer::new(http_symbol_supplier(
                plan.paths.clone(),
                plan.urls.clone(),
                plan.cache.clone(),
                plan.tmp.clone(),
                std::time::Duration::from_secs(30),
            )))),
            _ => {}
        }
        let rt = tokio::runtime::Builder::new_current_thread().enable_all().build().unwrap();
        let state = rt.block_on(minidump_processor::process_minidump_with_options(&dump, &provider, options));
        if let Ok(state) = state {
            lib.class = "ok";
            lib.human = with_pend(|mut w| state.print(&mut w).unwrap());
            lib.human_brief = with_pend(|mut w| state.print_brief(&mut w).unwrap());
            lib.json = with_pend(|mut w| state.print_json(&mut w, false).unwrap());
            lib.json_pretty = with_pend(|mut w| state.print_json(&mut w, true).unwrap());
        }
        lib
    });
    match r {
        Err(msg) => lib.panicked = Some(msg),
        Ok(l) => lib = l,
    }
    lib
}

/// per process cache of library results (key: file id + plan description)
fn lib_cached(key: &str, compute: impl FnOnce() -> Lib) -> Arc<Lib> {
    static CACHE: OnceLock<Mutex<HashMap<String, Arc<Lib>>>> = OnceLock::new();
    let cache = CACHE.get_or_init(Default::default);
    if let Some(l) = cache.lock().unwrap().get(key) {
        return l.clone();
    }
    let l = Arc::new(compute());
    cache.lock().unwrap().insert(key.to_string(), l.clone());
    l
}

fn is_stable_file(id: &str) -> bool {
    id.starts_with("t:") || id.starts_with("synth:") || matches!(id, "missing" | "empty" | "dir")
}

fn classify(bytes: &[u8], lib: &Lib, brief: bool, pretty: bool) -> String {
    if bytes.is_empty() {
        return "-".into();
    }
    // candidates ordered so that byte-identical reports are named consistently with the flags
    let mut cands: Vec<(&str, &Vec<u8>)> = vec![];
    if lib.class == "ok" {
        if brief {
            cands.push(("human-brief", &lib.human_brief.bytes));
            cands.push(("human", &lib.human.bytes));
        } else {
            cands.push(("human", &lib.human.bytes));
            cands.push(("human-brief", &lib.human_brief.bytes));
        }
        if pretty {
            cands.push(("json-pretty", &lib.json_pretty.bytes));
            cands.push(("json", &lib.json.bytes));
        } else {
            cands.push(("json", &lib.json.bytes));
            cands.push(("json-pretty", &lib.json_pretty.bytes));
        }
    }
    if lib.class != "unreadable" {
        if brief {
            cands.push(("dump-brief", &lib.dump_brief.bytes));
            cands.push(("dump", &lib.dump.bytes));
        } else {
            cands.push(("dump", &lib.dump.bytes));
            cands.push(("dump-brief", &lib.dump_brief.bytes));
        }
    }
    for (name, c) in &cands {
        if !c.is_empty() && bytes == c.as_slice() {
            return (*name).into();
        }
    }
    // two reports back to back?
    for (n1, c1) in &cands {
        for (n2, c2) in &cands {
            if !c1.is_empty() && !c2.is_empty() && bytes.len() == c1.len() + c2.len() && bytes.starts_with(c1) && bytes.ends_with(c2) {
                return format!("{n1}+{n2}");
            }
        }
    }
    format!("UNKNOWN[{} bytes, fnv {:016x}]", bytes.len(), fnv64(bytes))
}

fn flag_args(flags: &str, cyborg_file: &Path) -> Vec<String> {
    let mut args: Vec<String> = vec![];
    let has = |ch: char| flags.contains(ch);
    if has('h') {
        args.push("--human".into());
    }
    if has('j') {
        args.push("--json".into());
    }
    if has('c') {
        args.push("--cyborg".into());
        args.push(cyborg_file.display().to_string());
    }
    if has('d') {
        args.push("--dump".into());
    }
    if has('b') {
        args.push("--brief".into());
    }
    if has('p') {
        args.push("--pretty".into());
    }
    args
}

fn base_command() -> Command {
    let mut c = Command::new(tool());
    c.env("RUST_BACKTRACE", "0").env("NO_COLOR", "1").stdin(Stdio::null());
    c
}

// ------------------------------------------------------------------------------------------------
// kind 1: the decision table
// ------------------------------------------------------------------------------------------------

struct TabCase {
    flags: String,
    file: String,
    feat: u32,
    out: bool,
    log: bool,
    sym: u32,
}

fn parse_tab(case: &str) -> Option<TabCase> {
    let f: Vec<&str> = case.split(' ').filter(|s| !s.is_empty()).collect();
    if f.len() != 7 || f[0] != "cli" {
        return None;
    }
    Some(TabCase {
        flags: f[1].to_string(),
        file: f[2].strip_prefix("file:")?.to_string(),
        feat: f[3].strip_prefix("feat:")?.parse().ok()?,
        out: f[4].strip_prefix("out:")? == "1",
        log: f[5].strip_prefix("log:")? == "1",
        sym: f[6].strip_prefix("sym:")?.parse().ok()?,
    })
}

fn tab_lib(c: &TabCase, path: &Path) -> Arc<Lib> {
    let (named, positional) = sym_paths(c.sym);
    let all: Vec<PathBuf> = named.into_iter().chain(positional).collect();
    let plan = LibPlan::plain(all);
    if is_stable_file(&c.file) {
        lib_cached(&format!("tab|{}|{}", c.file, if c.sym == 0 { 0 } else { 1 }), || library(path, &plan))
    } else {
        Arc::new(library(path, &plan))
    }
}

fn tab_model_request(case: &str) -> Option<String> {
    let c = parse_tab(case)?;
    let dir = fresh_dir("m");
    let path = materialise(&c.file, &dir);
    let lib = tab_lib(&c, &path);
    let _ = std::fs::remove_dir_all(&dir);
    Some(format!("cli {} {}", c.flags, lib.class))
}

fn exit_label(status: &std::process::ExitStatus) -> String {
    use std::os::unix::process::ExitStatusExt;
    match (status.code(), status.signal()) {
        (Some(c), _) => c.to_string(),
        (None, Some(s)) => format!("signal:{s}"),
        _ => "unknown".into(),
    }
}

fn tab_exec(case: &str) -> ImplResult {
    let mut res = ImplResult::default();
    let Some(c) = parse_tab(case) else {
        res.out = "bad-op".into();
        return res;
    };
    let dir = fresh_dir("c");
    let path = materialise(&c.file, &dir);
    let lib = tab_lib(&c, &path);
    res.tags.push(format!("input:{}", lib.class));
    res.tags.push(format!("file:{}", c.file.split(':').next().unwrap()));

    let out_file = dir.join("out.txt");
    let cyborg_file = dir.join("cyborg.json");
    let log_file = dir.join("log.txt");
    // the files exist already and are LONGER than any report: `File::create` must truncate them
    let filler = 1000
        + [&lib.human, &lib.human_brief, &lib.json, &lib.json_pretty, &lib.dump, &lib.dump_brief].iter().map(|r| r.bytes.len()).max().unwrap_or(0);
    if c.out {
        std::fs::write(&out_file, vec![b'#'; filler]).unwrap();
    }
    let has = |ch: char| c.flags.contains(ch);
    if has('c') && c.log {
        std::fs::write(&cyborg_file, vec![b'#'; filler]).unwrap();
    }
    let mut args = flag_args(&c.flags, &cyborg_file);
    args.push("--features".into());
    args.push(["stable-basic", "stable-all", "unstable-all"][c.feat as usize % 3].into());
    if c.out {
        args.push("--output-file".into());
        args.push(out_file.display().to_string());
    }
    if c.log {
        args.push("--log-file".into());
        args.push(log_file.display().to_string());
    }
    if c.sym % 2 == 0 {
        args.push("--no-interactive".into());
    }
    let (named, positional) = sym_paths(c.sym);
    for p in &named {
        args.push("--symbols-path".into());
        args.push(p.display().to_string());
    }
    args.push(path.display().to_string());
    for p in &positional {
        args.push(p.display().to_string());
    }
    let output = match base_command().args(&args).output() {
        Ok(o) => o,
        Err(e) => {
            res.out = format!("cannot run tool: {e}");
            res.oracle.push(("tool-not-runnable".into(), format!("{}: {e}", tool().display())));
            return res;
        }
    };
    let stdout = output.stdout;
    let stderr = String::from_utf8_lossy(&output.stderr).to_string();
    let log = std::fs::read_to_string(&log_file).unwrap_or_default();
    let untouched = |b: &[u8]| b.len() == filler && b.iter().all(|&x| x == b'#');
    let out_bytes = if c.out { std::fs::read(&out_file).unwrap_or_default() } else { vec![] };
    let primary: Vec<u8> = if c.out {
        if untouched(&out_bytes) { vec![] } else { out_bytes }
    } else {
        stdout.clone()
    };
    let cyborg: Vec<u8> = match std::fs::read(&cyborg_file) {
        Ok(b) if untouched(&b) => vec![], // untouched filler
        Ok(b) => b,
        Err(_) => vec![],
    };
    let diag = format!("{stderr}{log}");
    let brief = has('b');
    let pretty = has('p');
    let cmdline = format!("minidump-stackwalk {}", args.join(" "));
    match output.status.code() {
        Some(0) => {
            let p = classify(&primary, &lib, brief, pretty);
            let cy = classify(&cyborg, &lib, brief, pretty);
            res.out = format!("exit0 primary:{p} cyborg:{cy}");
            res.nontrivial = true;
            if p.starts_with("UNKNOWN") || cy.starts_with("UNKNOWN") {
                let mut detail = format!("{cmdline}: primary={p} cyborg={cy}; library class {}", lib.class);
                if has('d') {
                    if let Ok(dump) = Minidump::read_path(&path) {
                        let exp = lib_sections(&dump, brief);
                        let got = segment(&dump, &exp, &primary, brief);
                        detail.push_str(&format!("; sections printed: {got:?}; library composition: {:?}", exp.iter().map(|(l, _)| l).collect::<Vec<_>>()));
                    }
                }
                res.oracle.push(("report-differs-from-library".into(), detail));
            }
            if c.out && !stdout.is_empty() {
                res.oracle.push(("stdout-not-empty-with-output-file".into(), format!("{cmdline}: {} bytes on stdout", stdout.len())));
            }
            if p == "-" && cy == "-" {
                res.oracle.push(("exit0-without-report".into(), cmdline.clone()));
            }
            // The option documentation, read independently of main.rs (--help texts): the four formats
            // exclude one another (clap rejects two); `--pretty` "pretty-prints --json output" and is
            // refused where no JSON is produced; `--brief` is "a briefer --human or --dump report" and is
            // refused for JSON alone. A rejected combination must not end with status 0 and a report.
            let n_formats = ['h', 'j', 'c', 'd'].iter().filter(|f| has(**f)).count();
            let json_made = has('j') || has('c');
            let rejected = n_formats > 1 || (pretty && !json_made) || (brief && has('j') && !has('c'));
            if rejected {
                res.oracle.push((
                    "rejected-combination-produced-a-report".into(),
                    format!("{cmdline}: the documentation rejects this combination, the tool exited 0 with primary={p} cyborg={cy}"),
                ));
            } else {
                // ... and an accepted one writes exactly the documented kind of report to each writer
                let want_p = if has('d') {
                    if brief { "dump-brief" } else { "dump" }
                } else if has('j') {
                    if pretty { "json-pretty" } else { "json" }
                } else if brief {
                    "human-brief"
                } else {
                    "human"
                };
                let want_c = if has('c') { if pretty { "json-pretty" } else { "json" } } else { "-" };
                if !p.starts_with("UNKNOWN") && !cy.starts_with("UNKNOWN") && (p != want_p || cy != want_c) {
                    res.oracle.push((
                        "wrong-kind-of-report".into(),
                        format!("{cmdline}: documented primary={want_p} cyborg={want_c}, the tool wrote primary={p} cyborg={cy}"),
                    ));
                }
            }
        }
        Some(1) => {
            res.out = "exit1".into();
            if !primary.is_empty() || !stdout.is_empty() || !cyborg.is_empty() {
                res.oracle.push((
                    "failure-wrote-output".into(),
                    format!("{cmdline}: exit 1 but primary={}B stdout={}B cyborg={}B", primary.len(), stdout.len(), cyborg.len()),
                ));
            }
            if diag.trim().is_empty() {
                res.oracle.push(("failure-without-diagnostic".into(), cmdline.clone()));
            }
        }
        Some(2) => {
            res.out = "usage".into();
            if !primary.is_empty() || !stdout.is_empty() || !cyborg.is_empty() {
                res.oracle.push(("usage-error-wrote-output".into(), cmdline.clone()));
            }
            if stderr.trim().is_empty() {
                res.oracle.push(("usage-error-without-diagnostic".into(), cmdline.clone()));
            }
        }
        _ => {
            res.out = format!("ABNORMAL {}", exit_label(&output.status));
            let tail: String = diag.lines().rev().take(3).collect::<Vec<_>>().join(" | ");
            res.oracle.push(("abnormal-exit".into(), format!("{cmdline}: status {:?} ({tail})", output.status)));
        }
    }
    if let Some(msg) = &lib.panicked {
        res.oracle.push(("library-panics-on-file".into(), format!("file {}: {msg}", c.file)));
    }
    let _ = std::fs::remove_dir_all(&dir);
    res
}

// ------------------------------------------------------------------------------------------------
// kind 2: `main` in a described world
// ------------------------------------------------------------------------------------------------

#[derive(Clone, PartialEq)]
enum So {
    Ok,
    Full,
    Closed,
    Cap(u64),
}

struct IoCase {
    flags: String,
    verbose_off: bool,
    help_md: bool,
    local_debuginfo: bool,
    input: String,
    cy: Option<String>,
    out: Option<String>,
    log: Option<String>,
    so: So,
    so_text: String,
    lim: Option<u64>,
    fs: Vec<(String, String)>, // id, kind
    fs_text: String,
}

fn opt_id(s: &str) -> Option<String> {
    if s == "-" { None } else { Some(s.to_string()) }
}

fn parse_io(case: &str) -> Option<IoCase> {
    let f: Vec<&str> = case.split(' ').filter(|s| !s.is_empty()).collect();
    if f.len() != 13 || f[0] != "cli" || f[1] != "io" {
        return None;
    }
    let so_text = f[10].strip_prefix("so:")?.to_string();
    let so = match so_text.as_str() {
        "ok" => So::Ok,
        "full" => So::Full,
        "closed" => So::Closed,
        s => So::Cap(s.strip_prefix("cap:")?.parse().ok()?),
    };
    let lim_s = f[11].strip_prefix("lim:")?;
    let lim = if lim_s == "-" { None } else { Some(lim_s.parse().ok()?) };
    let fs_text = f[12].strip_prefix("fs:")?.to_string();
    let mut fs = vec![];
    if fs_text != "-" {
        for item in fs_text.split(';').filter(|s| !s.is_empty()) {
            let (id, kind) = item.split_once('=')?;
            fs.push((id.to_string(), kind.to_string()));
        }
    }
    Some(IoCase {
        flags: f[2].to_string(),
        verbose_off: f[3].strip_prefix("v:")? == "1",
        help_md: f[4].strip_prefix("hm:")? == "1",
        local_debuginfo: f[5].strip_prefix("lu:")? == "1",
        input: f[6].strip_prefix("in:")?.to_string(),
        cy: opt_id(f[7].strip_prefix("cy:")?),
        out: opt_id(f[8].strip_prefix("out:")?),
        log: opt_id(f[9].strip_prefix("log:")?),
        so,
        so_text,
        lim,
        fs,
        fs_text,
    })
}

fn filler_bytes(len: usize, seed: usize) -> Vec<u8> {
    (0..len).map(|i| ((seed + i * 7 + i / 251) % 251) as u8).collect()
}

fn real_path(id: &str, dir: &Path) -> PathBuf {
    match id {
        "F" => PathBuf::from("/dev/full"),
        "Z" => PathBuf::from("/dev/null"),
        "N" => dir.join("nodir").join("x"),
        _ => dir.join(id),
    }
}

fn help_markdown() -> &'static Vec<u8> {
    static M: OnceLock<Vec<u8>> = OnceLock::new();
    M.get_or_init(|| base_command().args(["--help-markdown", "x"]).output().map(|o| o.stdout).unwrap_or_default())
}

fn io_lib(c: &IoCase, dir: &Path) -> (Arc<Lib>, PathBuf) {
    let path = materialise(&c.input, dir);
    let plan = LibPlan::plain(vec![]);
    let lib = if is_stable_file(&c.input) {
        lib_cached(&format!("tab|{}|0", c.input), || library(&path, &plan))
    } else {
        Arc::new(library(&path, &plan))
    };
    (lib, path)
}

fn rep_field(tag: &str, r: Option<&Rep>) -> String {
    match r {
        Some(r) => format!("{tag}:{}:{}", r.pend, hex(&r.bytes)),
        None => format!("{tag}:0:-"),
    }
}

fn io_model_request(case: &str) -> Option<String> {
    let c = parse_io(case)?;
    let dir = fresh_dir("m");
    let (lib, _) = io_lib(&c, &dir);
    let _ = std::fs::remove_dir_all(&dir);
    if lib.panicked.is_some() {
        return None;
    }
    let has = |ch: char| c.flags.contains(ch);
    let (h, j, d) = if lib.class == "ok" && !has('d') {
        (Some(if has('b') { &lib.human_brief } else { &lib.human }), Some(if has('p') { &lib.json_pretty } else { &lib.json }), None)
    } else if lib.class != "unreadable" && has('d') {
        (None, None, Some(if has('b') { &lib.dump_brief } else { &lib.dump }))
    } else {
        (None, None, None)
    };
    let m = Rep { bytes: help_markdown().clone(), pend: 0 };
    let id = |o: &Option<String>| o.clone().unwrap_or_else(|| "-".into());
    // `localUnsupported` of the model: the flag is given and the dump's CPU is not one main.rs lets through
    let lu = c.local_debuginfo && lib.cpu_unsupported_by_debuginfo;
    Some(format!(
        "cli io {} v:{} hm:{} lu:{} in:{} cy:{} out:{} log:{} so:{} lim:{} fs:{} {} {} {} {}",
        c.flags,
        c.verbose_off as u8,
        c.help_md as u8,
        lu as u8,
        lib.class,
        id(&c.cy),
        id(&c.out),
        id(&c.log),
        c.so_text,
        c.lim.map(|n| n.to_string()).unwrap_or_else(|| "-".into()),
        c.fs_text,
        rep_field("H", h),
        rep_field("J", j),
        rep_field("D", d),
        rep_field("M", if c.help_md { Some(&m) } else { None }),
    ))
}

/// the diagnostics on standard error, by the names the model uses
fn diag_names(stderr: &str) -> String {
    let mut names: Vec<&str> = vec![];
    for line in stderr.lines() {
        let n = if line.starts_with("Error: ") {
            "io-error"
        } else if line.starts_with("error:") {
            "usage"
        } else if line.contains("Humans must be hideous") {
            "pretty-invalid"
        } else if line.contains("Robots cannot be brief") {
            "brief-invalid"
        } else if line.contains("Error reading dump") {
            "read-error"
        } else if line.contains("Error processing dump") || line.contains("Error getting system info") {
            "process-error"
        } else if line.contains("Local debug info is only supported") {
            "local-debuginfo-error"
        } else if line.contains("Panic - ") {
            "panic"
        } else if names.contains(&"usage") || line.trim().is_empty() {
            continue; // the rest of clap's message
        } else {
            "other"
        };
        if names.last() != Some(&n) {
            names.push(n);
        }
    }
    if names.is_empty() { "-".into() } else { names.join("+") }
}

fn io_exec(case: &str) -> ImplResult {
    let mut res = ImplResult::default();
    let Some(c) = parse_io(case) else {
        res.out = "bad-op".into();
        return res;
    };
    let dir = fresh_dir("io");
    let (lib, input_path) = io_lib(&c, &dir);
    res.tags.push(format!("io-input:{}", lib.class));
    res.tags.push(format!("io-so:{}", c.so_text.split(':').next().unwrap()));
    // the world
    for (id, kind) in &c.fs {
        let p = real_path(id, &dir);
        let k: Vec<&str> = kind.split(':').collect();
        match k[0] {
            "file" => {
                let len = k.get(1).and_then(|s| s.parse().ok()).unwrap_or(0);
                let seed = k.get(2).and_then(|s| s.parse().ok()).unwrap_or(0);
                std::fs::write(&p, filler_bytes(len, seed)).unwrap();
            }
            "dir" => std::fs::create_dir_all(&p).unwrap(),
            _ => {} // full / null / nodir: the fixed ids F, Z, N
        }
    }
    let mut args = flag_args(&c.flags, &c.cy.as_deref().map(|id| real_path(id, &dir)).unwrap_or_default());
    if c.flags.contains('c') != c.cy.is_some() {
        res.out = "bad-op".into();
        return res;
    }
    if c.help_md {
        args.push("--help-markdown".into());
    }
    if c.verbose_off {
        args.push("--verbose".into());
        args.push("off".into());
    }
    if c.local_debuginfo {
        args.push("--use-local-debuginfo".into());
    }
    if let Some(id) = &c.out {
        args.push("--output-file".into());
        args.push(real_path(id, &dir).display().to_string());
    }
    if let Some(id) = &c.log {
        args.push("--log-file".into());
        args.push(real_path(id, &dir).display().to_string());
    }
    args.push("--no-interactive".into());
    args.push(input_path.display().to_string());
    let cmdline = format!(
        "{}minidump-stackwalk {}{}",
        c.lim.map(|n| format!("(ulimit -f: {n} bytes, SIGXFSZ ignored) ")).unwrap_or_default(),
        args.join(" "),
        match &c.so {
            So::Ok => "",
            So::Full => " >/dev/full",
            So::Closed => " | (reader gone)",
            So::Cap(_) => " >regular-file",
        }
    );
    let mut cmd = match c.lim {
        None => {
            let mut cmd = base_command();
            cmd.args(&args);
            cmd
        }
        Some(n) => {
            let mut cmd = Command::new("sh");
            cmd.env("RUST_BACKTRACE", "0").env("NO_COLOR", "1").stdin(Stdio::null());
            cmd.arg("-c").arg("trap '' XFSZ; exec prlimit --fsize=\"$0\" \"$@\"").arg(n.to_string()).arg(tool()).args(&args);
            cmd
        }
    };
    let stdout_file = dir.join("stdout.bin");
    match &c.so {
        So::Ok => {
            cmd.stdout(Stdio::piped());
        }
        So::Full => {
            cmd.stdout(std::fs::OpenOptions::new().write(true).open("/dev/full").unwrap());
        }
        So::Closed => {
            let (r, w) = std::io::pipe().unwrap();
            drop(r);
            cmd.stdout(w);
        }
        So::Cap(_) => {
            cmd.stdout(std::fs::File::create(&stdout_file).unwrap());
        }
    }
    cmd.stderr(Stdio::piped());
    let output = match cmd.spawn().and_then(|ch| ch.wait_with_output()) {
        Ok(o) => o,
        Err(e) => {
            res.out = format!("cannot run tool: {e}");
            res.oracle.push(("tool-not-runnable".into(), format!("{}: {e}", tool().display())));
            return res;
        }
    };
    drop(cmd);
    let stdout: Vec<u8> = match &c.so {
        So::Ok => output.stdout.clone(),
        So::Cap(_) => std::fs::read(&stdout_file).unwrap_or_default(),
        _ => vec![],
    };
    let stderr = String::from_utf8_lossy(&output.stderr).to_string();
    // the files afterwards
    let mut ids: Vec<String> = c.fs.iter().map(|(i, _)| i.clone()).collect();
    for o in [&c.cy, &c.out, &c.log].into_iter().flatten() {
        ids.push(o.clone());
    }
    ids.sort();
    ids.dedup();
    let mut states = vec![];
    for id in &ids {
        let p = real_path(id, &dir);
        let log_only = c.log.as_deref() == Some(id) && c.cy.as_deref() != Some(id) && c.out.as_deref() != Some(id);
        let st = match id.as_str() {
            "F" => "full".to_string(),
            "Z" => "null".to_string(),
            _ => match std::fs::metadata(&p) {
                Err(_) => if id == "N" || !p.parent().map(|d| d.exists()).unwrap_or(true) { "nodir".into() } else { "absent".into() },
                Ok(m) if m.is_dir() => "dir".into(),
                Ok(_) => {
                    let b = std::fs::read(&p).unwrap_or_default();
                    if log_only {
                        if b.is_empty() { "log:empty".into() } else { "log:nonempty".into() }
                    } else {
                        format!("file:{}:{:016x}", b.len(), fnv64(&b))
                    }
                }
            },
        };
        states.push(format!("{id}={st}"));
    }
    let se = diag_names(&stderr);
    let exit = exit_label(&output.status);
    res.out = format!(
        "exit:{exit} so:{}:{:016x} se:{se} f:{}",
        stdout.len(),
        fnv64(&stdout),
        if states.is_empty() { "-".to_string() } else { states.join(";") }
    );
    res.nontrivial = lib.class != "unreadable" || c.help_md;

    // ---- the property's own oracle, on the implementation's output (independent of the Lean model) ----
    let has = |ch: char| c.flags.contains(ch);
    let primary: Option<Vec<u8>> = match &c.out {
        None => Some(stdout.clone()),
        Some(id) if !matches!(id.as_str(), "F" | "Z" | "D" | "N") => std::fs::read(real_path(id, &dir)).ok(),
        _ => None,
    };
    let primary_preexisting = c.out.as_ref().and_then(|id| c.fs.iter().find(|(i, _)| i == id)).map(|(_, k)| {
        let k: Vec<&str> = k.split(':').collect();
        filler_bytes(k.get(1).and_then(|s| s.parse().ok()).unwrap_or(0), k.get(2).and_then(|s| s.parse().ok()).unwrap_or(0))
    });
    let due_primary: Vec<u8> = if has('d') {
        if has('b') { lib.dump_brief.bytes.clone() } else { lib.dump.bytes.clone() }
    } else if has('j') {
        if has('p') { lib.json_pretty.bytes.clone() } else { lib.json.bytes.clone() }
    } else if has('b') {
        lib.human_brief.bytes.clone()
    } else {
        lib.human.bytes.clone()
    };
    let due_cyborg = if has('p') { &lib.json_pretty.bytes } else { &lib.json.bytes };
    let same_path = (c.cy.is_some() && c.cy == c.out) || (c.log.is_some() && (c.log == c.out || c.log == c.cy));
    let observable_stdout = matches!(c.so, So::Ok | So::Cap(_));
    match exit.as_str() {
        "0" if !c.help_md => {
            // "exits with status 0 having written to its primary output exactly the report"
            if let Some(p) = &primary {
                if (c.out.is_some() || observable_stdout) && *p != due_primary {
                    let class = if same_path {
                        "same-path-clobbers-output"
                    } else if c.out.is_none() && matches!(c.so, So::Cap(_)) && due_primary.starts_with(p) {
                        "exit0-with-truncated-report-on-stdout"
                    } else {
                        "exit0-primary-is-not-the-report"
                    };
                    res.oracle.push((class.into(), format!("{cmdline}: status 0, the primary output holds {} bytes, the library's report has {} (pre-existing file: {} bytes)", p.len(), due_primary.len(), primary_preexisting.as_ref().map(|b| b.len()).unwrap_or(0))));
                }
            }
            if c.so == So::Closed && c.out.is_none() {
                res.tags.push("io:broken-pipe-exit0".into());
            }
            if let Some(id) = &c.cy {
                if !matches!(id.as_str(), "F" | "Z") && !same_path && !(c.so == So::Closed && c.out.is_none()) {
                    let b = std::fs::read(real_path(id, &dir)).unwrap_or_default();
                    if b != *due_cyborg {
                        res.oracle.push(("exit0-cyborg-is-not-the-json-report".into(), format!("{cmdline}: the cyborg file holds {} bytes, the library's JSON report has {}", b.len(), due_cyborg.len())));
                    }
                }
            }
        }
        "0" => {}
        "1" | "2" => {
            // "… or exits with status 1 with a diagnostic on standard error and nothing on the primary output"
            let got: Vec<u8> = match (&c.out, &primary, &primary_preexisting) {
                (None, Some(p), _) => p.clone(),
                (Some(_), Some(p), Some(old)) if p == old => vec![], // never touched
                (Some(_), Some(p), _) => p.clone(),
                _ => vec![],
            };
            if !got.is_empty() && !c.help_md {
                let writer_limited = c.lim.is_some() || matches!(c.so, So::Cap(_));
                let class = if has('c') && got == (if has('b') { &lib.human_brief.bytes } else { &lib.human.bytes }).as_slice() {
                    "exit1-after-complete-report-on-primary"
                } else if writer_limited && due_primary.starts_with(&got) {
                    "exit1-partial-report-primary-writer-failed" // inherent: the primary itself refused the rest
                } else {
                    "failure-wrote-output"
                };
                if class != "exit1-partial-report-primary-writer-failed" {
                    res.oracle.push((class.into(), format!("{cmdline}: status {exit} with {} bytes on the primary output", got.len())));
                } else {
                    res.tags.push("io:partial-primary".into());
                }
            }
            let log_text = c.log.as_ref().and_then(|id| std::fs::read_to_string(real_path(id, &dir)).ok()).unwrap_or_default();
            if stderr.trim().is_empty() && log_text.trim().is_empty() && !c.verbose_off {
                res.oracle.push(("failure-without-diagnostic".into(), cmdline.clone()));
            }
        }
        other if c.help_md => {
            // the hidden developer option `--help-markdown` is outside the property's quantifier (it is not
            // an output option for a minidump): its panic on a failing stdout is modelled (status 101) and
            // compared with the model, not judged
            res.tags.push(format!("io:help-markdown-status-{other}"));
        }
        other => {
            res.oracle.push(("abnormal-exit".into(), format!("{cmdline}: status {other} ({})", stderr.lines().last().unwrap_or(""))));
        }
    }
    if let Some(msg) = &lib.panicked {
        res.oracle.push(("library-panics-on-file".into(), format!("file {}: {msg}", c.input)));
    }
    let _ = std::fs::remove_dir_all(&dir);
    res
}

// ------------------------------------------------------------------------------------------------
// kind 3: processing options
// ------------------------------------------------------------------------------------------------

/// a copy of testdata/symbols in which the crashing function of test.dmp carries an argument list, so
/// that `recover_function_args` changes the human report
fn crafted_symbols() -> &'static PathBuf {
    static D: OnceLock<PathBuf> = OnceLock::new();
    D.get_or_init(|| {
        let dst = scratch().join("symbols-crafted");
        let rel = "test_app.pdb/5A9832E5287241C1838ED98914E9B7FF1/test_app.sym";
        let src = repo().join("testdata/symbols").join(rel);
        std::fs::create_dir_all(dst.join(rel).parent().unwrap()).unwrap();
        let text = std::fs::read_to_string(&src).unwrap_or_default();
        let text = text.replace("`anonymous namespace'::CrashFunction\n", "`anonymous namespace'::CrashFunction(int, void*)\n");
        std::fs::write(dst.join(rel), text).unwrap();
        dst
    })
}

/// a loopback HTTP server that serves the repository's ORIGINAL symbols (Tecken layout) — a local path
/// holding the crafted ones must win over it; returns its base URL
fn symbol_server() -> &'static String {
    static U: OnceLock<String> = OnceLock::new();
    U.get_or_init(|| {
        use std::io::{BufRead, BufReader, Read};
        let root = repo().join("testdata/symbols");
        let listener = std::net::TcpListener::bind("127.0.0.1:0").unwrap();
        let port = listener.local_addr().unwrap().port();
        std::thread::spawn(move || {
            for stream in listener.incoming() {
                let Ok(mut stream) = stream else { continue };
                let root = root.clone();
                std::thread::spawn(move || {
                    let _ = stream.set_read_timeout(Some(std::time::Duration::from_secs(5)));
                    let mut reader = BufReader::new(stream.try_clone().unwrap());
                    loop {
                        let mut line = String::new();
                        if reader.read_line(&mut line).unwrap_or(0) == 0 {
                            return;
                        }
                        let mut parts = line.split_whitespace();
                        let method = parts.next().unwrap_or("").to_string();
                        let target = parts.next().unwrap_or("/").to_string();
                        let mut content_length = 0usize;
                        loop {
                            let mut h = String::new();
                            if reader.read_line(&mut h).unwrap_or(0) == 0 || h == "\r\n" || h == "\n" {
                                break;
                            }
                            if let Some(v) = h.to_ascii_lowercase().strip_prefix("content-length:") {
                                content_length = v.trim().parse().unwrap_or(0);
                            }
                        }
                        let mut body = vec![0u8; content_length];
                        let _ = reader.read_exact(&mut body);
                        let rel = target.split('?').next().unwrap_or("").trim_start_matches('/').to_string();
                        let file = root.join(&rel);
                        let ok = !rel.contains("..") && file.is_file();
                        let payload = if ok { std::fs::read(&file).unwrap_or_default() } else { b"not found".to_vec() };
                        let head = format!(
                            "HTTP/1.1 {}\r\nContent-Length: {}\r\nContent-Type: text/plain\r\n\r\n",
                            if ok { "200 OK" } else { "404 Not Found" },
                            payload.len()
                        );
                        if stream.write_all(head.as_bytes()).is_err() {
                            return;
                        }
                        if method != "HEAD" && stream.write_all(&payload).is_err() {
                            return;
                        }
                    }
                });
            }
        });
        format!("http://127.0.0.1:{port}/")
    })
}

struct OptCase {
    feat: u32,
    rec: bool,
    evil: bool,
    sym: u32,
    url: bool,
    local: bool,
    noint: bool,
    mode: char,
}

fn parse_opt(case: &str) -> Option<OptCase> {
    let f: Vec<&str> = case.split(' ').filter(|s| !s.is_empty()).collect();
    if f.len() != 10 || f[0] != "cli" || f[1] != "opt" {
        return None;
    }
    Some(OptCase {
        feat: f[2].strip_prefix("feat:")?.parse().ok()?,
        rec: f[3].strip_prefix("rec:")? == "1",
        evil: f[4].strip_prefix("evil:")? == "1",
        sym: f[5].strip_prefix("sym:")?.parse().ok()?,
        url: f[6].strip_prefix("url:")? == "1",
        local: f[7].strip_prefix("local:")? == "1",
        noint: f[8].strip_prefix("noint:")? == "1",
        mode: f[9].strip_prefix("mode:")?.chars().next()?,
    })
}

const FEATURES: [&str; 4] = ["stable-basic", "stable-all", "unstable-all", "most-unstable"];

fn ids_of(n: usize, first: char) -> String {
    if n == 0 { "-".into() } else { (0..n).map(|i| ((first as u8 + i as u8) as char).to_string()).collect::<Vec<_>>().join(",") }
}

fn opt_model_request(case: &str) -> Option<String> {
    let c = parse_opt(case)?;
    if c.local {
        // the harness is built without minidump-unwind's `debuginfo` feature: the report of a run with
        // the DebugInfoSymbolProvider cannot be recomputed in-process; only the exit is checked
        return None;
    }
    let (named, positional) = sym_paths_in(crafted_symbols().clone(), c.sym);
    // named paths are a,b,…; positional ones p,q,…
    Some(format!(
        "cli opts {} evil:{} rec:{} local:{} url:{} cache:1 tmp:1 to:30 named:{} legacy:{} noint:{} json:{} out:0",
        FEATURES[c.feat as usize % 4],
        c.evil as u8,
        c.rec as u8,
        c.local as u8,
        c.url as u8,
        ids_of(named.len(), 'a'),
        ids_of(positional.len(), 'p'),
        c.noint as u8,
        (c.mode != 'h') as u8,
    ))
}

/// the observable part of a plan line: which options the report was computed with
fn opt_observable(line: &str) -> String {
    line.split(' ').filter(|t| !(t.starts_with("stat:") || t.starts_with("int:") || t.starts_with("local:"))).collect::<Vec<_>>().join(" ")
}

fn opt_exec(case: &str) -> ImplResult {
    let mut res = ImplResult::default();
    let Some(c) = parse_opt(case) else {
        res.out = "bad-op".into();
        return res;
    };
    let dir = fresh_dir("o");
    // `local:1`: an x86 dump (sym 0/1) or a macOS x86-64 dump (other sym values)
    let dump_path = repo().join(if c.local && c.sym >= 2 { "testdata/pipeline-inlines-macos-segv.dmp" } else { "testdata/test.dmp" });
    let evil_path = repo().join("testdata/evil.json");
    let (named, positional) = sym_paths_in(crafted_symbols().clone(), c.sym);
    let cache = dir.join("cache");
    let tmp = dir.join("tmp");
    std::fs::create_dir_all(&cache).unwrap();
    std::fs::create_dir_all(&tmp).unwrap();
    let cyborg_file = dir.join("cyborg.json");
    let mut args: Vec<String> = vec![];
    match c.mode {
        'j' => args.push("--json".into()),
        'c' => {
            args.push("--cyborg".into());
            args.push(cyborg_file.display().to_string());
        }
        _ => {}
    }
    args.push("--features".into());
    args.push(FEATURES[c.feat as usize % 4].into());
    if c.rec {
        args.push("--recover-function-args".into());
    }
    if c.evil {
        args.push("--evil-json".into());
        args.push(evil_path.display().to_string());
    }
    if c.local {
        args.push("--use-local-debuginfo".into());
    }
    if c.noint {
        args.push("--no-interactive".into());
    }
    if c.url {
        args.push("--symbols-url".into());
        args.push(symbol_server().clone());
        args.push("--symbols-cache".into());
        args.push(cache.display().to_string());
        args.push("--symbols-tmp".into());
        args.push(tmp.display().to_string());
        args.push("--symbols-download-timeout-secs".into());
        args.push("30".into());
    }
    for p in &named {
        args.push("--symbols-path".into());
        args.push(p.display().to_string());
    }
    args.push(dump_path.display().to_string());
    for p in &positional {
        args.push(p.display().to_string());
    }
    let cmdline = format!("minidump-stackwalk {}", args.join(" "));
    let output = match base_command().args(&args).output() {
        Ok(o) => o,
        Err(e) => {
            res.out = format!("cannot run tool: {e}");
            res.oracle.push(("tool-not-runnable".into(), format!("{}: {e}", tool().display())));
            return res;
        }
    };
    let stderr = String::from_utf8_lossy(&output.stderr).to_string();
    match output.status.code() {
        Some(2) => {
            res.out = "usage".into();
            if !output.stdout.is_empty() {
                res.oracle.push(("usage-error-wrote-output".into(), cmdline));
            }
            let _ = std::fs::remove_dir_all(&dir);
            return res;
        }
        Some(0) if c.local => {
            res.out = "ok-local".into();
            res.nontrivial = true;
            if output.stdout.is_empty() {
                res.oracle.push(("exit0-without-report".into(), cmdline));
            }
            let _ = std::fs::remove_dir_all(&dir);
            return res;
        }
        Some(1) if c.local && c.sym < 2 && output.stdout.is_empty() && stderr.contains("Local debug info is only supported") => {
            // an x86 dump: refused with a diagnostic (fix fb88910); the world side is checked by the io cases
            res.out = "exit1-local-unsupported".into();
            let _ = std::fs::remove_dir_all(&dir);
            return res;
        }
        Some(0) => {}
        _ => {
            res.out = format!("ABNORMAL {}", exit_label(&output.status));
            let class = if c.local && stderr.contains("debuginfo.rs") && stderr.contains("not implemented") {
                "use-local-debuginfo-panics-on-unsupported-cpu"
            } else {
                "abnormal-exit"
            };
            res.oracle.push((class.into(), format!("{cmdline}: status {:?} ({})", output.status, stderr.lines().last().unwrap_or(""))));
            let _ = std::fs::remove_dir_all(&dir);
            return res;
        }
    }
    res.nontrivial = true;
    let all: Vec<PathBuf> = named.iter().cloned().chain(positional.iter().cloned()).collect();
    // the report of the library for a candidate plan, in the shape the tool was asked for
    let lib_cache2 = dir.join("cache-lib");
    let lib_tmp2 = dir.join("tmp-lib");
    let render = |recover: bool, evil: bool, supplier: u8, paths: &Vec<PathBuf>| -> (Vec<u8>, Vec<u8>) {
        let _ = std::fs::remove_dir_all(&lib_cache2);
        std::fs::create_dir_all(&lib_cache2).unwrap();
        std::fs::create_dir_all(&lib_tmp2).unwrap();
        let plan = LibPlan {
            recover,
            evil: if evil { Some(evil_path.clone()) } else { None },
            supplier,
            paths: paths.clone(),
            urls: if supplier == 2 { vec![symbol_server().clone()] } else { vec![] },
            cache: lib_cache2.clone(),
            tmp: lib_tmp2.clone(),
        };
        let key = format!("opt|{recover}|{evil}|{supplier}|{}", paths.iter().map(|p| p.display().to_string()).collect::<Vec<_>>().join(","));
        let lib = if supplier == 2 { Arc::new(library(&dump_path, &plan)) } else { lib_cached(&key, || library(&dump_path, &plan)) };
        match c.mode {
            'j' => (lib.json.bytes.clone(), vec![]),
            'c' => (lib.human.bytes.clone(), lib.json.bytes.clone()),
            _ => (lib.human.bytes.clone(), vec![]),
        }
    };
    let got = (output.stdout.clone(), std::fs::read(&cyborg_file).unwrap_or_default());
    let label = |recover: bool, evil: bool, supplier: u8, n_named: usize, n_pos: usize, order_swapped: bool| -> String {
        let ids = if order_swapped {
            [ids_of(n_pos, 'p'), ids_of(n_named, 'a')].iter().filter(|s| *s != "-").cloned().collect::<Vec<_>>().join(",")
        } else {
            [ids_of(n_named, 'a'), ids_of(n_pos, 'p')].iter().filter(|s| *s != "-").cloned().collect::<Vec<_>>().join(",")
        };
        let ids = if ids.is_empty() { "-".to_string() } else { ids };
        let sup = match supplier {
            0 => "none".to_string(),
            1 => format!("simple:{ids}"),
            _ => format!("http:{ids}:1:CACHE:TMP:30"),
        };
        format!("ok evil:{} rec:{} sup:{sup}", evil as u8, recover as u8)
    };
    // the plan main.rs is expected to build (hand-mirrored; the Lean model `plan` must say the same):
    // "unstable-all enables: --recover-function-args", the flag only adds
    let exp_sup: u8 = if c.url { 2 } else if !all.is_empty() { 1 } else { 0 };
    let exp_rec = c.rec || c.feat == 2;
    let mut named_as: Option<String> = None;
    if render(exp_rec, c.evil, exp_sup, &all) == got {
        named_as = Some(label(exp_rec, c.evil, exp_sup, named.len(), positional.len(), false));
    } else {
        // which plan DID the tool use?
        let swapped: Vec<PathBuf> = positional.iter().cloned().chain(named.iter().cloned()).collect();
        let alts: Vec<(bool, bool, u8, Vec<PathBuf>, usize, usize, bool)> = vec![
            (!exp_rec, c.evil, exp_sup, all.clone(), named.len(), positional.len(), false),
            (exp_rec, !c.evil, exp_sup, all.clone(), named.len(), positional.len(), false),
            (exp_rec, c.evil, exp_sup, named.clone(), named.len(), 0, false),
            (exp_rec, c.evil, exp_sup, positional.clone(), 0, positional.len(), false),
            (exp_rec, c.evil, exp_sup, swapped, named.len(), positional.len(), true),
            (exp_rec, c.evil, exp_sup, vec![], 0, 0, false),
            (exp_rec, c.evil, 0, vec![], 0, 0, false),
            (exp_rec, c.evil, 1, all.clone(), named.len(), positional.len(), false),
        ];
        for (r, e, s, paths, nn, np, sw) in alts {
            if s == 1 && paths.is_empty() {
                continue;
            }
            if render(r, e, s, &paths) == got {
                named_as = Some(label(r, e, s, nn, np, sw));
                break;
            }
        }
    }
    match named_as {
        Some(l) => res.out = l,
        None => res.out = format!("UNKNOWN-PLAN[stdout {} bytes fnv {:016x}]", got.0.len(), fnv64(&got.0)),
    }
    let expected_label = label(exp_rec, c.evil, exp_sup, named.len(), positional.len(), false);
    if res.out != expected_label {
        // the documentation of --features: "unstable-all enables: --recover-function-args"
        let class = if c.feat == 2 && !c.rec && res.out == label(false, c.evil, exp_sup, named.len(), positional.len(), false) {
            "features-unstable-all-does-not-enable-recover-function-args"
        } else {
            "report-differs-from-library-with-the-given-options"
        };
        res.oracle.push((
            class.into(),
            format!("{cmdline}: the report is not what the library produces for these options (expected plan `{expected_label}`, the tool behaved like `{}`)", res.out),
        ));
    }
    if !stderr.trim().is_empty() {
        res.oracle.push(("success-with-diagnostic".into(), format!("{cmdline}: status 0 but standard error says: {}", stderr.lines().next().unwrap_or(""))));
    }
    res.tags.push(format!("opt-feat:{}", c.feat));
    res.tags.push(format!("opt-sup:{exp_sup}"));
    let _ = std::fs::remove_dir_all(&dir);
    res
}

// ------------------------------------------------------------------------------------------------
// kind 4: `--dump` on synthesized dumps containing every stream type in combinations
// ------------------------------------------------------------------------------------------------

/// the stream kinds the generator knows (index = bit in the masks)
const KINDS: [&str; 25] = [
    "ThreadList", "ModuleList", "UnloadedModuleList", "HandleData", "MemoryList", "Memory64List", "MemoryInfoList", "LinuxMaps",
    "ThreadInfoList", "SystemInfo", "MiscInfo", "MacCrashInfo", "MacBootargs", "LinuxLsbRelease", "LinuxEnviron", "LinuxProcStatus",
    "MozLinuxLimits", "MozSoftErrors", "LinuxCpuInfo", "BreakpadInfo", "Exception", "Assertion", "CrashpadInfo", "ThreadNames", "LinuxCmdLine",
];

fn stream_type_of(kind: usize) -> u32 {
    use md::MINIDUMP_STREAM_TYPE as S;
    (match kind {
        0 => S::ThreadListStream,
        1 => S::ModuleListStream,
        2 => S::UnloadedModuleListStream,
        3 => S::HandleDataStream,
        4 => S::MemoryListStream,
        5 => S::Memory64ListStream,
        6 => S::MemoryInfoListStream,
        7 => S::LinuxMaps,
        8 => S::ThreadInfoListStream,
        9 => S::SystemInfoStream,
        10 => S::MiscInfoStream,
        11 => S::MozMacosCrashInfoStream,
        12 => S::MozMacosBootargsStream,
        13 => S::LinuxLsbRelease,
        14 => S::LinuxEnviron,
        15 => S::LinuxProcStatus,
        16 => S::MozLinuxLimits,
        17 => S::MozSoftErrors,
        18 => S::LinuxCpuInfo,
        19 => S::BreakpadInfoStream,
        20 => S::ExceptionStream,
        21 => S::AssertionInfoStream,
        22 => S::CrashpadInfoStream,
        23 => S::ThreadNamesStream,
        _ => S::LinuxCmdLine,
    }) as u32
}

fn simple_stream(kind: usize, section: Section) -> synth::SimpleStream {
    synth::SimpleStream { stream_type: stream_type_of(kind), section }
}

/// `ok`: kinds present and well-formed; `bad`: kinds present with a body the reader rejects;
/// `dup`: kinds that get a second directory entry (the reader keeps the last one)
fn build_dump(ok: u32, bad: u32, dup: u32, seed: u64) -> Vec<u8> {
    let e = Endian::Little;
    let mut rng = Rng::new(seed);
    let has = |k: usize| ok & (1 << k) != 0;
    let mut d = synth::SynthMinidump::with_endian(e);
    if has(9) {
        d = d.add_system_info(
            synth::SystemInfo::new(e)
                .set_processor_architecture(md::ProcessorArchitecture::PROCESSOR_ARCHITECTURE_INTEL as u16)
                .set_platform_id(*rng.pick(&[2u32, 0x8201])),
        );
    }
    // memory: two regions for the plain list, two others for the 64-bit list; thread stacks live in whichever exists
    let stack_addr = 0x1000_0000u64;
    let mk_mem = |addr: u64, fill: u8, len: usize| synth::Memory::with_section(Section::with_endian(e).append_repeated(fill, len), addr);
    let nthreads = if has(0) { 1 + rng.below(2) } else { 0 };
    for t in 0..nthreads {
        let stack = mk_mem(stack_addr + 0x1000 * t, 0x40 + t as u8, 32 + rng.below(64) as usize);
        let ctx = synth::x86_context(e, 0xabcd1234, (stack_addr + 0x1000 * t) as u32 + 8);
        let thread = synth::Thread::new(e, 0x100 + t as u32, &stack, &ctx);
        d = d.add_thread(thread).add(ctx);
        // the stack bytes are in the file either way; they are LISTED only when that list is wanted
        if has(4) && (t == 0 || !has(5)) {
            d = d.add_memory(stack);
        } else if has(5) {
            d = d.add_memory64(stack);
        } else {
            d = d.add(stack);
        }
    }
    if has(4) {
        d = d.add_memory(mk_mem(0x2000_0000, 0x11, 16 + rng.below(48) as usize));
    }
    if has(5) {
        d = d.add_memory64(mk_mem(0x3000_0000, 0x22, 16 + rng.below(48) as usize));
        d = d.add_memory64(mk_mem(0x3000_1000, 0x23, 8));
    }
    if has(1) {
        for i in 0..1 + rng.below(2) {
            let name = synth::DumpString::new(&format!("c:\\mod{i}.dll"), e);
            let module = synth::Module::new(e, 0x4000_0000 + 0x10_0000 * i, 0x4000, &name, 0xb1054d2a, 0x34571371, None);
            d = d.add_module(module).add(name);
        }
    }
    if has(2) {
        let name = synth::DumpString::new("gone.dll", e);
        d = d.add_unloaded_module(synth::UnloadedModule::new(e, 0x5000_0000, 0x2000, &name, 0x1, 0x2)).add(name);
    }
    if has(3) {
        let tn = synth::DumpString::new("File", e);
        let on = synth::DumpString::new("\\Device\\x", e);
        d = d.add_handle_descriptor(synth::HandleDescriptor::new(e, 0x1234, Some(&tn), Some(&on), 0x12, 0x34, 1, 2)).add(tn).add(on);
    }
    if has(6) {
        d = d.add_memory_info(synth::MemoryInfo::new(
            e,
            0x7000_0000,
            0x7000_0000,
            md::MemoryProtection::PAGE_EXECUTE_READ.bits(),
            0x1000,
            md::MemoryState::MEM_COMMIT.bits(),
            md::MemoryProtection::PAGE_READWRITE.bits(),
            md::MemoryType::MEM_PRIVATE.bits(),
        ));
    }
    if has(7) {
        d = d.set_linux_maps(b"00400000-00452000 r-xp 00000000 08:01 1234                       /bin/foo\n");
    }
    if has(8) {
        // MINIDUMP_THREAD_INFO_LIST: header size, entry size, count, then one 64-byte entry
        let s = Section::with_endian(e).D32(12).D32(64).D32(1).D32(0x100).D32(0).D32(0).D32(0).D64(1).D64(0).D64(2).D64(3).D64(0x1234).D64(1);
        d = d.add_stream(simple_stream(8, s));
    }
    if has(10) {
        let mut misc = synth::MiscStream::new(e);
        misc.process_id = Some(1234);
        d = d.add_stream(misc);
    }
    if has(11) {
        // MINIDUMP_MAC_CRASH_INFO with zero records
        let s = Section::with_endian(e).D32(stream_type_of(11)).D32(0).D32(0).append_repeated(0, 20 * 8);
        d = d.add_stream(simple_stream(11, s));
    }
    if has(12) {
        let s = Section::with_endian(e).D32(stream_type_of(12)).D64(0);
        d = d.add_stream(simple_stream(12, s));
    }
    if has(13) {
        d = d.set_linux_lsb_release(b"DISTRIB_ID=Ubuntu\nDISTRIB_RELEASE=\"20.04\"\n");
    }
    if has(14) {
        d = d.set_linux_environ(b"A=b\0C=d\0");
    }
    if has(15) {
        d = d.set_linux_proc_status(b"Name:\tfoo\nPid:\t42\n");
    }
    if has(16) {
        d = d.set_linux_proc_limits(b"Limit Soft Hard Units\nMax cpu time unlimited unlimited seconds\n");
    }
    if has(17) {
        d = d.set_soft_errors("[{\"a\":1}]");
    }
    if has(18) {
        d = d.set_linux_cpu_info(b"processor : 0\nmodel name : x\n\nmicrocode : 0x1\n");
    }
    if has(19) {
        d = d.add_stream(simple_stream(19, Section::with_endian(e).D32(3).D32(0x100).D32(0x100)));
    }
    if has(20) {
        let mut x = synth::Exception::new(e);
        x.thread_id = 0x100;
        x.exception_record.exception_code = 0xC0000005;
        x.exception_record.exception_address = 0xabcd1234;
        x.exception_record.number_parameters = 2;
        x.exception_record.exception_information[1] = 0x45;
        d = d.add_exception(x);
    }
    if has(21) {
        let mut s = Section::with_endian(e);
        for field in ["expr", "func", "file.c"] {
            let mut units: Vec<u16> = field.encode_utf16().collect();
            units.resize(128, 0);
            for u in units {
                s = s.D16(u);
            }
        }
        d = d.add_stream(simple_stream(21, s.D32(42).D32(1)));
    }
    if has(22) {
        let module = synth::ModuleCrashpadInfo::new(0, e).add_list_annotation("annotation").add_simple_annotation("simple", "module");
        d = d.add_crashpad_info(synth::CrashpadInfo::new(e).add_module(module).add_simple_annotation("simple", "info"));
    }
    if has(23) {
        let name = synth::DumpString::new("worker", e);
        d = d.add_thread_name(synth::ThreadName::new(e, 0x100, Some(&name))).add(name);
    }
    if has(24) {
        d = d.add_stream(simple_stream(24, Section::with_endian(e).append_bytes(b"/bin/foo\0--flag\0")));
    }
    // unreadable bodies (3 bytes of garbage), and second directory entries
    for k in 0..25 {
        if bad & (1 << k) != 0 && !has(k) {
            d = d.add_stream(simple_stream(k, Section::with_endian(e).append_bytes(&[0xff, 0xfe, 0xfd])));
        }
    }
    for k in 0..25 {
        if dup & (1 << k) != 0 {
            // a second entry of the same type: an empty text stream / a truncated binary one
            d = d.add_stream(simple_stream(k, Section::with_endian(e).append_bytes(b"dup\n")));
        }
    }
    d.finish().unwrap_or_default()
}

struct DumpCase {
    brief: bool,
    ok: u32,
    bad: u32,
    dup: u32,
    seed: u64,
}

fn parse_dump(case: &str) -> Option<DumpCase> {
    let f: Vec<&str> = case.split(' ').filter(|s| !s.is_empty()).collect();
    if f.len() != 7 || f[0] != "cli" || f[1] != "dump" {
        return None;
    }
    Some(DumpCase {
        brief: f[2].strip_prefix("b:")? == "1",
        ok: u32::from_str_radix(f[3].strip_prefix("ok:")?, 16).ok()?,
        bad: u32::from_str_radix(f[4].strip_prefix("bad:")?, 16).ok()?,
        dup: u32::from_str_radix(f[5].strip_prefix("dup:")?, 16).ok()?,
        seed: f[6].strip_prefix("seed:")?.parse().ok()?,
    })
}

/// `dump.get_stream::<T>()` for every stream type of the minidump crate: (rust type, state)
fn stream_states<'a, T: Deref<Target = [u8]> + 'a>(dump: &'a Minidump<'a, T>) -> Vec<(&'static str, u8)> {
    let mut v = vec![];
    macro_rules! st {
        ($t:ty, $name:expr) => {
            v.push(($name, match dump.get_stream::<$t>() {
                Ok(_) => 2u8,
                Err(Error::StreamNotFound) => 0,
                Err(_) => 1,
            }));
        };
    }
    st!(MinidumpThreadNames, "MinidumpThreadNames");
    st!(MinidumpModuleList, "MinidumpModuleList");
    st!(MinidumpUnloadedModuleList, "MinidumpUnloadedModuleList");
    st!(MinidumpHandleDataStream, "MinidumpHandleDataStream");
    st!(MinidumpMemoryList<'_>, "MinidumpMemoryList");
    st!(MinidumpMemory64List<'_>, "MinidumpMemory64List");
    st!(MinidumpMemoryInfoList<'_>, "MinidumpMemoryInfoList");
    st!(MinidumpLinuxMaps<'_>, "MinidumpLinuxMaps");
    st!(MinidumpThreadList<'_>, "MinidumpThreadList");
    st!(MinidumpThreadInfoList, "MinidumpThreadInfoList");
    st!(MinidumpSystemInfo, "MinidumpSystemInfo");
    st!(MinidumpMiscInfo, "MinidumpMiscInfo");
    st!(MinidumpMacCrashInfo, "MinidumpMacCrashInfo");
    st!(MinidumpMacBootargs, "MinidumpMacBootargs");
    st!(MinidumpLinuxLsbRelease<'_>, "MinidumpLinuxLsbRelease");
    st!(MinidumpLinuxEnviron<'_>, "MinidumpLinuxEnviron");
    st!(MinidumpLinuxProcStatus<'_>, "MinidumpLinuxProcStatus");
    st!(MinidumpLinuxProcLimits<'_>, "MinidumpLinuxProcLimits");
    st!(MinidumpSoftErrors<'_>, "MinidumpSoftErrors");
    st!(MinidumpLinuxCpuInfo<'_>, "MinidumpLinuxCpuInfo");
    st!(MinidumpBreakpadInfo, "MinidumpBreakpadInfo");
    st!(MinidumpException<'_>, "MinidumpException");
    st!(MinidumpAssertion, "MinidumpAssertion");
    st!(MinidumpCrashpadInfo, "MinidumpCrashpadInfo");
    v
}

fn dump_model_request(case: &str) -> Option<String> {
    let c = parse_dump(case)?;
    let bytes = build_dump(c.ok, c.bad, c.dup, c.seed);
    let dump = Minidump::read(bytes).ok()?;
    let states = stream_states(&dump);
    let list = |want: u8| {
        let v: Vec<&str> = states.iter().filter(|(_, s)| *s == want).map(|(n, _)| *n).collect();
        if v.is_empty() { "-".to_string() } else { v.join(",") }
    };
    let raws: Vec<&str> = RAW_STREAMS.iter().filter(|(t, _)| dump.get_raw_stream(*t as u32).is_ok()).map(|(_, n)| *n).collect();
    Some(format!("cli dumpsecs b:{} ok:{} bad:{} raw:{}", c.brief as u8, list(2), list(1), if raws.is_empty() { "-".to_string() } else { raws.join(",") }))
}

fn dump_exec(case: &str) -> ImplResult {
    let mut res = ImplResult::default();
    let Some(c) = parse_dump(case) else {
        res.out = "bad-op".into();
        return res;
    };
    let dir = fresh_dir("d");
    let bytes = build_dump(c.ok, c.bad, c.dup, c.seed);
    let path = dir.join("synth.dmp");
    std::fs::write(&path, &bytes).unwrap();
    let mut args: Vec<String> = vec!["--dump".into()];
    if c.brief {
        args.push("--brief".into());
    }
    args.push(path.display().to_string());
    let kinds = |m: u32| (0..25).filter(|k| m & (1 << k) != 0).map(|k| KINDS[k]).collect::<Vec<_>>().join(",");
    let cmdline = format!(
        "minidump-stackwalk {} (synthesized dump: streams {}; unreadable {}; duplicated {})",
        args.join(" "),
        kinds(c.ok),
        kinds(c.bad),
        kinds(c.dup)
    );
    let output = match base_command().args(&args).output() {
        Ok(o) => o,
        Err(e) => {
            res.out = format!("cannot run tool: {e}");
            res.oracle.push(("tool-not-runnable".into(), format!("{}: {e}", tool().display())));
            return res;
        }
    };
    let r = catch(|| {
        let dump = Minidump::read(bytes.clone()).ok()?;
        let exp = lib_sections(&dump, c.brief);
        let got = segment(&dump, &exp, &output.stdout, c.brief);
        Some((exp.into_iter().map(|(l, _)| l).collect::<Vec<_>>(), got, stream_states(&dump)))
    });
    match (output.status.code(), r) {
        (Some(0), Ok(Some((exp, got, states)))) => {
            res.nontrivial = true;
            res.out = got.join(";");
            res.tags.push(format!("dump-sections:{}", got.len().min(30) / 5 * 5));
            // every stream type the library can print and the dump contains is printed exactly once
            if got != exp {
                let missing: Vec<&String> = exp.iter().filter(|l| !got.contains(l)).collect();
                let extra: Vec<&String> = got.iter().filter(|l| !exp.contains(l) || got.iter().filter(|x| x == l).count() > 1).collect();
                res.oracle.push((
                    "dump-sections-differ-from-the-library's-printers".into(),
                    format!("{cmdline}: missing {missing:?}, unexpected/duplicated {extra:?}; printed {got:?}"),
                ));
            }
            if states.iter().any(|(n, s)| *n == "MinidumpMemoryList" && *s == 2) && states.iter().any(|(n, s)| *n == "MinidumpMemory64List" && *s == 2) {
                res.tags.push("dump:both-memory-lists".into());
            }
            if states.iter().any(|(_, s)| *s == 1) {
                res.tags.push("dump:unreadable-stream".into());
            }
        }
        (Some(1), Ok(None)) => res.out = "exit1".into(),
        (code, lib) => {
            res.out = format!("ABNORMAL {}", exit_label(&output.status));
            res.oracle.push((
                if lib.is_err() { "library-panics-on-file" } else { "abnormal-exit" }.into(),
                format!("{cmdline}: status {code:?}, library: {:?} ({})", lib.map(|x| x.is_some()), String::from_utf8_lossy(&output.stderr).lines().last().unwrap_or("")),
            ));
        }
    }
    let _ = std::fs::remove_dir_all(&dir);
    res
}

// ------------------------------------------------------------------------------------------------
// kind 5: the output path is the minidump itself
// ------------------------------------------------------------------------------------------------

fn selfout_exec(case: &str) -> ImplResult {
    let mut res = ImplResult::default();
    let which = case.split(' ').nth(2).unwrap_or("");
    let dir = fresh_dir("s");
    let path = dir.join("in.dmp");
    std::fs::copy(repo().join("testdata/test.dmp"), &path).unwrap();
    let p = path.display().to_string();
    let args: Vec<String> = match which {
        "out" => vec!["--output-file".into(), p.clone(), p.clone()],
        "cy" => vec!["--cyborg".into(), p.clone(), p.clone()],
        "log" => vec!["--log-file".into(), p.clone(), p.clone()],
        _ => {
            res.out = "bad-op".into();
            return res;
        }
    };
    let output = base_command().args(&args).output();
    let _ = std::fs::remove_dir_all(&dir);
    let Ok(output) = output else {
        res.out = "cannot run tool".into();
        return res;
    };
    res.out = format!("exit:{}", exit_label(&output.status));
    res.nontrivial = true;
    // "It never ends by panic, abort or signal"
    if !matches!(output.status.code(), Some(0) | Some(1) | Some(2)) {
        res.oracle.push((
            "killed-by-signal-when-an-output-path-is-the-minidump".into(),
            format!("minidump-stackwalk {} (in.dmp = a copy of testdata/test.dmp): status {:?}", args.join(" ").replace(&p, "in.dmp"), output.status),
        ));
    }
    res
}

// ------------------------------------------------------------------------------------------------
// the engine
// ------------------------------------------------------------------------------------------------

fn kind_of(case: &str) -> &str {
    case.split(' ').filter(|s| !s.is_empty()).nth(1).unwrap_or("")
}

/// `hm`: bit 0 = `--help-markdown`, bit 1 = `--use-local-debuginfo`
fn io_line(flags: &str, v: u8, hm: u8, input: &str, cy: &str, out: &str, log: &str, so: &str, lim: &str, fs: &[&str]) -> String {
    // the special ids carry their kind; listed ids are sorted and unique
    let mut items: Vec<String> = fs.iter().map(|s| s.to_string()).collect();
    for id in [cy, out, log] {
        let spec = match id {
            "F" => "F=full",
            "Z" => "Z=null",
            "D" => "D=dir",
            "N" => "N=nodir",
            _ => continue,
        };
        if !items.iter().any(|i| i == spec) {
            items.push(spec.to_string());
        }
    }
    items.sort();
    items.dedup();
    format!(
        "cli io {flags} v:{v} hm:{} lu:{} in:{input} cy:{cy} out:{out} log:{log} so:{so} lim:{lim} fs:{}",
        hm & 1,
        hm >> 1,
        if items.is_empty() { "-".to_string() } else { items.join(";") }
    )
}

fn generate_io(emit: &mut dyn FnMut(String)) {
    let ok = "t:test.dmp";
    let single = ["-", "b", "j", "jp", "db", "h", "hb"];
    // (1) every single-report mode x primary writer x standard output
    for flags in single {
        for out in ["-", "a", "D", "N", "F", "Z"] {
            for so in ["ok", "full", "closed"] {
                emit(io_line(flags, 0, 0, ok, "-", out, "-", so, "-", &[]));
            }
        }
        // a pre-existing LONGER file at the output path, and an existing shorter one
        emit(io_line(flags, 0, 0, ok, "-", "a", "-", "ok", "-", &["a=file:400000:7"]));
        emit(io_line(flags, 0, 0, ok, "-", "a", "-", "ok", "-", &["a=file:10:3"]));
    }
    // (2) cyborg: cyborg file x output file x standard output
    for flags in ["c", "cb", "cp", "cbp"] {
        for cy in ["b", "D", "N", "F", "Z"] {
            for out in ["-", "a", "D", "N", "F"] {
                for so in ["ok", "full", "closed"] {
                    if so != "ok" && out != "-" && cy != "b" {
                        continue;
                    }
                    emit(io_line(flags, 0, 0, ok, cy, out, "-", so, "-", &[]));
                }
            }
        }
        emit(io_line(flags, 0, 0, ok, "b", "a", "-", "ok", "-", &["a=file:400000:1", "b=file:400000:2"]));
        emit(io_line(flags, 0, 0, ok, "b", "-", "-", "ok", "-", &["b=file:400000:2"]));
        // the same path twice
        emit(io_line(flags, 0, 0, ok, "a", "a", "-", "ok", "-", &[]));
        emit(io_line(flags, 0, 0, ok, "a", "a", "-", "ok", "-", &["a=file:400000:5"]));
    }
    // (3) the log file: created first; receives the diagnostics; same path as another option
    for (flags, cy) in [("-", "-"), ("j", "-"), ("c", "b"), ("db", "-"), ("p", "-"), ("jb", "-")] {
        for input in [ok, "missing", "synth:nosys"] {
            for log in ["l", "N", "D"] {
                emit(io_line(flags, 0, 0, input, cy, "a", log, "ok", "-", &["a=file:5000:4", "l=file:5000:9"]));
                emit(io_line(flags, 0, 0, input, cy, "-", log, "ok", "-", &[]));
            }
        }
    }
    emit(io_line("-", 0, 0, ok, "-", "a", "a", "ok", "-", &["a=file:5000:4"]));
    emit(io_line("c", 0, 0, ok, "a", "-", "a", "ok", "-", &[]));
    emit(io_line("j", 0, 0, ok, "-", "a", "a", "ok", "-", &[]));
    // (4) inputs x modes (files created before processing; nothing touched when the dump is unreadable)
    for input in ["missing", "empty", "dir", "synth:nosys", "t:linux-mini.dmp"] {
        for (flags, cy) in [("-", "-"), ("b", "-"), ("j", "-"), ("c", "b"), ("db", "-"), ("d", "-"), ("p", "-"), ("jb", "-"), ("hj", "-")] {
            emit(io_line(flags, 0, 0, input, cy, "a", "-", "ok", "-", &["a=file:3000:4", "b=file:3000:6"]));
            emit(io_line(flags, 0, 0, input, cy, "-", "-", "ok", "-", &[]));
            emit(io_line(flags, 1, 0, input, cy, "-", "-", "ok", "-", &[]));
            emit(io_line(flags, 1, 0, input, cy, "-", "l", "ok", "-", &[]));
        }
    }
    // (5) failure points: a size limit on every regular file (disk full / quota), at several offsets of each report
    let sizes = |flags: &str| -> Vec<u64> {
        // lengths of the reports of test.dmp are not known here: offsets are spread over 0..12000
        let _ = flags;
        vec![0, 1, 512, 1000, 1700, 1749, 1750, 3000, 7000, 7136, 7137, 10169, 10170, 20000]
    };
    for flags in ["-", "b", "j", "jp"] {
        for n in sizes(flags) {
            let n = n.to_string();
            emit(io_line(flags, 0, 0, ok, "-", "a", "-", "ok", &n, &[]));
            // standard output redirected to a regular file under the same limit
            emit(io_line(flags, 0, 0, ok, "-", "-", "-", &format!("cap:{n}"), &n, &[]));
        }
    }
    for flags in ["c", "cp"] {
        for n in sizes(flags) {
            let n = n.to_string();
            emit(io_line(flags, 0, 0, ok, "b", "a", "-", "ok", &n, &[]));
            emit(io_line(flags, 0, 0, ok, "b", "-", "-", "ok", &n, &[]));
        }
    }
    for n in [0u64, 100, 5000, 100000] {
        emit(io_line("db", 0, 0, ok, "-", "a", "-", "ok", &n.to_string(), &[]));
        emit(io_line("db", 0, 0, ok, "-", "-", "-", &format!("cap:{n}"), &n.to_string(), &[]));
    }
    // (5b) --use-local-debuginfo: an x86 dump (refused: status 1 after the files were created), a missing
    // file, a dump without system info
    for (flags, cy) in [("-", "-"), ("b", "-"), ("j", "-"), ("c", "b"), ("db", "-"), ("p", "-")] {
        for input in [ok, "missing", "synth:nosys"] {
            emit(io_line(flags, 0, 2, input, cy, "-", "-", "ok", "-", &[]));
            emit(io_line(flags, 0, 2, input, cy, "a", "l", "ok", "-", &["a=file:3000:4", "b=file:3000:6"]));
            emit(io_line(flags, 1, 2, input, cy, "a", "-", "ok", "-", &[]));
        }
    }
    // (6) the hidden --help-markdown (a member of the format group): healthy and failing standard output
    emit(io_line("-", 0, 1, ok, "-", "-", "-", "ok", "-", &[]));
    emit(io_line("-", 0, 1, ok, "-", "a", "l", "ok", "-", &[]));
    emit(io_line("-", 0, 1, ok, "-", "-", "-", "full", "-", &[]));
    emit(io_line("j", 0, 1, ok, "-", "-", "-", "ok", "-", &[]));
    emit(io_line("-", 0, 1, "missing", "-", "-", "-", "ok", "-", &[]));
}

fn generate_opt(tier: Tier, emit: &mut dyn FnMut(String)) {
    for feat in 0..4 {
        for rec in 0..2 {
            for evil in 0..2 {
                for sym in 0..5 {
                    for mode in ['h', 'j', 'c'] {
                        if tier == Tier::Quick && mode == 'c' && (feat + rec + evil + sym) % 2 == 1 {
                            continue;
                        }
                        emit(format!("cli opt feat:{feat} rec:{rec} evil:{evil} sym:{sym} url:0 local:0 noint:1 mode:{mode}"));
                    }
                }
            }
        }
    }
    // symbols over HTTP (loopback server): with and without local paths; the other switches
    for feat in [0, 2] {
        for rec in 0..2 {
            for sym in 0..5 {
                emit(format!("cli opt feat:{feat} rec:{rec} evil:0 sym:{sym} url:1 local:0 noint:1 mode:h"));
            }
        }
    }
    for sym in [0, 1, 2, 3] {
        for mode in ['h', 'j'] {
            emit(format!("cli opt feat:0 rec:1 evil:0 sym:{sym} url:0 local:1 noint:1 mode:{mode}"));
            emit(format!("cli opt feat:0 rec:1 evil:1 sym:{sym} url:0 local:0 noint:0 mode:{mode}"));
        }
    }
}

fn generate_dump(tier: Tier, rng: &mut Rng, emit: &mut dyn FnMut(String)) {
    let all: u32 = (1 << 25) - 1;
    let mut masks: Vec<(u32, u32, u32)> = vec![(0, 0, 0), (all, 0, 0)];
    for k in 0..25 {
        masks.push((1 << k, 0, 0));
        masks.push((all & !(1 << k), 0, 0));
        // the stream alone, unreadable; and unreadable among all the others
        masks.push((0, 1 << k, 0));
        masks.push((all & !(1 << k), 1 << k, 0));
    }
    // the memory lists, the thread list and what the thread list borrows, in every combination
    for m in 0..32u32 {
        let pick = |bit: u32, k: u32| if m & (1 << bit) != 0 { 1 << k } else { 0 };
        let ok = pick(0, 0) | pick(1, 4) | pick(2, 5) | pick(3, 9) | pick(4, 10);
        masks.push((ok, 0, 0));
        masks.push((ok | (1 << 20) | (1 << 1), 0, 0));
    }
    for k in [0u32, 1, 4, 5, 7, 9, 13, 20, 22] {
        masks.push((all, 0, 1 << k));
        masks.push((1 << k | 1 << 9, 0, 1 << k));
    }
    let n = if tier == Tier::Quick { 120 } else { 600 };
    for _ in 0..n {
        let ok = (rng.next() as u32) & all;
        let bad = if rng.chance(1, 3) { (rng.next() as u32) & (rng.next() as u32) & all & !ok } else { 0 };
        let dup = if rng.chance(1, 6) { 1 << rng.below(25) } else { 0 };
        masks.push((ok, bad, dup));
    }
    for (i, (ok, bad, dup)) in masks.iter().enumerate() {
        for b in 0..2 {
            if tier == Tier::Quick && i >= 102 && (i + b) % 2 == 1 {
                continue;
            }
            emit(format!("cli dump b:{b} ok:{ok:x} bad:{bad:x} dup:{dup:x} seed:{}", 1 + (i as u64 % 7)));
        }
    }
}

impl Engine for Cli {
    fn name(&self) -> &'static str {
        "cli"
    }
    fn rule(&self) -> String {
        "five kinds of cases, each one run of the built minidump-stackwalk binary: (tab) all 64 subsets of the six format flags x files (repo dumps, missing, empty, directory, garbage, truncations, byte-mutated dumps) with --features/--output-file (over a longer pre-existing file)/--log-file/symbol-path forms cycled, vs the Lean decision table and the library's reports; (io) a described world — output/cyborg/log paths that are absent, pre-existing and longer, directories, uncreatable, /dev/full, /dev/null, the same path twice, a file-size limit at many offsets of each report (RLIMIT_FSIZE with SIGXFSZ ignored), standard output healthy / /dev/full / a pipe without reader / a size-limited regular file, --verbose off, --help-markdown — vs MdModel.Cli.run (exit status, bytes on stdout, diagnostic class, final state of every named path); (opt) --features x --recover-function-args x --evil-json x symbol path forms x --symbols-url (loopback server) x modes vs MdModel.Cli.plan and vs the library called in-process with the planned options; (dump) --dump [--brief] on synthesized dumps containing each of 25 stream kinds alone / all / all but one / unreadable / duplicated / random subsets, every combination of both memory lists + thread list + system/misc info, vs MdModel.Cli.dumpSections and the library's per-stream printers; (selfout) an output path that is the minidump. non-trivial = a report was due or written; distinct = distinct case line".into()
    }
    fn exhaustive_part(&self) -> Option<String> {
        Some("all 64 subsets of {human,json,cyborg,dump,brief,pretty} for every corpus file (the decision table's whole flag space); all 32 combinations of {thread list, memory list, memory-64 list, system info, misc info} for --dump; every stream kind alone, absent from the full set, and unreadable".into())
    }
    fn case_timeout_secs(&self) -> u64 {
        120
    }

    fn generate(&self, tier: Tier, rng: &mut Rng, emit: &mut dyn FnMut(String)) {
        // directed kinds first: they are the cheap ones
        generate_io(emit);
        generate_opt(tier, emit);
        generate_dump(tier, rng, emit);
        for which in ["out", "cy", "log"] {
            emit(format!("cli selfout {which}"));
        }
        // the decision table
        let mut files: Vec<String> = TESTDATA.iter().map(|n| format!("t:{n}")).collect();
        files.extend(["missing".to_string(), "empty".into(), "dir".into(), "synth:nosys".into()]);
        let extra = if tier == Tier::Quick { 6 } else { 24 };
        for _ in 0..extra {
            files.push(format!("garbage:{}", rng.below(1 << 32)));
            let name = *rng.pick(&["test.dmp", "linux-mini.dmp", "simple-crashpad.dmp"]);
            let len = std::fs::metadata(repo().join("testdata").join(name)).map(|m| m.len()).unwrap_or(1000);
            files.push(format!("trunc:{name}:{}", rng.below(len)));
            files.push(format!("mut:{name}:{}", rng.below(1 << 32)));
        }
        let mut k = 0u32;
        for file in &files {
            for mask in 0..64u32 {
                let mut flags = String::new();
                for (i, c) in "hjcdbp".chars().enumerate() {
                    if mask & (1 << i) != 0 {
                        flags.push(c);
                    }
                }
                if flags.is_empty() {
                    flags.push('-');
                }
                // cycle the options that do not take part in the decision
                k = k.wrapping_add(1);
                let variants: &[(u32, u32, u32, u32)] = if tier == Tier::Quick {
                    &[(0, 0, 0, 0)]
                } else {
                    &[(0, 0, 0, 0), (1, 1, 0, 1), (2, 0, 1, 2), (2, 1, 1, 0)]
                };
                for (vi, v) in variants.iter().enumerate() {
                    let (feat, out, log, sym) = if tier == Tier::Quick {
                        (k % 3, (k / 3) % 2, (k / 6) % 2, (k / 12) % 5)
                    } else {
                        (v.0, v.1, v.2, (v.3 + vi as u32 + k) % 5)
                    };
                    emit(format!("cli {flags} file:{file} feat:{feat} out:{out} log:{log} sym:{sym}"));
                }
            }
        }
    }

    fn model_request(&self, case: &str) -> Option<String> {
        match kind_of(case) {
            "io" => io_model_request(case),
            "opt" => opt_model_request(case),
            "dump" => dump_model_request(case),
            "selfout" => None,
            _ => tab_model_request(case),
        }
    }

    fn same(&self, impl_out: &str, model_out: &str) -> bool {
        impl_out == model_out || (impl_out.starts_with("ok evil:") && impl_out == opt_observable(model_out))
    }

    fn exec(&self, case: &str) -> ImplResult {
        match kind_of(case) {
            "io" => io_exec(case),
            "opt" => opt_exec(case),
            "dump" => dump_exec(case),
            "selfout" => selfout_exec(case),
            _ => tab_exec(case),
        }
    }
}
