//! Engine `cli` — placeholder (not written yet).
use crate::common::*;

pub struct Cli;

impl Engine for Cli {
    fn name(&self) -> &'static str {
        "cli"
    }
    fn rule(&self) -> String {
        "not implemented".into()
    }
    fn generate(&self, _tier: Tier, _rng: &mut Rng, _emit: &mut dyn FnMut(String)) {}
    fn exec(&self, _case: &str) -> ImplResult {
        ImplResult::default()
    }
}
