//! Engine `win` (C07): STACK WIN unwinding (`SymbolFile::walk_frame` → `walk_with_stack_win_framedata`
//! / `walk_with_stack_win_fpo` / `eval_win_expr`) against the Lean model `MdModel.Win`, plus the
//! property's own oracle on the implementation alone (a reference evaluation written from the
//! documentation at the top of `walker.rs`).
//!
//! case lines
//!   `win walk base:<hex> instr:<hex> gc:<0|1>:<hex> cfi:<0|1> regs:<name=hex,..|-> mem:<hexbase>:<hexbytes|->
//!             (rec:<ty>:<addr>:<size>:<par>:<sav>:<loc>:<hp>:<hex(rest)>)*`
//!       `walk_frame` with a mock `FrameWalker` that is the Rust twin of `CfiStackWalker<CONTEXT_X86>`
//!       (validity set seeded with the callee-saved registers valid in the callee; `set_caller_register`
//!       rejects unknown names and values ≥ 2^32; `clear_caller_register` removes the memoised name).
//!       answer: `none` | `some <valid caller registers, sorted> clears:<names passed to clear_caller_register>` | `PANIC`
//!   `win stack ...` same fields: the real x86 unwinder (`minidump_unwind::walk_stack`) on a synthetic
//!       context/stack/module with the records as its symbol file (oracle only, no model request).
//!   `win rw valid:<..> trust:<..> ...` the real `SymbolFile::walk_frame` on the real `CfiStackWalker<CONTEXT_X86>`
//!       (see win_rw.rs), compared with `MdModel.WinWalker` and with the mock twin.

use crate::common::*;
use breakpad_symbols::{FrameWalker, Module, SymbolFile};
use std::borrow::Cow;
use std::collections::{BTreeMap, BTreeSet};
use std::fmt::Write as _;

pub struct Win;

/// `win rw …`: the same STACK WIN evaluation on the REAL `CfiStackWalker<CONTEXT_X86>`
#[path = "win_rw.rs"]
mod rw;

const SIX: [&str; 6] = ["eip", "esp", "ebp", "ebx", "esi", "edi"];
const X86_REGS: [&str; 10] = ["eip", "esp", "ebp", "ebx", "esi", "edi", "eax", "ecx", "edx", "eflags"];
const CALLEE_SAVED: [&str; 4] = ["ebp", "ebx", "edi", "esi"];
const CFI_CFA: u32 = 4096;
const CFI_RA: u32 = 8192;

#[derive(Clone, Debug, PartialEq)]
struct Rec {
    ty: char,
    addr: u64,
    size: u32,
    par: u32,
    sav: u32,
    loc: u32,
    hp: char,
    rest: Vec<u8>,
}

#[derive(Clone, Debug)]
struct Case {
    mode: String,
    base: u64,
    instr: u64,
    has_gc: bool,
    gc_param: u32,
    cfi: bool,
    regs: Vec<(String, u32)>,
    mem_base: u64,
    mem: Vec<u8>,
    recs: Vec<Rec>,
}

fn hexu(s: &str) -> Option<u64> {
    if s.is_empty() || s.len() > 16 {
        return None;
    }
    u64::from_str_radix(s, 16).ok()
}
fn hex32(s: &str) -> Option<u32> {
    hexu(s).and_then(|v| u32::try_from(v).ok())
}

fn parse_case(case: &str) -> Option<Case> {
    let f: Vec<&str> = case.split(' ').filter(|s| !s.is_empty()).collect();
    if f.len() < 8 || f[0] != "win" || (f[1] != "walk" && f[1] != "stack") {
        return None;
    }
    let base = hexu(f[2].strip_prefix("base:")?)?;
    let instr = hexu(f[3].strip_prefix("instr:")?)?;
    let g: Vec<&str> = f[4].strip_prefix("gc:")?.split(':').collect();
    if g.len() != 2 || (g[0] != "0" && g[0] != "1") {
        return None;
    }
    let cfi = match f[5].strip_prefix("cfi:")? {
        "0" => false,
        "1" => true,
        _ => return None,
    };
    let mut regs = vec![];
    let rs = f[6].strip_prefix("regs:")?;
    if rs != "-" {
        for p in rs.split(',').filter(|s| !s.is_empty()) {
            let (n, v) = p.split_once('=')?;
            if v.contains('=') {
                return None;
            }
            regs.push((n.to_string(), hex32(v)?));
        }
    }
    let m: Vec<&str> = f[7].strip_prefix("mem:")?.split(':').collect();
    if m.len() != 2 {
        return None;
    }
    let mut recs = vec![];
    for s in &f[8..] {
        let p: Vec<&str> = s.strip_prefix("rec:")?.split(':').collect();
        if p.len() != 8 {
            return None;
        }
        let tyc: Vec<char> = p[0].chars().collect();
        let hpc: Vec<char> = p[6].chars().collect();
        if tyc.len() != 1 || hpc.len() != 1 {
            return None;
        }
        let rest = unhex(p[7])?;
        let r = Rec {
            ty: tyc[0],
            addr: hexu(p[1])?,
            size: hex32(p[2])?,
            par: hex32(p[3])?,
            sav: hex32(p[4])?,
            loc: hex32(p[5])?,
            hp: hpc[0],
            rest,
        };
        // what the line grammar can express (parser.rs:279-312): one hex digit, one decimal digit,
        // `rest` = valid UTF-8 up to the end of line, not starting with blank (eaten by `space1`)
        let Ok(text) = std::str::from_utf8(&r.rest) else { return None };
        if !r.ty.is_ascii_hexdigit()
            || !r.hp.is_ascii_digit()
            || text.contains('\r')
            || text.contains('\n')
            || text.starts_with(' ')
            || text.starts_with('\t')
        {
            return None;
        }
        recs.push(r);
    }
    Some(Case {
        mode: f[1].to_string(),
        base,
        instr,
        has_gc: g[0] == "1",
        gc_param: hex32(g[1])?,
        cfi,
        regs,
        mem_base: hexu(m[0])?,
        mem: unhex(m[1])?,
        recs,
    })
}

fn render(c: &Case) -> String {
    let mut s = format!(
        "win {} base:{:x} instr:{:x} gc:{}:{:x} cfi:{} regs:",
        c.mode,
        c.base,
        c.instr,
        if c.has_gc { 1 } else { 0 },
        c.gc_param,
        if c.cfi { 1 } else { 0 }
    );
    if c.regs.is_empty() {
        s.push('-');
    } else {
        s.push_str(&c.regs.iter().map(|(n, v)| format!("{n}={v:x}")).collect::<Vec<_>>().join(","));
    }
    let _ = write!(s, " mem:{:x}:{}", c.mem_base, hex(&c.mem));
    for r in &c.recs {
        let _ = write!(
            s,
            " rec:{}:{:x}:{:x}:{:x}:{:x}:{:x}:{}:{}",
            r.ty,
            r.addr,
            r.size,
            r.par,
            r.sav,
            r.loc,
            r.hp,
            hex(&r.rest)
        );
    }
    s
}

fn symbol_text(c: &Case) -> String {
    let mut text = String::new();
    for r in &c.recs {
        let _ = writeln!(
            text,
            "STACK WIN {} {:x} {:x} 0 0 {:x} {:x} {:x} 0 {} {}",
            r.ty,
            r.addr,
            r.size,
            r.par,
            r.sav,
            r.loc,
            r.hp,
            std::str::from_utf8(&r.rest).unwrap()
        );
    }
    if c.cfi {
        let _ = writeln!(text, "STACK CFI INIT 0 ffffffff .cfa: {CFI_CFA} .ra: {CFI_RA}");
    }
    if text.is_empty() {
        text.push_str("INFO x\n");
    }
    text
}

fn read_mem(base: u64, mem: &[u8], addr: u64) -> Option<u32> {
    let off = addr.checked_sub(base)?;
    let off = usize::try_from(off).ok()?;
    let end = off.checked_add(4)?;
    let b = mem.get(off..end)?;
    Some(u32::from_le_bytes([b[0], b[1], b[2], b[3]]))
}

// ------------------------------------------------------------------------------------ mock walker

struct MockModule {
    base: u64,
}
impl Module for MockModule {
    fn base_address(&self) -> u64 {
        self.base
    }
    fn size(&self) -> u64 {
        u64::MAX
    }
    fn code_file(&self) -> Cow<str> {
        Cow::Borrowed("m.dll")
    }
    fn code_identifier(&self) -> Option<debugid::CodeId> {
        None
    }
    fn debug_file(&self) -> Option<Cow<str>> {
        None
    }
    fn debug_identifier(&self) -> Option<debugid::DebugId> {
        None
    }
    fn version(&self) -> Option<Cow<str>> {
        None
    }
}

/// Rust twin of `CfiStackWalker<CONTEXT_X86>` (minidump-unwind/src/lib.rs:553-655).
struct MockWalker<'a> {
    case: &'a Case,
    callee: BTreeMap<&'a str, u32>,
    caller_vals: BTreeMap<String, u32>,
    caller_valid: BTreeSet<String>,
    clears: Vec<String>,
    /// successful `set_caller_register` calls, in order
    sets: Vec<(String, u64)>,
    /// every name `set_caller_register` was called with
    attempts: Vec<String>,
}
impl<'a> MockWalker<'a> {
    fn new(case: &'a Case) -> Self {
        let callee: BTreeMap<&str, u32> = case.regs.iter().map(|(n, v)| (n.as_str(), *v)).collect();
        let caller_vals = callee.iter().map(|(n, v)| (n.to_string(), *v)).collect();
        let caller_valid = CALLEE_SAVED.iter().filter(|r| callee.contains_key(**r)).map(|r| r.to_string()).collect();
        MockWalker { case, callee, caller_vals, caller_valid, clears: vec![], sets: vec![], attempts: vec![] }
    }
}
fn memoize(name: &str) -> Option<&'static str> {
    X86_REGS.iter().find(|r| **r == name).copied()
}
impl<'a> FrameWalker for MockWalker<'a> {
    fn get_instruction(&self) -> u64 {
        self.case.instr
    }
    fn has_grand_callee(&self) -> bool {
        self.case.has_gc
    }
    fn get_grand_callee_parameter_size(&self) -> u32 {
        self.case.gc_param
    }
    fn get_register_at_address(&self, address: u64) -> Option<u64> {
        read_mem(self.case.mem_base, &self.case.mem, address).map(|v| v as u64)
    }
    fn get_callee_register(&self, name: &str) -> Option<u64> {
        self.callee.get(name).map(|v| *v as u64)
    }
    fn set_caller_register(&mut self, name: &str, val: u64) -> Option<()> {
        self.attempts.push(name.to_string());
        let m = memoize(name)?;
        let v = u32::try_from(val).ok()?;
        self.sets.push((name.to_string(), val));
        self.caller_valid.insert(m.to_string());
        self.caller_vals.insert(m.to_string(), v);
        Some(())
    }
    fn clear_caller_register(&mut self, name: &str) {
        self.clears.push(name.to_string());
        if let Some(m) = memoize(name) {
            self.caller_valid.remove(m);
        }
    }
    fn set_cfa(&mut self, val: u64) -> Option<()> {
        let v = u32::try_from(val).ok()?;
        self.caller_valid.insert("esp".into());
        self.caller_vals.insert("esp".into(), v);
        Some(())
    }
    fn set_ra(&mut self, val: u64) -> Option<()> {
        let v = u32::try_from(val).ok()?;
        self.caller_valid.insert("eip".into());
        self.caller_vals.insert("eip".into(), v);
        Some(())
    }
}

// --------------------------------------------------------- reference evaluation (from the docs)
//
// Written from the `# STACK WIN` documentation at the top of walker.rs, not from the code:
// values are kept as i128 and reduced mod 2^32 after every operator.

const M32: i128 = 1 << 32;

#[derive(Clone, Debug, PartialEq)]
enum Doc {
    /// the record fails cleanly
    Fail,
    /// the caller's registers that are known afterwards (only names of the six can appear)
    Known(BTreeMap<&'static str, u32>),
}

#[derive(Clone)]
enum DocVal {
    Int(i128),
    Name(String),
    Undefined,
}

struct DocEnv<'a> {
    regs: BTreeMap<&'a str, u32>,
    case: &'a Case,
}
impl<'a> DocEnv<'a> {
    fn deref(&self, a: i128) -> Option<i128> {
        read_mem(self.case.mem_base, &self.case.mem, a as u64).map(|v| v as i128)
    }
}

fn doc_frame_size(r: &Rec, gc: u32) -> Option<i128> {
    // frame_size = local_size + saved_register_size + grand_callee_parameter_size; a sum that does not
    // fit the 32-bit quantities of the format is corrupt data: the record fails.
    let s = r.loc as i128 + r.sav as i128 + gc as i128;
    if s >= M32 {
        None
    } else {
        Some(s)
    }
}

fn doc_literal(tok: &str) -> Option<i128> {
    // "<a signed decimal integer>" of 32-bit precision
    let (neg, digits) = match tok.as_bytes().first()? {
        b'-' => (true, &tok[1..]),
        b'+' => (false, &tok[1..]),
        _ => (false, tok),
    };
    if digits.is_empty() || !digits.bytes().all(|b| b.is_ascii_digit()) {
        return None;
    }
    let mut v: i128 = 0;
    for b in digits.bytes() {
        v = v * 10 + (b - b'0') as i128;
        if v > (1 << 40) {
            return None;
        }
    }
    let v = if neg { -v } else { v };
    if v < -(1 << 31) || v > (1 << 31) - 1 {
        return None;
    }
    Some(v.rem_euclid(M32))
}

fn doc_framedata(r: &Rec, env: &DocEnv) -> Doc {
    let Ok(prog) = std::str::from_utf8(&r.rest) else { return Doc::Fail };
    let gc = env.case.gc_param;
    // "Before evaluating": $ebp and $esp must be known, $ebx is optional
    let (Some(esp), Some(ebp)) = (env.regs.get("esp"), env.regs.get("ebp")) else { return Doc::Fail };
    let mut vars: BTreeMap<String, i128> = BTreeMap::new();
    vars.insert("$esp".into(), *esp as i128);
    vars.insert("$ebp".into(), *ebp as i128);
    if let Some(ebx) = env.regs.get("ebx") {
        vars.insert("$ebx".into(), *ebx as i128);
    }
    // .raSearch = $esp + frame_size; with an `@` anywhere in the program the frame was realigned and
    // $ebp + 4 is used instead. A search start beyond the 32-bit address space fails the record.
    let ra_search = if prog.contains('@') {
        *ebp as i128 + 4
    } else {
        match doc_frame_size(r, gc) {
            Some(fs) => *esp as i128 + fs,
            None => return Doc::Fail,
        }
    };
    if ra_search >= M32 {
        return Doc::Fail;
    }
    vars.insert(".cbParams".into(), r.par as i128);
    vars.insert(".cbCalleeParams".into(), gc as i128);
    vars.insert(".cbSavedRegs".into(), r.sav as i128);
    vars.insert(".cbLocals".into(), r.loc as i128);
    vars.insert(".raSearch".into(), ra_search);
    vars.insert(".raSearchStart".into(), ra_search);

    // tokens: whitespace separated; the "=NEXT_TOKEN" spelling of some toolchains means "= NEXT_TOKEN"
    let mut toks: Vec<String> = vec![];
    for piece in prog.split(|c: char| c == ' ' || c == '\t' || c == '\x0c' || c == '\r' || c == '\n') {
        if piece.is_empty() {
            continue;
        }
        if piece.len() > 1 && piece.starts_with('=') {
            toks.push("=".into());
            toks.push(piece[1..].to_string());
        } else {
            toks.push(piece.to_string());
        }
    }
    let mut stack: Vec<DocVal> = vec![];
    fn int_of(v: DocVal, vars: &BTreeMap<String, i128>) -> Option<i128> {
        match v {
            DocVal::Int(i) => Some(i),
            DocVal::Name(n) => vars.get(&n).copied(),
            DocVal::Undefined => None,
        }
    }
    for t in &toks {
        match t.as_str() {
            "+" | "-" | "*" | "/" | "%" | "@" => {
                let (Some(b), Some(a)) = (stack.pop(), stack.pop()) else { return Doc::Fail };
                let (Some(b), Some(a)) = (int_of(b, &vars), int_of(a, &vars)) else { return Doc::Fail };
                let v = match t.as_str() {
                    "+" => a + b,
                    "-" => a - b,
                    "*" => a * b,
                    "/" => {
                        if b == 0 {
                            return Doc::Fail;
                        }
                        a / b
                    }
                    "%" => {
                        if b == 0 {
                            return Doc::Fail;
                        }
                        a % b
                    }
                    _ => {
                        // align: truncate a to a multiple of b, b a power of two
                        if b == 0 || (b & (b - 1)) != 0 {
                            return Doc::Fail;
                        }
                        a - a % b
                    }
                };
                stack.push(DocVal::Int(v.rem_euclid(M32)));
            }
            "^" => {
                let Some(p) = stack.pop() else { return Doc::Fail };
                let Some(p) = int_of(p, &vars) else { return Doc::Fail };
                let Some(v) = env.deref(p) else { return Doc::Fail };
                stack.push(DocVal::Int(v));
            }
            "=" => {
                let (Some(rhs), Some(lhs)) = (stack.pop(), stack.pop()) else { return Doc::Fail };
                let DocVal::Name(name) = lhs else { return Doc::Fail };
                match rhs {
                    DocVal::Undefined => {
                        vars.remove(&name);
                    }
                    other => {
                        let Some(v) = int_of(other, &vars) else { return Doc::Fail };
                        vars.insert(name, v);
                    }
                }
            }
            ".undef" => stack.push(DocVal::Undefined),
            name if name.starts_with('$') || name.starts_with('.') => stack.push(DocVal::Name(name.to_string())),
            other => match doc_literal(other) {
                Some(v) => stack.push(DocVal::Int(v)),
                None => return Doc::Fail, // not in the language (bare names are rejected by this implementation)
            },
        }
    }
    // "After evaluating": the caller's registers are $eip $esp $ebp $ebx $esi $edi; undefined ⇒ unknown
    let mut known = BTreeMap::new();
    for r in SIX {
        if let Some(v) = vars.get(&format!("${r}")) {
            known.insert(r, *v as u32);
        }
    }
    Doc::Known(known)
}

fn doc_fpo(r: &Rec, abp: bool, env: &DocEnv) -> Doc {
    let gc = env.case.gc_param;
    let Some(fs) = doc_frame_size(r, gc) else { return Doc::Fail };
    let Some(esp) = env.regs.get("esp").map(|v| *v as i128) else { return Doc::Fail };
    // $eip := *($esp + frame_size)
    let mut ra_at = esp + fs;
    let Some(mut eip) = env.deref(ra_at) else { return Doc::Fail };
    // leftover return address: only in a context frame (no grand callee), when the word equals the callee's eip
    if !env.case.has_gc {
        let Some(callee_eip) = env.regs.get("eip") else { return Doc::Fail };
        if eip == *callee_eip as i128 {
            ra_at += 4;
            match env.deref(ra_at) {
                Some(v) => eip = v,
                None => return Doc::Fail,
            }
        }
    }
    let mut known = BTreeMap::new();
    let ebp = if abp {
        // $ebp := *($esp + grand_callee_parameter_size + saved_register_size - 8)
        let a = esp + gc as i128 + r.sav as i128 - 8;
        if a < 0 {
            return Doc::Fail;
        }
        match env.deref(a) {
            Some(v) => v,
            None => return Doc::Fail,
        }
    } else {
        // $ebp := $ebp ; $ebx := $ebx (if it was valid)
        if let Some(ebx) = env.regs.get("ebx") {
            known.insert("ebx", *ebx);
        }
        match env.regs.get("ebp") {
            Some(v) => *v as i128,
            None => return Doc::Fail,
        }
    };
    // $esp := $esp + frame_size + 4 (one word further after a leftover return address)
    let new_esp = ra_at + 4;
    if new_esp >= M32 {
        return Doc::Fail; // does not fit an x86 register
    }
    known.insert("eip", eip as u32);
    known.insert("esp", new_esp as u32);
    known.insert("ebp", ebp as u32);
    Doc::Known(known)
}

/// Which record the documentation selects: "framedata" (type 4) preferred over "fpo" (type 0).
/// Returns None when the choice depends on the parser's overlap repair (several usable records of
/// one kind) — that part is C08's and is compared with the model only.
fn doc_select(c: &Case) -> Option<Option<(bool, &Rec)>> {
    if c.instr < c.base {
        return Some(None);
    }
    let addr = c.instr - c.base;
    let usable = |r: &&Rec, fd: bool| -> bool {
        let consistent = if fd { r.ty == '4' && r.hp == '1' } else { r.ty == '0' && r.hp != '1' };
        consistent && r.size != 0 && r.addr.checked_add(r.size as u64).is_some()
    };
    let fds: Vec<&Rec> = c.recs.iter().filter(|r| usable(r, true)).collect();
    let fpos: Vec<&Rec> = c.recs.iter().filter(|r| usable(r, false)).collect();
    if fds.len() > 1 || fpos.len() > 1 {
        return None;
    }
    let covers = |r: &Rec| r.addr <= addr && addr - r.addr < r.size as u64;
    if let Some(r) = fds.first() {
        if covers(r) {
            return Some(Some((true, r)));
        }
    }
    if let Some(r) = fpos.first() {
        if covers(r) {
            return Some(Some((false, r)));
        }
    }
    Some(None)
}

struct ImplOut {
    ok: bool,
    valid: BTreeMap<String, u32>,
    clears: Vec<String>,
    sets: Vec<(String, u64)>,
    attempts: Vec<String>,
}

fn run_walk(c: &Case) -> Result<ImplOut, String> {
    let text = symbol_text(c);
    catch(|| {
        let sf = SymbolFile::from_bytes(text.as_bytes()).expect("generated symbol file parses");
        let module = MockModule { base: c.base };
        let mut w = MockWalker::new(c);
        let r = sf.walk_frame(&module, &mut w);
        let valid = w.caller_valid.iter().map(|n| (n.clone(), *w.caller_vals.get(n).unwrap_or(&0))).collect();
        ImplOut { ok: r.is_some(), valid, clears: w.clears, sets: w.sets, attempts: w.attempts }
    })
}

fn tok_count(rest: &[u8]) -> usize {
    rest.split(|b| b.is_ascii_whitespace()).filter(|p| !p.is_empty()).count()
}

impl Engine for Win {
    fn name(&self) -> &'static str {
        "win"
    }
    fn rule(&self) -> String {
        "STACK WIN lines (type 4 program strings / type 0 fpo, consistent and inconsistent type/has_program, \
         1-3 records incl. overlapping ones, optional STACK CFI fallback) x size fields from \
         {0,1,4,8,7fffffff,80000000,fffffffc,ffffffff} and random x callee register files (esp<8, esp near 2^32, \
         missing esp/ebp/ebx/eip) x grand callee (none/0/4/boundary) x stack images (incl. the callee eip as a \
         leftover return address). Programs: exhaustive over the full WIN token alphabet to 2 (quick) / 3 (thorough) tokens \
         and over a 12-token core alphabet to 4 / 5 tokens, random statement lists (postfix of random expression trees) with \
         token-level mutations and the '=tok' spelling beyond. Executed through SymbolFile::from_bytes + \
         SymbolFile::walk_frame with a mock FrameWalker that is the twin of CfiStackWalker<CONTEXT_X86>; compared with the \
         Lean model and with a reference evaluation written from the walker.rs documentation. \
         Non-trivial: a STACK WIN record was selected for the address and its evaluation got past initialisation \
         (program of >= 2 tokens, or an fpo record whose return-address slot was readable)."
            .into()
    }
    fn exhaustive_part(&self) -> Option<String> {
        Some("all programs of <= 2 (quick) / <= 3 (thorough) tokens over the 38-token WIN alphabet and of <= 4 / <= 5 tokens over a 12-token core alphabet, each in a fixed environment; all 64 pairs of boundary size fields for fpo records".into())
    }

    fn generate(&self, tier: Tier, rng: &mut Rng, emit: &mut dyn FnMut(String)) {
        gen::generate(tier, rng, emit);
    }

    fn model_request(&self, case: &str) -> Option<String> {
        if case.starts_with("win walk ") || case.starts_with("win rw ") {
            Some(case.to_string())
        } else {
            None
        }
    }

    fn exec(&self, case: &str) -> ImplResult {
        if case.starts_with("win rw ") {
            return rw::exec(case);
        }
        let mut res = ImplResult::default();
        let Some(c) = parse_case(case) else {
            res.out = "bad-op".into();
            return res;
        };
        if c.mode == "stack" {
            return stack::exec(&c);
        }
        let sel = doc_select(&c);
        match &sel {
            Some(Some((true, _))) => res.tags.push("kind:framedata".into()),
            Some(Some((false, _))) => res.tags.push("kind:fpo".into()),
            Some(None) => res.tags.push("kind:none".into()),
            None => res.tags.push("kind:overlap-repair".into()),
        }
        res.tags.push(format!("records:{}", c.recs.len()));
        res.tags.push(format!("gc:{}", if !c.has_gc { "none" } else if c.gc_param == 0 { "0" } else { "param" }));
        if c.regs.iter().any(|(n, v)| n == "esp" && *v < 8) {
            res.tags.push("esp<8".into());
        }
        if !c.regs.iter().any(|(n, _)| n == "ebx") {
            res.tags.push("ebx-missing".into());
        }
        if c.recs.iter().any(|r| r.loc as u64 + r.sav as u64 + c.gc_param as u64 > u32::MAX as u64) {
            res.tags.push("frame-size>u32".into());
        }
        let out = match run_walk(&c) {
            Ok(o) => o,
            Err(msg) => {
                res.out = "PANIC".into();
                res.oracle.push(("win-panic".into(), msg));
                return res;
            }
        };
        res.tags.push(format!("result:{}", if out.ok { "some" } else { "none" }));
        // canonical output
        if out.ok {
            let regs = out.valid.iter().map(|(n, v)| format!("{n}={v:x}")).collect::<Vec<_>>().join(",");
            let clears = out.clears.join(",");
            let sets = out.sets.iter().map(|(n, v)| format!("{n}={v:x}")).collect::<Vec<_>>().join(",");
            res.out = format!(
                "some {} sets:{} clears:{}",
                if regs.is_empty() { "-" } else { &regs },
                if sets.is_empty() { "-" } else { &sets },
                if clears.is_empty() { "-" } else { &clears }
            );
        } else {
            res.out = "none".into();
        }

        // ---- the property's oracle on the implementation alone
        // (1) only the six output registers are ever reported
        for n in &out.attempts {
            if !SIX.contains(&n.as_str()) {
                res.oracle.push(("win-non-output-set".into(), format!("set_caller_register({n:?}, ..) was called")));
            }
        }
        if out.ok {
            for n in out.valid.keys() {
                if !SIX.contains(&n.as_str()) {
                    res.oracle.push(("win-non-output-set".into(), format!("{n} is valid in the caller")));
                }
            }
        }
        // (2) the documented result
        let Some(sel) = sel else {
            res.nontrivial = true;
            return res;
        };
        let callee: BTreeMap<&str, u32> = c.regs.iter().map(|(n, v)| (n.as_str(), *v)).collect();
        let env = DocEnv { regs: callee.clone(), case: &c };
        let doc = match sel {
            None => Doc::Fail,
            Some((true, r)) => doc_framedata(r, &env),
            Some((false, r)) => doc_fpo(r, r.rest == b"1", &env),
        };
        if let Some((fd, r)) = sel {
            res.nontrivial = if fd { tok_count(&r.rest) >= 2 } else { doc != Doc::Fail || out.ok };
            if fd && r.rest.contains(&b'@') {
                res.tags.push("program-has-@".into());
            }
        }
        // expected state of the caller
        let expected: Option<BTreeMap<&str, u32>> = match &doc {
            Doc::Known(k) => {
                res.tags.push("doc:known".into());
                Some(k.clone())
            }
            Doc::Fail => {
                res.tags.push("doc:fail".into());
                if c.cfi && c.instr >= c.base && c.instr - c.base < u32::MAX as u64 {
                    // STACK CFI semantics: callee-saved registers are forwarded, .cfa/.ra are set
                    res.tags.push("cfi-fallback".into());
                    let mut k: BTreeMap<&str, u32> = BTreeMap::new();
                    for r in CALLEE_SAVED {
                        if let Some(v) = callee.get(r) {
                            k.insert(r, *v);
                        }
                    }
                    k.insert("esp", CFI_CFA);
                    k.insert("eip", CFI_RA);
                    Some(k)
                } else {
                    None
                }
            }
        };
        match (&expected, out.ok) {
            (None, false) => {}
            (None, true) => res.oracle.push((
                "win-doc-mismatch".into(),
                format!("documentation: the record fails; implementation: {}", res.out),
            )),
            (Some(k), false) => res.oracle.push((
                "win-doc-mismatch".into(),
                format!("documentation: caller registers {k:x?}; implementation: none"),
            )),
            (Some(k), true) => {
                let dollar_clears = !out.clears.is_empty() && out.clears.iter().all(|n| n.starts_with('$'));
                // every register the record sets is reported through set_caller_register (not left to
                // whatever the walker forwards on its own)
                if let Doc::Known(dk) = &doc {
                    for (r, v) in dk {
                        let last = out.sets.iter().rev().find(|(n, _)| n == r).map(|(_, v)| *v);
                        if last != Some(*v as u64) {
                            res.oracle.push((
                                "win-doc-mismatch".into(),
                                format!("documentation sets caller {r}={v:x}; set_caller_register calls: {:x?}", out.sets),
                            ));
                        }
                    }
                }
                for r in SIX {
                    match (k.get(r), out.valid.get(r)) {
                        (Some(a), Some(b)) if a == b => {}
                        (None, None) => {}
                        (Some(a), got) => res.oracle.push((
                            "win-doc-mismatch".into(),
                            format!("caller {r}: documentation {a:x}, implementation {got:x?}"),
                        )),
                        (None, Some(b)) => {
                            // a register the record did not set is known in the caller
                            let forwarded = CALLEE_SAVED.contains(&r) && callee.get(r) == Some(b);
                            if forwarded && dollar_clears && matches!(doc, Doc::Known(_)) {
                                res.oracle.push((
                                    "win-forwarding-dollar-clear".into(),
                                    format!(
                                        "caller {r}={b:x} is still valid (forwarded from the callee) although the record did not set it; \
                                         clear_caller_register was called with {:?}",
                                        out.clears
                                    ),
                                ));
                            } else {
                                res.oracle.push((
                                    "win-implicit-forwarding".into(),
                                    format!("caller {r}={b:x} is valid although the record did not set it"),
                                ));
                            }
                        }
                    }
                }
            }
        }
        res
    }

    fn shrink(&self, case: &str, still_fails: &dyn Fn(&str) -> bool) -> String {
        if case.starts_with("win rw ") {
            return rw::shrink(case, still_fails);
        }
        let Some(mut c) = parse_case(case) else { return case.to_string() };
        let mut progress = true;
        let mut rounds = 0;
        while progress && rounds < 50 {
            progress = false;
            rounds += 1;
            // drop records
            let mut i = 0;
            while c.recs.len() > 1 && i < c.recs.len() {
                let mut d = c.clone();
                d.recs.remove(i);
                if still_fails(&render(&d)) {
                    c = d;
                    progress = true;
                } else {
                    i += 1;
                }
            }
            // drop program tokens
            for ri in 0..c.recs.len() {
                if c.recs[ri].ty != '4' {
                    continue;
                }
                let toks: Vec<Vec<u8>> = c.recs[ri]
                    .rest
                    .split(|b| b.is_ascii_whitespace())
                    .filter(|p| !p.is_empty())
                    .map(|p| p.to_vec())
                    .collect();
                let mut toks = toks;
                let mut i = 0;
                while i < toks.len() {
                    let mut t = toks.clone();
                    t.remove(i);
                    let mut d = c.clone();
                    d.recs[ri].rest = t.join(&b' ');
                    if still_fails(&render(&d)) {
                        toks = t;
                        c = d;
                        progress = true;
                    } else {
                        i += 1;
                    }
                }
            }
            // drop registers, the CFI record, the grand callee
            let mut i = 0;
            while i < c.regs.len() {
                let mut d = c.clone();
                d.regs.remove(i);
                if still_fails(&render(&d)) {
                    c = d;
                    progress = true;
                } else {
                    i += 1;
                }
            }
            if c.cfi {
                let mut d = c.clone();
                d.cfi = false;
                if still_fails(&render(&d)) {
                    c = d;
                    progress = true;
                }
            }
            // zero the size fields one at a time
            for ri in 0..c.recs.len() {
                for f in 0..3 {
                    let mut d = c.clone();
                    let slot = match f {
                        0 => &mut d.recs[ri].par,
                        1 => &mut d.recs[ri].sav,
                        _ => &mut d.recs[ri].loc,
                    };
                    if *slot != 0 {
                        *slot = 0;
                        if still_fails(&render(&d)) {
                            c = d;
                            progress = true;
                        }
                    }
                }
            }
        }
        render(&c)
    }
}

// ------------------------------------------------------------------------------------- generator

mod gen {
    use super::*;

    pub const SIZES: [u32; 8] = [0, 1, 4, 8, 0x7fff_ffff, 0x8000_0000, 0xffff_fffc, 0xffff_ffff];

    /// full WIN token alphabet (38 tokens)
    pub const FULL: [&str; 38] = [
        "+", "-", "*", "/", "%", "@", "=", "^", ".undef", "$eip", "$esp", "$ebp", "$ebx", "$esi", "$edi", "$T0",
        ".cbParams", ".cbCalleeParams", ".cbSavedRegs", ".cbLocals", ".raSearch", ".raSearchStart", "0", "1", "4",
        "-1", "+8", "2147483647", "-2147483648", "2147483648", "=$T0", "=4", "==", "foo", "$", "-", "$a@", "@4",
    ];
    /// core alphabet for the longer exhaustive programs
    pub const CORE: [&str; 12] =
        ["$eip", "$esp", "$T0", "$ebx", ".raSearch", "4", "-1", "+", "=", "^", ".undef", "@"];

    struct Env {
        regs: Vec<(String, u32)>,
        mem_base: u64,
        mem: Vec<u8>,
    }

    fn stack_image(rng: &mut Rng, base: u64, words: usize, eip: u32) -> Vec<u8> {
        let mut mem = Vec::with_capacity(words * 4);
        for i in 0..words {
            let v: u32 = match rng.below(8) {
                0 => eip,                                                         // leftover return address candidate
                1 => (base as u32).wrapping_add(4 * rng.below(words as u64) as u32), // pointer into the stack
                2 => 0,
                3 => 0xffff_ffff,
                4 => *rng.pick(&SIZES),
                _ => 0x0100_0000u32.wrapping_add((i as u32) << 8).wrapping_add(rng.below(256) as u32),
            };
            mem.extend_from_slice(&v.to_le_bytes());
        }
        mem
    }

    fn env(rng: &mut Rng, sane: bool) -> Env {
        let (mem_base, words): (u64, usize) = match if sane { 9 } else { rng.below(10) } {
            0 => (0, 16),                 // stack at address 0 (esp < 8 readable)
            1 => (0xffff_ffc0, 16),       // stack ends exactly at 2^32
            2 => (0xffff_ffe0, 16),       // stack crosses 2^32
            3 => (0x1000, 0),             // no memory
            _ => (0x1000 + 0x10 * rng.below(16), 8 + rng.below(40) as usize),
        };
        let eip: u32 = 0x40_0000 + rng.below(0x1000) as u32;
        let mem = stack_image(rng, mem_base, words, eip);
        let in_stack = |rng: &mut Rng| -> u32 {
            if words == 0 {
                return mem_base as u32;
            }
            (mem_base as u32).wrapping_add(4 * rng.below(words as u64) as u32)
        };
        let esp = match if sane { 11 } else { rng.below(12) } {
            0 => 0,
            1 => 4,
            2 => 7,
            3 => 8,
            4 => 0xffff_fff8,
            5 => 0xffff_fffc,
            6 => 0xffff_ffff,
            7 => in_stack(rng).wrapping_add(1 + rng.below(3) as u32), // unaligned
            _ => in_stack(rng),
        };
        let ebp = match if sane { 7 } else { rng.below(8) } {
            0 => 0xffff_fffc,
            1 => 0xffff_fffb,
            2 => 0,
            _ => in_stack(rng),
        };
        let mut regs: Vec<(String, u32)> = vec![];
        if !rng.chance(1, 20) {
            regs.push(("eip".into(), eip));
        }
        if !rng.chance(1, 25) {
            regs.push(("esp".into(), esp));
        }
        if !rng.chance(1, 12) {
            regs.push(("ebp".into(), ebp));
        }
        if !rng.chance(1, 3) {
            regs.push(("ebx".into(), 0xb000_0000 + rng.below(256) as u32));
        }
        if !rng.chance(1, 3) {
            regs.push(("esi".into(), 0x5100_0000 + rng.below(256) as u32));
        }
        if !rng.chance(1, 3) {
            regs.push(("edi".into(), 0xd100_0000 + rng.below(256) as u32));
        }
        if rng.chance(1, 4) {
            regs.push(("eax".into(), 0xa000_0000 + rng.below(256) as u32));
        }
        Env { regs, mem_base, mem }
    }

    fn size_field(rng: &mut Rng, sane: bool) -> u32 {
        match if sane { 9 } else { rng.below(10) } {
            0..=2 => *rng.pick(&SIZES),
            3 => rng.next() as u32,
            4 => 0xffff_fff0u32.wrapping_add(rng.below(16) as u32),
            _ => 4 * rng.below(12) as u32,
        }
    }

    fn gc(rng: &mut Rng, sane: bool) -> (bool, u32) {
        match if sane { [0, 3, 7, 7][rng.below(4) as usize] } else { rng.below(8) } {
            0..=2 => (false, 0),
            3 => (true, 0),
            4 => (true, *rng.pick(&SIZES)),
            5 => (false, 4 * rng.below(4) as u32), // abstract walker: parameter size without a grand callee
            _ => (true, 4 * rng.below(6) as u32),
        }
    }

    const VARS: [&str; 14] = [
        "$eip", "$esp", "$ebp", "$ebx", "$esi", "$edi", "$T0", "$T1", ".cbParams", ".cbCalleeParams", ".cbSavedRegs",
        ".cbLocals", ".raSearch", ".raSearchStart",
    ];

    fn expr(rng: &mut Rng, depth: u32, out: &mut Vec<String>) {
        if depth == 0 || rng.chance(1, 3) {
            match rng.below(6) {
                0..=2 => out.push(rng.pick(&VARS).to_string()),
                3 => out.push((4 * rng.below(8)).to_string()),
                4 => out.push(rng.pick(&["-1", "-4", "+4", "16", "2147483647", "-2147483648", "0"]).to_string()),
                _ => out.push(rng.pick(&["$T0", "$esp", "$ebp", ".raSearch"]).to_string()),
            }
            return;
        }
        match rng.below(10) {
            0..=1 => {
                expr(rng, depth - 1, out);
                out.push("^".into());
            }
            2 => {
                expr(rng, depth - 1, out);
                out.push(rng.pick(&["4", "8", "16", "1", "3", "0"]).to_string());
                out.push("@".into());
            }
            _ => {
                expr(rng, depth - 1, out);
                expr(rng, depth - 1, out);
                out.push(rng.pick(&["+", "+", "-", "*", "/", "%"]).to_string());
            }
        }
    }

    pub fn program(rng: &mut Rng) -> String {
        let mut toks: Vec<String> = vec![];
        let stmts = 1 + rng.below(5);
        for _ in 0..stmts {
            toks.push(rng.pick(&["$eip", "$esp", "$ebp", "$ebx", "$esi", "$edi", "$T0", "$T1", ".cbLocals", ".raSearch"]).to_string());
            if rng.chance(1, 8) {
                toks.push(".undef".into());
            } else {
                expr(rng, 3, &mut toks);
            }
            toks.push("=".into());
        }
        // mutations
        let m = rng.below(10);
        if m < 3 && !toks.is_empty() {
            for _ in 0..1 + rng.below(2) {
                let i = rng.below(toks.len() as u64) as usize;
                match rng.below(4) {
                    0 => {
                        toks.remove(i);
                    }
                    1 => toks.insert(i, rng.pick(&FULL).to_string()),
                    2 if rng.chance(1, 3) => toks[i] = format!("{}@", toks[i]), // '@' inside another token
                    2 => toks[i] = rng.pick(&FULL).to_string(),
                    _ => {
                        let j = rng.below(toks.len() as u64) as usize;
                        toks.swap(i, j)
                    }
                }
                if toks.is_empty() {
                    break;
                }
            }
        }
        // join: the `=tok` spelling, odd whitespace
        let mut s = String::new();
        let eq_merge = rng.chance(1, 4);
        let odd_ws = rng.chance(1, 10);
        let mut i = 0;
        while i < toks.len() {
            if !s.is_empty() {
                s.push_str(if odd_ws { *rng.pick(&[" ", "  ", "\t", "\x0c", " \t "]) } else { " " });
            }
            s.push_str(&toks[i]);
            if eq_merge && toks[i] == "=" && i + 1 < toks.len() && rng.chance(1, 2) {
                s.push_str(&toks[i + 1]);
                i += 1;
            }
            i += 1;
        }
        if rng.chance(1, 15) {
            s.push(' ');
        }
        s
    }

    fn mk_case(e: &Env, base: u64, instr: u64, g: (bool, u32), cfi: bool, recs: Vec<Rec>) -> String {
        render(&mk(e, base, instr, g, cfi, recs))
    }

    fn mk(e: &Env, base: u64, instr: u64, g: (bool, u32), cfi: bool, recs: Vec<Rec>) -> Case {
        Case {
            mode: "walk".into(),
            base,
            instr,
            has_gc: g.0,
            gc_param: g.1,
            cfi,
            regs: e.regs.clone(),
            mem_base: e.mem_base,
            mem: e.mem.clone(),
            recs,
        }
    }

    fn fixed_env() -> Env {
        // esp = 0x1010, ebp = 0x1030 (so that esp+frame_size = 0x1024 differs from ebp+4); the stack holds pointers into itself so that `^` chains succeed
        let base = 0x1000u64;
        let mut mem = vec![];
        for i in 0..16u32 {
            let v = match i % 4 {
                0 => 0x1000 + 4 * ((i * 7 + 3) % 16),
                1 => 0x40_1000 + i,
                2 => 8 * i,
                _ => 0xffff_fff0 + i % 16,
            };
            mem.extend_from_slice(&v.to_le_bytes());
        }
        Env {
            regs: vec![
                ("eip".into(), 0x40_1005),
                ("esp".into(), 0x1010),
                ("ebp".into(), 0x1030),
                ("ebx".into(), 0xb0b0_b0b0),
                ("esi".into(), 0x5151_5151),
                ("edi".into(), 0xd1d1_d1d1),
            ],
            mem_base: base,
            mem,
        }
    }

    fn fd(addr: u64, size: u32, par: u32, sav: u32, loc: u32, prog: &str) -> Rec {
        Rec { ty: '4', addr, size, par, sav, loc, hp: '1', rest: prog.as_bytes().to_vec() }
    }
    fn fpo(addr: u64, size: u32, par: u32, sav: u32, loc: u32, rest: &str) -> Rec {
        Rec { ty: '0', addr, size, par, sav, loc, hp: '0', rest: rest.as_bytes().to_vec() }
    }

    /// the classic tail of a program string: return address and stack pointer from the search start
    pub const TAIL: &str = "$eip .raSearch ^ = $esp .raSearch 4 + =";

    fn exhaustive(alphabet: &[&str], len: usize, rw_every: usize, rw_rng: &mut Rng, emit: &mut dyn FnMut(String)) {
        let e = fixed_env();
        let n = alphabet.len();
        let mut idx = vec![0usize; len];
        let mut k = 0usize;
        loop {
            let prog = idx.iter().map(|i| alphabet[*i]).collect::<Vec<_>>().join(" ");
            emit(mk_case(&e, 0x40_0000, 0x40_1005, (true, 8), false, vec![fd(0x1000, 0x100, 0xc, 4, 8, &prog)]));
            if k % rw_every == 0 {
                // the real walker: the program in front of the classic tail, so that a frame results
                let p = format!("{prog} {TAIL}");
                emit(rw::from_walk(&mk(&e, 0x40_0000, 0x40_1005, (true, 8), false, vec![fd(0x1000, 0x100, 0xc, 4, 8, &p)]), rw_rng));
            }
            k += 1;
            let mut k = len;
            loop {
                if k == 0 {
                    return;
                }
                k -= 1;
                idx[k] += 1;
                if idx[k] < n {
                    break;
                }
                idx[k] = 0;
            }
        }
    }

    pub fn generate(tier: Tier, rng: &mut Rng, emit: &mut dyn FnMut(String)) {
        let (full_len, core_len, random_n, stack_n) = match tier {
            Tier::Quick => (2, 4, 240_000, 12_000),
            Tier::Thorough => (3, 5, 1_500_000, 60_000),
        };
        let mut rw_rng = rng.fork();
        let rw_rng = &mut rw_rng;
        // ---- exhaustive programs
        emit(mk_case(&fixed_env(), 0x40_0000, 0x40_1005, (true, 8), false, vec![fd(0x1000, 0x100, 0xc, 4, 8, "")]));
        for len in 1..=full_len {
            exhaustive(&FULL, len, if len <= 2 { 1 } else { 16 }, rw_rng, emit);
        }
        for len in (full_len + 1)..=core_len {
            exhaustive(&CORE, len, if len <= 3 { 1 } else { 8 }, rw_rng, emit);
        }
        // ---- all pairs of boundary size fields for fpo (local, saved) x gc param boundary, both abp values
        for &loc in &SIZES {
            for &sav in &SIZES {
                for (gi, g) in [(false, 0u32), (true, 0), (true, 4), (true, 0xffff_ffff)].iter().enumerate() {
                    let mut e = fixed_env();
                    if (loc as usize + sav as usize + gi) % 3 == 0 {
                        e.regs.iter_mut().find(|r| r.0 == "esp").unwrap().1 = 4;
                        e.mem_base = 0;
                    }
                    for abp in ["0", "1"] {
                        emit(mk_case(&e, 0, 0x10, *g, false, vec![fpo(0, 0x100, 0, sav, loc, abp)]));
                        emit(rw::from_walk(&mk(&e, 0, 0x10, *g, false, vec![fpo(0, 0x100, 0, sav, loc, abp)]), rw_rng));
                    }
                    emit(mk_case(&e, 0, 0x10, *g, false, vec![fd(0, 0x100, 4, sav, loc, TAIL)]));
                    emit(rw::from_walk(&mk(&e, 0, 0x10, *g, false, vec![fd(0, 0x100, 4, sav, loc, TAIL)]), rw_rng));
                }
            }
        }
        // ---- random
        for case_no in 0..random_n {
            let sane = rng.chance(1, 2);
            let e = env(rng, sane);
            let g = gc(rng, sane);
            let base: u64 = match rng.below(6) {
                0 => 0,
                1 => 0xffff_ffff_0000_0000,
                _ => 0x40_0000,
            };
            let off: u64 = 0x1000 + rng.below(0x100);
            let instr = match rng.below(30) {
                0 => base.wrapping_sub(1 + rng.below(4)), // below the module (or wraps)
                _ => base.wrapping_add(off),
            };
            let cfi = rng.chance(1, 5);
            let mut recs: Vec<Rec> = vec![];
            let shape = rng.below(20);
            let covering = |rng: &mut Rng| -> (u64, u32) {
                let lo = off - rng.below(0x20).min(off);
                (lo, (off - lo) as u32 + 1 + rng.below(0x40) as u32)
            };
            let mk_fd = |rng: &mut Rng, a: u64, s: u32| -> Rec {
                fd(a, s, size_field(rng, sane), size_field(rng, sane), size_field(rng, sane), &program(rng))
            };
            let mk_fpo = |rng: &mut Rng, a: u64, s: u32| -> Rec {
                let rest = *rng.pick(&["0", "1", "0", "1", "1 ", "01", "", "x", "10"]);
                fpo(a, s, size_field(rng, sane), size_field(rng, sane), size_field(rng, sane), rest)
            };
            match shape {
                0..=8 => {
                    let (a, s) = covering(rng);
                    recs.push(mk_fd(rng, a, s));
                }
                9..=13 => {
                    let (a, s) = covering(rng);
                    recs.push(mk_fpo(rng, a, s));
                }
                14 => {
                    // both kinds cover the address: framedata must win
                    let (a, s) = covering(rng);
                    let (a2, s2) = covering(rng);
                    let r1 = mk_fd(rng, a, s);
                    let r2 = mk_fpo(rng, a2, s2);
                    if rng.chance(1, 2) {
                        recs.push(r1);
                        recs.push(r2);
                    } else {
                        recs.push(r2);
                        recs.push(r1);
                    }
                }
                15 => {
                    // inconsistent type / has_program_string, unknown types
                    let (a, s) = covering(rng);
                    let mut r = if rng.chance(1, 2) { mk_fd(rng, a, s) } else { mk_fpo(rng, a, s) };
                    match rng.below(4) {
                        0 => r.hp = if r.hp == '1' { '0' } else { '1' },
                        1 => r.ty = *rng.pick(&['1', '2', '3', '5', 'a', 'F']),
                        2 => r.hp = *rng.pick(&['2', '9']),
                        _ => {
                            r.ty = *rng.pick(&['1', '3', 'b']);
                            r.hp = '1';
                        }
                    }
                    recs.push(r);
                    if rng.chance(1, 2) {
                        let (a, s) = covering(rng);
                        recs.push(mk_fpo(rng, a, s));
                    }
                }
                16 => {
                    // record that does not cover the address / empty / overflowing range
                    let (d1, d2, d3) = (rng.below(8), rng.below(4), rng.below(8) as u32);
                    let r = match rng.below(4) {
                        0 => mk_fd(rng, off + 1 + d1, 4),
                        1 => mk_fd(rng, off, 0),
                        2 => mk_fpo(rng, u64::MAX - d2, 0x10),
                        _ => mk_fpo(rng, off - d1.min(off) - 8, d3),
                    };
                    recs.push(r);
                }
                17 | 18 => {
                    // two or three records of one kind, overlapping / duplicate / nested (parser repair)
                    let n = 2 + rng.below(2);
                    let kind_fd = rng.chance(1, 2);
                    for _ in 0..n {
                        let a = off - rng.below(6).min(off) + rng.below(3);
                        let s = rng.below(10) as u32;
                        recs.push(if kind_fd { mk_fd(rng, a, s) } else { mk_fpo(rng, a, s) });
                    }
                    if rng.chance(1, 3) {
                        let d = recs[0].clone();
                        recs.push(d);
                    }
                }
                _ => {} // no STACK WIN at all
            }
            if case_no % 4 == 0 {
                // the same case for the real walker; half of the program strings get the classic tail
                let mut c = mk(&e, base, instr, g, cfi, recs.clone());
                if rw_rng.chance(1, 2) {
                    for r in c.recs.iter_mut().filter(|r| r.ty == '4' && r.hp == '1') {
                        r.rest.extend_from_slice(format!(" {TAIL}").as_bytes());
                    }
                }
                emit(rw::from_walk(&c, rw_rng));
            }
            emit(mk_case(&e, base, instr, g, cfi, recs));
        }
        // ---- the real walker on cases built to produce a frame: small size fields, the stack pointer in the
        //      lower part of the stack (at address 0, in the middle, or ending exactly at 2^32), program strings
        //      ending in the classic tail or fpo records, every shape of grand callee
        for k in 0..random_n / 8 {
            let mut e = env(rng, true);
            let words = (e.mem.len() / 4) as u64;
            let new_base: u64 = match rng.below(6) {
                0 => 0,
                1 => (1u64 << 32) - 4 * words,
                _ => e.mem_base,
            };
            let delta = new_base.wrapping_sub(e.mem_base) as u32;
            let esp = (new_base as u32).wrapping_add(4 * rng.below(words / 4 + 1) as u32);
            for (n, v) in e.regs.iter_mut() {
                if n == "esp" {
                    *v = esp;
                } else if n == "ebp" {
                    *v = v.wrapping_add(delta);
                }
            }
            if !e.regs.iter().any(|(n, _)| n == "esp") {
                e.regs.push(("esp".into(), esp));
            }
            e.mem_base = new_base;
            let g = gc(rng, true);
            let off: u64 = 0x1000 + rng.below(0x100);
            let small = |rng: &mut Rng| 4 * rng.below(5) as u32;
            let rec = if k % 3 == 0 {
                let abp = if rng.chance(1, 2) { "0" } else { "1" };
                fpo(off - 2, 0x10, small(rng), small(rng), small(rng), abp)
            } else {
                let mut p = match rng.below(3) {
                    0 => String::new(),
                    _ => format!("{} ", program(rng)),
                };
                p.push_str(TAIL);
                match rng.below(6) {
                    0 => p.push_str(" $ebp .raSearch 4 - ^ ="),
                    1 => p.push_str(" $ebx .undef ="),
                    2 => p.push_str(" $ebp .undef = $esi $T0 ="),
                    3 => p.push_str(" $esi 4294967295 = $edi -1 ="),
                    _ => {}
                }
                fd(off - 2, 0x10, small(rng), small(rng), small(rng), &p)
            };
            emit(rw::from_walk(&mk(&e, 0x40_0000, 0x40_0000 + off, g, rng.chance(1, 10), vec![rec]), rw_rng));
        }
        // ---- the real x86 unwinder
        stack::generate(stack_n, rng, emit);
    }
}

// ------------------------------------------------------------------- the real x86 unwinder

mod stack {
    use super::*;
    use minidump::format::CONTEXT_X86;
    use minidump::system_info::{Cpu, Os};
    use minidump::{
        MinidumpContext, MinidumpContextValidity, MinidumpMemory, MinidumpModule, MinidumpModuleList,
        MinidumpRawContext, UnifiedMemory,
    };
    use minidump_unwind::{string_symbol_supplier, walk_stack, CallStack, FrameTrust, Symbolizer, SystemInfo};
    use std::collections::{HashMap, HashSet};

    const MODULE_SIZE: u32 = 0x10_0000;

    /// Cases for the real unwinder: a context frame inside `module1`, the stack pointer inside the
    /// stack memory, one or two STACK WIN records covering the instruction.
    pub fn generate(n: usize, rng: &mut Rng, emit: &mut dyn FnMut(String)) {
        for k in 0..n {
            let base: u64 = 0x4000_0000;
            let off: u64 = 0x1000 + rng.below(0x80);
            let eip = (base + off) as u32;
            let words = 16 + rng.below(32) as usize;
            let mem_base: u64 = 0x8000_0000 + 0x10 * rng.below(8);
            let mut mem = vec![];
            for i in 0..words {
                let v: u32 = match rng.below(6) {
                    0 => eip,
                    1 => (mem_base as u32) + 4 * rng.below(words as u64) as u32,
                    2 => 0x4000_2000 + rng.below(0x1000) as u32, // a plausible return address in the module
                    3 => 0x4000_2000 + rng.below(0x1000) as u32,
                    4 => 0,
                    _ => 0x0100_0000 + ((i as u32) << 8),
                };
                mem.extend_from_slice(&v.to_le_bytes());
            }
            let esp = (mem_base as u32) + 4 * rng.below(words as u64 / 2) as u32;
            let ebp = (mem_base as u32) + 4 * rng.below(words as u64) as u32;
            let mut regs: Vec<(String, u32)> = vec![("eip".into(), eip), ("esp".into(), esp)];
            if !rng.chance(1, 10) {
                regs.push(("ebp".into(), ebp));
            }
            if !rng.chance(1, 4) {
                regs.push(("ebx".into(), 0xb000_0000 + rng.below(256) as u32));
            }
            if !rng.chance(1, 4) {
                regs.push(("esi".into(), 0x5100_0000 + rng.below(256) as u32));
            }
            if !rng.chance(1, 4) {
                regs.push(("edi".into(), 0xd100_0000 + rng.below(256) as u32));
            }
            if rng.chance(1, 3) {
                regs.push(("eax".into(), 0xa000_0000 + rng.below(256) as u32));
            }
            let small = |rng: &mut Rng| 4 * rng.below(6) as u32;
            let mut recs = vec![];
            let lo = off - rng.below(0x10);
            let size = (off - lo) as u32 + 1 + rng.below(0x20) as u32;
            let prog = if k % 4 == 0 {
                // the classic shape: only $eip and $esp (and sometimes $ebp / .undef of a callee-saved register)
                let mut p = String::from("$eip .raSearch ^ = $esp .raSearch 4 + =");
                match rng.below(4) {
                    0 => p.push_str(" $ebp .raSearch 4 - ^ ="),
                    1 => p.push_str(" $ebx .undef ="),
                    2 => p.push_str(" $ebp .undef = $esi $T0 ="),
                    _ => {}
                }
                p
            } else {
                gen::program(rng)
            };
            if rng.chance(2, 3) {
                recs.push(Rec { ty: '4', addr: lo, size, par: small(rng), sav: small(rng), loc: small(rng), hp: '1', rest: prog.into_bytes() });
            } else {
                let rest = if rng.chance(1, 2) { "0" } else { "1" };
                recs.push(Rec { ty: '0', addr: lo, size, par: small(rng), sav: small(rng), loc: small(rng), hp: '0', rest: rest.as_bytes().to_vec() });
            }
            emit(render(&Case {
                mode: "stack".into(),
                base,
                instr: eip as u64,
                has_gc: false,
                gc_param: 0,
                cfi: rng.chance(1, 8),
                regs,
                mem_base,
                mem,
                recs,
            }));
        }
    }

    pub struct Frame1 {
        pub trust_cfi: bool,
        pub valid: BTreeMap<String, u32>,
    }

    fn run(c: &Case) -> Result<Option<Frame1>, String> {
        let mut raw = CONTEXT_X86::default();
        let mut valid: HashSet<&'static str> = HashSet::new();
        for (n, v) in &c.regs {
            let Some(m) = memoize(n) else { return Err(format!("bad-register {n}")) };
            valid.insert(m);
            match m {
                "eip" => raw.eip = *v,
                "esp" => raw.esp = *v,
                "ebp" => raw.ebp = *v,
                "ebx" => raw.ebx = *v,
                "esi" => raw.esi = *v,
                "edi" => raw.edi = *v,
                "eax" => raw.eax = *v,
                "ecx" => raw.ecx = *v,
                "edx" => raw.edx = *v,
                _ => raw.eflags = *v,
            }
        }
        let text = symbol_text(c);
        let base = c.base;
        let mem_base = c.mem_base;
        let bytes = c.mem.clone();
        catch(move || {
            let context = MinidumpContext { raw: MinidumpRawContext::X86(raw), valid: MinidumpContextValidity::Some(valid) };
            let modules = MinidumpModuleList::from_modules(vec![MinidumpModule::new(base, MODULE_SIZE, "module1")]);
            let stack_memory = MinidumpMemory {
                desc: Default::default(),
                base_address: mem_base,
                size: bytes.len() as u64,
                bytes: &bytes,
                endian: scroll::LE,
            };
            let system_info = SystemInfo {
                os: Os::Windows,
                os_version: None,
                os_build: None,
                cpu: Cpu::X86,
                cpu_info: None,
                cpu_microcode_version: None,
                cpu_count: 1,
            };
            let mut symbols = HashMap::new();
            symbols.insert("module1".to_string(), text);
            let symbolizer = Symbolizer::new(string_symbol_supplier(symbols));
            let mut stack = CallStack::with_context(context);
            let rt = tokio::runtime::Builder::new_current_thread().build().unwrap();
            rt.block_on(walk_stack(
                0,
                (),
                &mut stack,
                Some(UnifiedMemory::Memory(&stack_memory)),
                &modules,
                &system_info,
                &symbolizer,
            ));
            stack.frames.get(1).map(|f| {
                let mut valid = BTreeMap::new();
                if let MinidumpRawContext::X86(ctx) = &f.context.raw {
                    for r in X86_REGS {
                        let is_valid = match &f.context.valid {
                            MinidumpContextValidity::All => true,
                            MinidumpContextValidity::Some(w) => w.contains(r),
                        };
                        if is_valid {
                            let v = match r {
                                "eip" => ctx.eip,
                                "esp" => ctx.esp,
                                "ebp" => ctx.ebp,
                                "ebx" => ctx.ebx,
                                "esi" => ctx.esi,
                                "edi" => ctx.edi,
                                "eax" => ctx.eax,
                                "ecx" => ctx.ecx,
                                "edx" => ctx.edx,
                                _ => ctx.eflags,
                            };
                            valid.insert(r.to_string(), v);
                        }
                    }
                }
                Frame1 { trust_cfi: f.trust == FrameTrust::CallFrameInfo, valid }
            })
        })
    }

    pub fn exec(c: &Case) -> ImplResult {
        let mut res = ImplResult::default();
        if c.has_gc || c.gc_param != 0 || c.instr < c.base || c.instr - c.base >= MODULE_SIZE as u64 || c.instr > u32::MAX as u64 {
            res.out = "bad-op".into();
            return res;
        }
        let f1 = match run(c) {
            Ok(f) => f,
            Err(msg) if msg.starts_with("bad-register") => {
                res.out = "bad-op".into();
                return res;
            }
            Err(msg) => {
                res.out = "PANIC".into();
                res.oracle.push(("win-panic".into(), format!("walk_stack: {msg}")));
                return res;
            }
        };
        res.out = match &f1 {
            None => "stack noframe".into(),
            Some(f) => format!(
                "stack {} {}",
                if f.trust_cfi { "cfi" } else { "other" },
                f.valid.iter().map(|(n, v)| format!("{n}={v:x}")).collect::<Vec<_>>().join(",")
            ),
        };
        judge(c, &f1, &res.out.clone(), &mut res);
        res
    }

    /// the documented result of the selected record against the frame `walk_stack` produced
    /// (`c.regs` = the callee's VALID registers; shared with the `win rw` cases)
    pub fn judge(c: &Case, f1: &Option<Frame1>, out: &str, res: &mut ImplResult) {
        let Some(sel) = doc_select(c) else { return };
        let callee: BTreeMap<&str, u32> = c.regs.iter().map(|(n, v)| (n.as_str(), *v)).collect();
        let env = DocEnv { regs: callee.clone(), case: c };
        let doc = match sel {
            None => Doc::Fail,
            Some((true, r)) => doc_framedata(r, &env),
            Some((false, r)) => doc_fpo(r, r.rest == b"1", &env),
        };
        res.tags.push(format!("stack:{}", match (&doc, f1) {
            (Doc::Known(_), Some(f)) if f.trust_cfi => "win-frame",
            (Doc::Known(_), _) => "win-rejected",
            (Doc::Fail, Some(f)) if f.trust_cfi => "cfi-frame",
            _ => "other",
        }));
        let callee_esp = callee.get("esp").copied();
        // the stack pointer must be inside the stack memory, else walk_stack does not unwind at all
        let sp_in_stack = callee_esp.is_some_and(|sp| (sp as u64) >= c.mem_base && ((sp as u64) - c.mem_base) < c.mem.len() as u64);
        if let Doc::Known(k) = &doc {
            res.nontrivial = true;
            let usable = sp_in_stack
                && k.get("eip").is_some_and(|ip| *ip >= 4096)
                && k.get("esp").is_some_and(|sp| Some(*sp) > callee_esp);
            match f1 {
                Some(f) if f.trust_cfi => {
                    for r in SIX {
                        match (k.get(r), f.valid.get(r)) {
                            (Some(a), Some(b)) if a == b => {}
                            (None, None) => {}
                            (Some(a), got) => res.oracle.push((
                                "win-stack-doc-mismatch".into(),
                                format!("caller frame {r}: documentation {a:x}, walk_stack {got:x?}"),
                            )),
                            (None, Some(b)) => {
                                let forwarded = CALLEE_SAVED.contains(&r) && callee.get(r) == Some(b);
                                res.oracle.push((
                                    if forwarded { "win-stack-forwarding" } else { "win-stack-implicit" }.into(),
                                    format!("caller frame (trust=cfi) lists {r}={b:x} as valid although the STACK WIN record did not set it"),
                                ));
                            }
                        }
                    }
                    for n in f.valid.keys() {
                        if !SIX.contains(&n.as_str()) {
                            res.oracle.push(("win-non-output-set".into(), format!("caller frame lists {n} as valid")));
                        }
                    }
                }
                _ if usable => res.oracle.push((
                    "win-stack-doc-mismatch".into(),
                    format!("documentation: caller registers {k:x?}; walk_stack produced {out}"),
                )),
                _ => {}
            }
        }
    }
}
