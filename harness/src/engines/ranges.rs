//! Engine `ranges` (C08): every range-table builder of the repository against the Lean model
//! `MdModel.RangeMap`, plus the property's own oracle on the implementation's answers.
//!
//! case line:  `ranges <builder> q <a>,<a>,.. e <lo>:<size-or-hi>:<tag> ...`
//! builders:   mod unl mem mem64 info maps func line cfi win4 win0

use crate::common::*;
use breakpad_symbols::SymbolFile;
use minidump::*;
use minidump_synth as synth;
use std::fmt::Write as _;
use test_assembler::Endian;

pub struct Ranges;

const BUILDERS: &[&str] = &[
    "mod", "unl", "mem", "mem64", "info", "maps", "func", "line", "cfi", "win4", "win0",
];

#[derive(Clone, Copy, Debug)]
struct Ent {
    lo: u64,
    b: u64, // size, or hi for `maps`
    tag: u64,
}

fn parse_case(case: &str) -> Option<(String, Vec<u64>, Vec<Ent>)> {
    let f: Vec<&str> = case.split(' ').filter(|s| !s.is_empty()).collect();
    if f.len() < 5 || f[0] != "ranges" || f[2] != "q" || f[4] != "e" {
        return None;
    }
    let qs = f[3]
        .split(',')
        .filter(|s| !s.is_empty())
        .map(|s| s.parse::<u64>().ok())
        .collect::<Option<Vec<_>>>()?;
    let mut es = vec![];
    for s in &f[5..] {
        let p: Vec<&str> = s.split(':').collect();
        if p.len() != 3 {
            return None;
        }
        es.push(Ent {
            lo: p[0].parse().ok()?,
            b: p[1].parse().ok()?,
            tag: p[2].parse().ok()?,
        });
    }
    Some((f[1].to_string(), qs, es))
}

/// the entry's own range as the property understands it (None = not a valid entry)
fn own_range(builder: &str, e: &Ent) -> Option<(u64, u64)> {
    match builder {
        "maps" => {
            if e.lo > e.b {
                None
            } else {
                Some((e.lo, e.b))
            }
        }
        "line" => {
            if e.b == 0 {
                None
            } else {
                e.lo.checked_add(e.b - 1).map(|hi| (e.lo, hi))
            }
        }
        _ => {
            if e.b == 0 {
                None
            } else {
                e.lo.checked_add(e.b).map(|end| (e.lo, end - 1))
            }
        }
    }
}

fn size_limit(builder: &str) -> u64 {
    match builder {
        "mem" | "mod" | "unl" | "func" | "line" | "cfi" | "win4" | "win0" => u32::MAX as u64,
        _ => u64::MAX,
    }
}

struct Table {
    /// (table lo, table hi, id) in by-address order; for index-valued tables lo/hi are the entry's own
    byaddr: Vec<(u64, u64, String)>,
    /// per query: ids returned (unloaded: several)
    gets: Vec<Vec<String>>,
}

fn idx_of<T>(all: &[&T], item: &T) -> usize {
    all.iter().position(|x| std::ptr::eq(*x, item)).unwrap()
}

fn build(builder: &str, qs: &[u64], es: &[Ent]) -> Table {
    let mut t = Table { byaddr: vec![], gets: vec![] };
    match builder {
        "mod" => {
            let mods: Vec<MinidumpModule> = es
                .iter()
                .enumerate()
                .map(|(i, e)| MinidumpModule::new(e.lo, e.b as u32, &format!("m{i}")))
                .collect();
            let list = MinidumpModuleList::from_modules(mods);
            let all: Vec<&MinidumpModule> = list.iter().collect();
            for m in list.by_addr() {
                let i = idx_of(&all, m);
                let r = own_range(builder, &es[i]).expect("by_addr lists an entry without a valid range");
                t.byaddr.push((r.0, r.1, i.to_string()));
            }
            for q in qs {
                t.gets.push(
                    list.module_at_address(*q)
                        .map(|m| idx_of(&all, m).to_string())
                        .into_iter()
                        .collect(),
                );
            }
        }
        "unl" => {
            let mods: Vec<MinidumpUnloadedModule> = es
                .iter()
                .enumerate()
                .map(|(i, e)| MinidumpUnloadedModule::new(e.lo, e.b as u32, &format!("m{i}")))
                .collect();
            let list = MinidumpUnloadedModuleList::from_modules(mods);
            let all: Vec<&MinidumpUnloadedModule> = list.iter().collect();
            for m in list.by_addr() {
                let i = idx_of(&all, m);
                let r = own_range(builder, &es[i]).expect("by_addr lists an entry without a valid range");
                t.byaddr.push((r.0, r.1, i.to_string()));
            }
            for q in qs {
                t.gets.push(
                    list.modules_at_address(*q)
                        .map(|m| idx_of(&all, m).to_string())
                        .collect(),
                );
            }
        }
        "mem" => {
            let regs: Vec<MinidumpMemory> = es
                .iter()
                .map(|e| MinidumpMemory {
                    desc: Default::default(),
                    base_address: e.lo,
                    size: e.b,
                    bytes: &[],
                    endian: scroll::LE,
                })
                .collect();
            let list = MinidumpMemoryList::from_regions(regs);
            let all: Vec<&MinidumpMemory> = list.iter().collect();
            for m in list.by_addr() {
                let i = idx_of(&all, m);
                let r = own_range(builder, &es[i]).expect("by_addr lists an entry without a valid range");
                t.byaddr.push((r.0, r.1, i.to_string()));
            }
            for q in qs {
                t.gets.push(
                    list.memory_at_address(*q)
                        .map(|m| idx_of(&all, m).to_string())
                        .into_iter()
                        .collect(),
                );
            }
        }
        "mem64" => {
            let regs: Vec<MinidumpMemory64> = es
                .iter()
                .map(|e| MinidumpMemory64 {
                    desc: Default::default(),
                    base_address: e.lo,
                    size: e.b,
                    bytes: &[],
                    endian: scroll::LE,
                })
                .collect();
            let list = MinidumpMemory64List::from_regions(regs);
            let all: Vec<&MinidumpMemory64> = list.iter().collect();
            for m in list.by_addr() {
                let i = idx_of(&all, m);
                let r = own_range(builder, &es[i]).expect("by_addr lists an entry without a valid range");
                t.byaddr.push((r.0, r.1, i.to_string()));
            }
            for q in qs {
                t.gets.push(
                    list.memory_at_address(*q)
                        .map(|m| idx_of(&all, m).to_string())
                        .into_iter()
                        .collect(),
                );
            }
        }
        "info" => {
            let mut dump = synth::SynthMinidump::with_endian(Endian::Little);
            for e in es {
                dump = dump.add_memory_info(synth::MemoryInfo::new(
                    Endian::Little,
                    e.lo,
                    e.lo,
                    0,
                    e.b,
                    0x1000,
                    0x20,
                    0,
                ));
            }
            let bytes = dump.finish().unwrap();
            let md = Minidump::read(bytes).unwrap();
            let list: MinidumpMemoryInfoList = md.get_stream().unwrap();
            let all: Vec<&MinidumpMemoryInfo> = list.iter().collect();
            for m in list.by_addr() {
                let i = idx_of(&all, m);
                let r = own_range(builder, &es[i]).expect("by_addr lists an entry without a valid range");
                t.byaddr.push((r.0, r.1, i.to_string()));
            }
            for q in qs {
                t.gets.push(
                    list.memory_info_at_address(*q)
                        .map(|m| idx_of(&all, m).to_string())
                        .into_iter()
                        .collect(),
                );
            }
        }
        "maps" => {
            let mut text = String::new();
            for (i, e) in es.iter().enumerate() {
                let _ = writeln!(text, "{:x}-{:x} r-xp 00000000 00:00 0 /lib/x{}", e.lo, e.b, i);
            }
            let dump = synth::SynthMinidump::with_endian(Endian::Little).set_linux_maps(text.as_bytes());
            let bytes = dump.finish().unwrap();
            let md = Minidump::read(bytes).unwrap();
            let list: MinidumpLinuxMaps = md.get_stream().unwrap();
            let all: Vec<&MinidumpLinuxMapInfo> = list.iter().collect();
            assert_eq!(all.len(), es.len(), "maps stream lost lines");
            for m in list.by_addr() {
                let i = idx_of(&all, m);
                let r = own_range(builder, &es[i]).expect("by_addr lists an entry without a valid range");
                t.byaddr.push((r.0, r.1, i.to_string()));
            }
            for q in qs {
                t.gets.push(
                    list.memory_info_at_address(*q)
                        .map(|m| idx_of(&all, m).to_string())
                        .into_iter()
                        .collect(),
                );
            }
        }
        "func" | "line" | "cfi" | "win4" | "win0" => {
            let mut text = String::from("MODULE Linux x86 000000000000000000000000000000000 a\n");
            match builder {
                "func" => {
                    for e in es {
                        let _ = writeln!(text, "FUNC {:x} {:x} 0 f{}", e.lo, e.b, e.tag);
                    }
                }
                "line" => {
                    text.push_str("FUNC 1 1 0 f\n");
                    for e in es {
                        let _ = writeln!(text, "{:x} {:x} {} 0", e.lo, e.b, e.tag);
                    }
                }
                "cfi" => {
                    for e in es {
                        let _ = writeln!(text, "STACK CFI INIT {:x} {:x} .cfa: {}", e.lo, e.b, e.tag);
                    }
                }
                "win4" => {
                    for e in es {
                        let _ = writeln!(text, "STACK WIN 4 {:x} {:x} 0 0 0 0 {:x} 0 1 $eip", e.lo, e.b, e.tag);
                    }
                }
                _ => {
                    for e in es {
                        let _ = writeln!(text, "STACK WIN 0 {:x} {:x} 0 0 0 0 {:x} 0 0 1", e.lo, e.b, e.tag);
                    }
                }
            }
            let sf = SymbolFile::from_bytes(text.as_bytes()).expect("generated symbol file parses");
            match builder {
                "func" => {
                    macro_rules! id { ($f:expr) => { format!("{}/{}/{}", $f.address, $f.size, &$f.name[1..]) } }
                    for (r, f) in sf.functions.ranges_values() {
                        t.byaddr.push((r.start, r.end, id!(f)));
                    }
                    for q in qs {
                        t.gets.push(sf.functions.get(*q).map(|x| id!(x)).into_iter().collect());
                    }
                }
                "line" => {
                    let f = sf.functions.get(1).expect("FUNC 1 1 present");
                    macro_rules! id { ($l:expr) => { format!("{}/{}/{}", $l.address, $l.size, $l.line) } }
                    for (r, l) in f.lines.ranges_values() {
                        t.byaddr.push((r.start, r.end, id!(l)));
                    }
                    for q in qs {
                        t.gets.push(f.lines.get(*q).map(|x| id!(x)).into_iter().collect());
                    }
                }
                "cfi" => {
                    macro_rules! id { ($c:expr) => { format!("{}/{}/{}", $c.init.address, $c.size, $c.init.rules.trim_start_matches(".cfa: ")) } }
                    for (r, c) in sf.cfi_stack_info.ranges_values() {
                        t.byaddr.push((r.start, r.end, id!(c)));
                    }
                    for q in qs {
                        t.gets.push(sf.cfi_stack_info.get(*q).map(|x| id!(x)).into_iter().collect());
                    }
                }
                _ => {
                    let map = if builder == "win4" {
                        &sf.win_stack_framedata_info
                    } else {
                        &sf.win_stack_fpo_info
                    };
                    macro_rules! id { ($w:expr) => { format!("{}/{}/{}", $w.address, $w.size, $w.local_size) } }
                    for (r, w) in map.ranges_values() {
                        t.byaddr.push((r.start, r.end, id!(w)));
                    }
                    for q in qs {
                        t.gets.push(map.get(*q).map(|x| id!(x)).into_iter().collect());
                    }
                }
            }
        }
        _ => panic!("unknown builder"),
    }
    t
}

fn id_range(id: &str, builder: &str, es: &[Ent]) -> Option<(u64, u64)> {
    // own range of the record/entry the id denotes
    if id.contains('/') {
        let p: Vec<u64> = id.split('/').map(|x| x.parse().unwrap()).collect();
        own_range(builder, &Ent { lo: p[0], b: p[1], tag: p[2] })
    } else {
        let i: usize = id.parse().ok()?;
        own_range(builder, &es[i])
    }
}

impl Engine for Ranges {
    fn name(&self) -> &'static str {
        "ranges"
    }
    fn rule(&self) -> String {
        "case = (builder, entry list, query addresses); exhaustive part: all lists of <=3 entries over bases {0,1,2,3,2^64-3..2^64-1} x sizes {0,1,2,3,to-the-top,past-the-top} x 2 tags for 4 representative builders, queried at every domain address; random part: 1..12 entries over u64 with nested/identical/adjacent/equal-valued shapes, all 11 builders, queried at lo-1,lo,hi,hi+1 of every entry. non-trivial = at least two valid entries of which two intersect or touch; distinct = distinct case line".into()
    }
    fn exhaustive_part(&self) -> Option<String> {
        Some("all entry lists of length <= 2 (quick) / <= 3 (thorough) over the 7-address x 6-size x 2-tag domain, builders mod/func/line/unl, all domain addresses queried".into())
    }

    fn generate(&self, tier: Tier, rng: &mut Rng, emit: &mut dyn FnMut(String)) {
        // ---- exhaustive small domain
        let top = u64::MAX;
        let bases: [u64; 7] = [0, 1, 2, 3, top - 2, top - 1, top];
        let qs: Vec<u64> = vec![0, 1, 2, 3, 4, 5, top - 5, top - 4, top - 3, top - 2, top - 1, top];
        let qstr = qs.iter().map(|q| q.to_string()).collect::<Vec<_>>().join(",");
        let mut dom: Vec<(u64, u64, u64)> = vec![];
        for &b in &bases {
            // sizes 0,1,2,3, up to exactly the top (base+size = 2^64 - 1, and = 2^64), clipped to u32 when needed later
            let mut sizes: Vec<u64> = vec![0, 1, 2, 3];
            let to_top = (top - b).wrapping_add(1); // base+size = 2^64 (0 when b = 0 -> wraps)
            if b >= top - 2 {
                sizes.push(top - b); // ends at 2^64-2.. one below top
                sizes.push(to_top); // base+size = 2^64
                sizes.push(to_top + 1); // past the top
            }
            sizes.sort();
            sizes.dedup();
            for s in sizes {
                for tag in 0..2u64 {
                    dom.push((b, s, tag));
                }
            }
        }
        let max_len = if tier == Tier::Quick { 2 } else { 3 };
        for builder in ["mod", "func", "line", "unl"] {
            let mut stack: Vec<Vec<usize>> = vec![vec![]];
            while let Some(cur) = stack.pop() {
                if !cur.is_empty() {
                    let es = cur
                        .iter()
                        .map(|&i| format!("{}:{}:{}", dom[i].0, dom[i].1, dom[i].2))
                        .collect::<Vec<_>>()
                        .join(" ");
                    emit(format!("ranges {builder} q {qstr} e {es}"));
                }
                if cur.len() < max_len {
                    for i in 0..dom.len() {
                        // index-valued builders ignore tags: skip tag 1 there
                        if (builder == "mod" || builder == "unl") && dom[i].2 == 1 {
                            continue;
                        }
                        let mut n = cur.clone();
                        n.push(i);
                        stack.push(n);
                    }
                }
            }
        }
        // ---- random over u64
        let n = if tier == Tier::Quick { 40000 } else { 120000 };
        for _ in 0..n {
            let builder = *rng.pick(BUILDERS);
            let lim = size_limit(builder);
            let cnt = rng.range(1, 12);
            let mut es: Vec<Ent> = vec![];
            let anchor = match rng.below(4) {
                0 => rng.below(64),
                1 => u64::MAX - rng.below(64),
                2 => (1u64 << 32) - 32 + rng.below(64),
                _ => rng.next(),
            };
            for _ in 0..cnt {
                let shape = rng.below(10);
                let e = if !es.is_empty() && shape < 6 {
                    let p = *rng.pick(&es);
                    match shape {
                        0 => p, // identical
                        1 => Ent { tag: p.tag ^ 1, ..p }, // identical range, other value
                        2 => Ent { lo: p.lo.wrapping_add(rng.below(4)), b: p.b.saturating_sub(rng.below(4)), tag: rng.below(3) }, // nested-ish
                        3 => {
                            // adjacent after
                            let end = if builder == "maps" { p.b.wrapping_add(1) } else { p.lo.wrapping_add(p.b) };
                            Ent { lo: end, b: if builder == "maps" { end.wrapping_add(rng.below(8)) } else { rng.below(8) }, tag: p.tag }
                        }
                        4 => Ent { lo: p.lo.wrapping_sub(rng.below(6)), b: p.b, tag: rng.below(3) },
                        _ => Ent { lo: p.lo, b: p.b.wrapping_add(rng.below(6)), tag: p.tag },
                    }
                } else {
                    let lo = anchor.wrapping_add(rng.below(40)).wrapping_sub(20);
                    let b = if builder == "maps" {
                        match rng.below(6) {
                            0 => lo.wrapping_sub(1),
                            _ => lo.saturating_add(rng.below(12)),
                        }
                    } else {
                        match rng.below(8) {
                            0 => 0,
                            1 => (u64::MAX - lo).wrapping_add(1), // base+size = 2^64
                            2 => u64::MAX - lo,
                            3 => lim,
                            _ => rng.below(12),
                        }
                    };
                    Ent { lo, b, tag: rng.below(3) }
                };
                let e = Ent { b: if builder == "maps" { e.b } else { e.b.min(lim) }, ..e };
                es.push(e);
            }
            let mut qs: Vec<u64> = vec![];
            for e in &es {
                if let Some((lo, hi)) = own_range(builder, e) {
                    qs.extend([lo.wrapping_sub(1), lo, hi, hi.wrapping_add(1)]);
                } else {
                    qs.push(e.lo);
                }
            }
            qs.push(rng.next());
            qs.sort();
            qs.dedup();
            let qstr = qs.iter().map(|q| q.to_string()).collect::<Vec<_>>().join(",");
            let estr = es
                .iter()
                .map(|e| format!("{}:{}:{}", e.lo, e.b, e.tag))
                .collect::<Vec<_>>()
                .join(" ");
            emit(format!("ranges {builder} q {qstr} e {estr}"));
        }
    }

    fn exec(&self, case: &str) -> ImplResult {
        let mut res = ImplResult::default();
        let Some((builder, qs, es)) = parse_case(case) else {
            res.out = "bad-op".into();
            return res;
        };
        // sizes beyond what the record type can hold are not expressible: clip like the generator does
        let lim = size_limit(&builder);
        if builder != "maps" && es.iter().any(|e| e.b > lim) {
            res.out = "bad-op".into();
            return res;
        }
        res.tags.push(format!("builder:{builder}"));
        res.tags.push(format!("entries:{}", es.len()));
        let valid: Vec<(usize, (u64, u64))> = es
            .iter()
            .enumerate()
            .filter_map(|(i, e)| own_range(&builder, e).map(|r| (i, r)))
            .collect();
        let inter = |a: (u64, u64), b: (u64, u64)| a.0 <= b.1 && a.1 >= b.0;
        let touch = |a: (u64, u64), b: (u64, u64)| inter(a, b) || a.1.checked_add(1) == Some(b.0) || b.1.checked_add(1) == Some(a.0);
        res.nontrivial = valid.len() >= 2
            && valid
                .iter()
                .any(|(i, r)| valid.iter().any(|(j, s)| i != j && touch(*r, *s)));
        if valid.len() < es.len() {
            res.tags.push("has-invalid-range".into());
        }
        if valid.iter().any(|(_, r)| r.1 == u64::MAX) {
            res.tags.push("ends-at-top".into());
        }
        let t = match catch(|| build(&builder, &qs, &es)) {
            Ok(t) => t,
            Err(msg) => {
                res.out = "PANIC".into();
                res.oracle.push(("build-panics".into(), msg));
                return res;
            }
        };
        // canonical output
        let mut out = String::from("byaddr:");
        out.push_str(
            &t.byaddr
                .iter()
                .map(|(lo, hi, id)| format!("{lo}-{hi}={id}"))
                .collect::<Vec<_>>()
                .join(","),
        );
        out.push_str(" get:");
        out.push_str(
            &qs.iter()
                .zip(&t.gets)
                .map(|(q, g)| {
                    if builder == "unl" {
                        format!("{q}={}", g.join("+"))
                    } else {
                        format!("{q}={}", g.first().map(|s| s.as_str()).unwrap_or("-"))
                    }
                })
                .collect::<Vec<_>>()
                .join(","),
        );
        res.out = out;
        // ---- the property's oracle on the implementation alone
        // (1) iteration by address is sorted and non-overlapping (unloaded list: sorted only)
        for w in t.byaddr.windows(2) {
            let (a, b) = (&w[0], &w[1]);
            if builder == "unl" {
                if (a.0, a.1) > (b.0, b.1) {
                    res.oracle.push(("byaddr-not-sorted".into(), format!("{a:?} before {b:?}")));
                }
            } else if !(a.0 <= a.1 && a.1 < b.0) {
                res.oracle.push(("byaddr-overlap-or-unsorted".into(), format!("{a:?} then {b:?}")));
            }
        }
        // (2) a lookup only returns an entry whose own range contains the address
        for (q, g) in qs.iter().zip(&t.gets) {
            for id in g {
                match id_range(id, &builder, &es) {
                    Some((lo, hi)) if lo <= *q && *q <= hi => {}
                    r => res.oracle.push((
                        "lookup-unsound".into(),
                        format!("address {q} -> entry {id} with own range {r:?}"),
                    )),
                }
            }
        }
        // (3) an entry that intersects no other entry is found for every address inside it
        //     (win tables: the parser's documented overlap repair rewrites sizes, so isolation is the
        //      only case asserted there too — isolated entries are never repaired)
        for (i, r) in &valid {
            if valid.iter().any(|(j, s)| i != j && inter(*r, *s)) {
                continue;
            }
            for (q, g) in qs.iter().zip(&t.gets) {
                if r.0 <= *q && *q <= r.1 {
                    let want_idx = i.to_string();
                    let want_rec = format!("{}/{}/{}", es[*i].lo, es[*i].b, es[*i].tag);
                    if !g.iter().any(|id| *id == want_idx || *id == want_rec) {
                        res.oracle.push((
                            "isolated-entry-not-found".into(),
                            format!("entry #{i} {:?} isolated, address {q} -> {g:?}", es[*i]),
                        ));
                    }
                }
            }
        }
        // (4) unloaded modules: exactly all entries covering the address
        if builder == "unl" {
            for (q, g) in qs.iter().zip(&t.gets) {
                let mut want: Vec<String> = valid
                    .iter()
                    .filter(|(_, r)| r.0 <= *q && *q <= r.1)
                    .map(|(i, _)| i.to_string())
                    .collect();
                let mut got = g.clone();
                want.sort();
                got.sort();
                if want != got {
                    res.oracle.push(("unloaded-not-exact".into(), format!("address {q}: want {want:?} got {got:?}")));
                }
            }
        }
        res
    }

    fn shrink(&self, case: &str, still_fails: &dyn Fn(&str) -> bool) -> String {
        let Some((builder, qs, es)) = parse_case(case) else { return case.to_string() };
        let render = |qs: &[u64], es: &[Ent]| {
            format!(
                "ranges {builder} q {} e {}",
                qs.iter().map(|q| q.to_string()).collect::<Vec<_>>().join(","),
                es.iter().map(|e| format!("{}:{}:{}", e.lo, e.b, e.tag)).collect::<Vec<_>>().join(" ")
            )
        };
        let (mut qs, mut es) = (qs, es);
        let mut progress = true;
        while progress {
            progress = false;
            let mut i = 0;
            while es.len() > 1 && i < es.len() {
                let mut c = es.clone();
                c.remove(i);
                if still_fails(&render(&qs, &c)) {
                    es = c;
                    progress = true;
                } else {
                    i += 1;
                }
            }
            let mut i = 0;
            while qs.len() > 1 && i < qs.len() {
                let mut c = qs.clone();
                c.remove(i);
                if still_fails(&render(&c, &es)) {
                    qs = c;
                    progress = true;
                } else {
                    i += 1;
                }
            }
        }
        render(&qs, &es)
    }
}
