//! Engine `chain` (C04): stacks laid out by the calling convention (frame-pointer chains), described
//! by STACK CFI records, or findable only by scanning, for all context kinds — the generated call
//! chain is the oracle for `minidump_unwind::walk_stack`, and the Lean model walks the same case.
//!
//! case line:  chain <technique> exp:<ret,sp,fp|-,module,function>|... <fields of a `walk` case>
//! The model is asked twice: `walk …` (frame-by-frame correspondence, through `model_request`) and
//! `chain pre …` (the decidable precondition `Pre` of the C04 theorems, evaluated on the generated
//! case): a case outside the precondition is counted (`pre-rejected`) and not used as an oracle.

use super::walk::*;
use crate::common::*;
use minidump::*;
use minidump_unwind::FrameTrust;
use std::cell::RefCell;

pub struct Chain;

const TECHS: &[&str] = &["fp", "cfi", "scan"];

#[derive(Clone, Debug)]
struct Exp {
    ret: u64,
    sp: u64,
    fp: Option<u64>,
    module: usize,
    func: String,
}

fn render_exp(e: &[Exp]) -> String {
    if e.is_empty() {
        return "exp:-".into();
    }
    format!(
        "exp:{}",
        e.iter()
            .map(|x| format!("{},{},{},{},{}", x.ret, x.sp, x.fp.map(|v| v.to_string()).unwrap_or_else(|| "-".into()), x.module, x.func))
            .collect::<Vec<_>>()
            .join("|")
    )
}

fn parse_exp(s: &str) -> Option<Vec<Exp>> {
    let body = s.strip_prefix("exp:")?;
    if body == "-" {
        return Some(vec![]);
    }
    body.split('|')
        .map(|f| {
            let p: Vec<&str> = f.split(',').collect();
            if p.len() != 5 {
                return None;
            }
            Some(Exp {
                ret: p[0].parse().ok()?,
                sp: p[1].parse().ok()?,
                fp: if p[2] == "-" { None } else { Some(p[2].parse().ok()?) },
                module: p[3].parse().ok()?,
                func: p[4].to_string(),
            })
        })
        .collect()
}

thread_local! {
    static MODEL: RefCell<Option<Option<Model>>> = const { RefCell::new(None) };
}

/// ask this worker's own model process (path taken from the harness's `--model` argument)
fn ask_model(req: &str) -> Option<String> {
    MODEL.with(|m| {
        let mut m = m.borrow_mut();
        if m.is_none() {
            let args: Vec<String> = std::env::args().collect();
            let path = args.iter().position(|a| a == "--model").and_then(|i| args.get(i + 1).cloned()).unwrap_or_else(|| "/verif/lean/.lake/build/bin/mdmodel".into());
            *m = Some(Model::spawn_opt(&path));
        }
        m.as_mut().unwrap().as_mut().map(|model| model.ask(req))
    })
}

fn func_name(world: &World, f: &GFunc) -> String {
    // name of the FUNC record that starts at f.start
    let (mb, _, _) = &world.mods[f.module];
    for r in &world.syms[f.module].1 {
        if let Rec::F { addr, name, .. } = r {
            if mb + addr == f.start {
                return name.clone();
            }
        }
    }
    "?".into()
}

fn fp_capable(arch: &str, os: &str) -> bool {
    matches!(arch, "x86" | "amd64" | "arm64" | "arm64old") || (arch == "arm" && os == "ios")
}

/// a return address into `f` whose lookup address (`ret - adj`) is still inside `f`
fn ret_into(rng: &mut Rng, arch: &str, f: &GFunc) -> u64 {
    f.start + adj_of(arch) + rng.below(f.size - adj_of(arch))
}

fn gen_chain(rng: &mut Rng, tech: &str, arch: &str, os: &str) -> Option<String> {
    let p = ptr_of(arch);
    let share = if tech == "cfi" { 80 } else { 0 };
    let (mut world, mut funcs) = tidy_world(rng, arch, share);
    let leaf_first = tech == "cfi" && !matches!(arch, "x86" | "amd64") && rng.chance(1, 3);
    if leaf_first {
        // a leaf function: return address in the link register, no stack of its own
        let (mb, msz, _) = world.mods[0].clone();
        let at = msz as u64;
        let lr = match arch {
            "mips32" | "mips64" => "$ra",
            _ => "lr",
        };
        world.syms[0].1.push(Rec::F { addr: at, size: 64, psize: 0, name: "leaf".into() });
        world.syms[0].1.push(Rec::C { addr: at, size: 64, rules: format!(".cfa: {} 0 + .ra: {}", reg_tok(arch, sp_name(arch)), lr) });
        world.mods[0].1 = msz + 64;
        // keep modules disjoint
        if world.mods.len() > 1 && mb + msz as u64 + 64 > world.mods[1].0 {
            return None;
        }
        funcs.push(GFunc { module: 0, start: mb + at, size: 64, cfi_words: Some(0), saves_fp: false });
    }
    let with_cfi: Vec<usize> = funcs.iter().enumerate().filter(|(_, f)| matches!(f.cfi_words, Some(n) if n > 0)).map(|x| x.0).collect();
    let saving: Vec<usize> = with_cfi.iter().copied().filter(|i| funcs[*i].saves_fp).collect();
    let without: Vec<usize> = funcs.iter().enumerate().filter(|(_, f)| f.cfi_words.is_none()).map(|x| x.0).collect();
    let maxd = *rng.pick(&[2u64, 6, 16, 64]);
    let depth = 1 + rng.below(maxd);
    let base: u64 = ((0x2000_0000 + rng.below(0x3000_0000)) & !(p - 1)) + if p == 8 && rng.chance(1, 3) { 0x7fff_0000_0000 } else { 0 };
    let mut words: Vec<u64> = vec![];
    let put = |words: &mut Vec<u64>, i: u64, v: u64| {
        if words.len() <= i as usize {
            words.resize(i as usize + 1, 0);
        }
        words[i as usize] = v;
    };
    let addr = |i: u64| base + i * p;
    let mut exp: Vec<Exp> = vec![];
    let mut regs: Vec<(String, u64)> = vec![];
    let s0 = rng.below(4);
    match tech {
        "fp" => {
            if !fp_capable(arch, os) {
                return None;
            }
            let win = arch == "amd64" && os == "windows";
            let f0 = s0 + rng.below(8);
            let slack0 = if win { 16 * rng.below((f0 * p / 16).min(15) + 1) } else { 0 };
            let ip0 = { let f = &funcs[rng.below(funcs.len() as u64) as usize]; f.start + rng.below(f.size) };
            regs.push((ip_name(arch).into(), ip0));
            regs.push((sp_name(arch).into(), addr(s0)));
            regs.push((fp_name(arch).into(), addr(f0) - slack0));
            let mut f = f0;
            for _ in 0..depth {
                let k = rng.below(funcs.len() as u64) as usize;
                let ret = ret_into(rng, arch, &funcs[k]);
                let gap = rng.below(8) + if win { rng.below(30) } else { 0 };
                let next_f = f + 2 + gap;
                let slack = if win { 16 * rng.below((gap * p / 16).min(15) + 1) } else { 0 };
                put(&mut words, f, addr(next_f) - slack);
                put(&mut words, f + 1, ret);
                exp.push(Exp { ret, sp: addr(f + 2), fp: Some(addr(next_f) - slack), module: funcs[k].module, func: func_name(&world, &funcs[k]) });
                f = next_f;
            }
            // the outermost record: saved fp = 0, return address = 0; then zeros to the end
            put(&mut words, f + 1 + 2 + rng.below(8), 0);
        }
        "cfi" => {
            if with_cfi.is_empty() || without.is_empty() {
                return None;
            }
            // the frame below the outermost one must leave fp = 0 behind (so that the frame-pointer
            // unwinder cannot continue at the end): either fp is 0 from the start and never saved,
            // or the last CFI function saves it
            let zero_fp = saving.is_empty() || rng.chance(1, 2);
            let plain: Vec<usize> = with_cfi.iter().copied().filter(|i| !funcs[*i].saves_fp).collect();
            if zero_fp && plain.is_empty() {
                return None;
            }
            let pick_cfi = |rng: &mut Rng, last: bool| -> usize {
                if zero_fp {
                    *rng.pick(&plain)
                } else if last {
                    *rng.pick(&saving)
                } else {
                    *rng.pick(&with_cfi)
                }
            };
            let mut cur = if leaf_first { funcs.len() - 1 } else { pick_cfi(rng, depth == 1) };
            let ip0 = funcs[cur].start + rng.below(funcs[cur].size);
            let mut fp_now: u64 = if zero_fp { 0 } else { addr(s0 + rng.below(16)) };
            regs.push((ip_name(arch).into(), ip0));
            regs.push((sp_name(arch).into(), addr(s0)));
            regs.push((fp_name(arch).into(), fp_now));
            let mut s = s0;
            for i in 0..depth {
                let last = i + 1 == depth;
                let next = if last { *rng.pick(&without) } else { pick_cfi(rng, i + 2 == depth) };
                let ret = ret_into(rng, arch, &funcs[next]);
                let n = funcs[cur].cfi_words.unwrap();
                if n == 0 {
                    // leaf: return address in the link register
                    let lr = match arch {
                        "mips32" | "mips64" => "ra",
                        _ => "lr",
                    };
                    regs.push((lr.into(), ret));
                    if last && fp_now != 0 {
                        return None;
                    }
                } else {
                    put(&mut words, s + n - 1, ret);
                    if funcs[cur].saves_fp {
                        fp_now = if last { 0 } else { addr(s + n + rng.below(8)) };
                        put(&mut words, s + n - 2, fp_now);
                    }
                    s += n;
                }
                exp.push(Exp { ret, sp: addr(s), fp: Some(fp_now), module: funcs[next].module, func: func_name(&world, &funcs[next]) });
                cur = next;
            }
            put(&mut words, s + 2 + rng.below(8), 0);
        }
        _ => {
            let ip0 = { let f = &funcs[rng.below(funcs.len() as u64) as usize]; f.start + rng.below(f.size) };
            regs.push((ip_name(arch).into(), ip0));
            regs.push((sp_name(arch).into(), addr(s0)));
            regs.push((fp_name(arch).into(), 0));
            let mut s = s0;
            for i in 0..depth {
                let k = rng.below(funcs.len() as u64) as usize;
                let ret = ret_into(rng, arch, &funcs[k]);
                let junk = match (arch, i) {
                    ("mips32", 0) => rng.below(200),
                    ("mips32", _) => 4 + rng.below(200),
                    ("mips64", _) => rng.below(120),
                    (_, 0) => rng.below(160),
                    _ => rng.below(40),
                };
                // junk words: zero or small integers (never an address inside a module)
                for j in 0..junk {
                    if rng.chance(1, 4) {
                        put(&mut words, s + j, 1 + rng.below(4000));
                    }
                }
                put(&mut words, s + junk, ret);
                s += junk + 1;
                exp.push(Exp { ret, sp: addr(s), fp: None, module: funcs[k].module, func: func_name(&world, &funcs[k]) });
            }
            put(&mut words, s + 2 + rng.below(8), 0);
        }
    }
    let mut bytes = vec![0u8; words.len() * p as usize];
    for (i, w) in words.iter().enumerate() {
        put_word(&mut bytes, i as u64, p, *w);
    }
    let case = Case {
        engine: "chain".into(),
        extra: vec![tech.to_string(), render_exp(&exp)],
        arch: arch.into(),
        os: os.into(),
        regs,
        valid: None,
        stack: Some((base, bytes)),
        mods: world.mods,
        syms: world.syms,
        symraw: vec![],
    };
    Some(case.render())
}

fn want_trust(tech: &str) -> FrameTrust {
    match tech {
        "fp" => FrameTrust::FramePointer,
        "cfi" => FrameTrust::CallFrameInfo,
        _ => FrameTrust::Scan,
    }
}

impl Engine for Chain {
    fn name(&self) -> &'static str {
        "chain"
    }
    fn rule(&self) -> String {
        "case = a generated call chain (depth 1..64) laid out on a stack for one technique per walk: frame-pointer chains (x86, amd64 incl. the Windows 16-byte-step slack of up to 240 bytes, arm64 both layouts, arm on iOS), canonical STACK CFI (`.cfa: $sp N + .ra: .cfa -W + ^ [fp: .cfa -2W + ^]`, optional leaf first frame `.ra: lr` on ARM/ARM64/MIPS) on all seven context kinds/modes, or return addresses findable only by scanning (junk words within the 40/160-word windows, MIPS 4-word skip); random non-overlapping modules and FUNC layouts, 5 OSes. Oracle: walk_stack's frames = the generated chain (count, return address, sp, technique label, recovered frame pointer, module, function) when the Lean precondition `Pre` accepts the case; model compared frame by frame. non-trivial = chain depth >= 2; distinct = distinct case line".into()
    }

    fn generate(&self, tier: Tier, rng: &mut Rng, emit: &mut dyn FnMut(String)) {
        let n = if tier == Tier::Quick { 500 } else { 12000 };
        for tech in TECHS {
            for arch in ARCHS {
                for i in 0..n {
                    let os = match (*tech, *arch) {
                        ("fp", "arm") => "ios",
                        _ => OSES[(i % OSES.len() as u64) as usize],
                    };
                    for _ in 0..8 {
                        if let Some(c) = gen_chain(rng, tech, arch, os) {
                            emit(c);
                            break;
                        }
                        if *tech == "fp" && !fp_capable(arch, os) {
                            break;
                        }
                    }
                }
            }
        }
    }

    fn exec(&self, case: &str) -> ImplResult {
        let mut res = ImplResult::default();
        let Some(c) = Case::parse(case, 2) else {
            res.out = "bad-op".into();
            return res;
        };
        let tech = c.extra[0].clone();
        let Some(exp) = parse_exp(&c.extra[1]) else {
            res.out = "bad-op".into();
            return res;
        };
        if !TECHS.contains(&tech.as_str()) {
            res.out = "bad-op".into();
            return res;
        }
        res.tags.push(format!("tech:{tech}"));
        res.tags.push(format!("arch:{}", c.arch));
        res.tags.push(format!("depth:{}", match exp.len() { 0..=1 => "1", 2..=4 => "2-4", 5..=16 => "5-16", _ => "17-64" }));
        res.nontrivial = exp.len() >= 2;
        let stack = match run_walk(&c) {
            Err(msg) => {
                res.out = "PANIC".into();
                res.oracle.push(("walk-panics".into(), msg));
                return res;
            }
            Ok(s) => s,
        };
        res.out = show_stack(&c, &stack);
        // C05's invariant holds of every walk
        res.oracle = wf_oracle(&c, &stack);
        // the generated chain is an oracle only inside the theorems' precondition
        let pre = ask_model(&format!("chain pre {}", case.strip_prefix("chain ").unwrap_or(case)));
        match pre.as_deref() {
            Some("1") | None => {}
            Some("0") => {
                res.tags.push("pre-rejected".into());
                return res;
            }
            Some(other) => {
                res.oracle.push(("pre-query-failed".into(), other.to_string()));
                return res;
            }
        }
        res.tags.push("pre-accepted".into());
        let fs = &stack.frames;
        let arch = c.arch.clone();
        let mut mismatch = |what: String| res.oracle.push((format!("chain-mismatch-{tech}-{arch}"), what));
        if fs.len() != exp.len() + 1 {
            mismatch(format!("{} frames for a chain of {} calls (expected {})", fs.len(), exp.len(), exp.len() + 1));
        }
        for (i, e) in exp.iter().enumerate() {
            let Some(f) = fs.get(i + 1) else { break };
            if f.resume_address != e.ret {
                mismatch(format!("frame {}: return address {} expected {}", i + 1, f.resume_address, e.ret));
                break;
            }
            if f.context.get_stack_pointer() != e.sp {
                mismatch(format!("frame {}: sp {} expected {}", i + 1, f.context.get_stack_pointer(), e.sp));
                break;
            }
            if f.trust != want_trust(&tech) {
                mismatch(format!("frame {}: found by {} expected {}", i + 1, f.trust.as_str(), want_trust(&tech).as_str()));
                break;
            }
            if let Some(want) = e.fp {
                let got = f.context.get_register(fp_name(&c.arch));
                if got != Some(want) {
                    mismatch(format!("frame {}: recovered {} = {:?} expected {}", i + 1, fp_name(&c.arch), got, want));
                    break;
                }
            }
            let m = f.module.as_ref().and_then(|m| c.mods.iter().position(|(b, _, n)| *b == m.base_address() && *n == m.name));
            if m != Some(e.module) || f.function_name.as_deref() != Some(e.func.as_str()) {
                mismatch(format!("frame {}: module {:?} function {:?} expected module {} function {}", i + 1, m, f.function_name, e.module, e.func));
                break;
            }
        }
        res
    }

    fn model_request(&self, case: &str) -> Option<String> {
        // the model walks the very same inputs: drop the technique and expectation fields
        let f: Vec<&str> = case.splitn(4, ' ').collect();
        if f.len() == 4 {
            Some(format!("walk {}", f[3]))
        } else {
            None
        }
    }

    fn shrink(&self, case: &str, _still_fails: &dyn Fn(&str) -> bool) -> String {
        case.to_string()
    }
}
