//! Engine `chain` (C04): stacks laid out by the calling convention (frame-pointer chains), described
//! by STACK CFI or STACK WIN records, or findable only by scanning, for all context kinds — the
//! generated call chain is the oracle for `minidump_unwind::walk_stack`, and the Lean model walks
//! the same case.
//!
//! case line:  chain <technique> exp:<frame>|<frame>... [win:<records>] <fields of a `walk` case>
//!   frame   = ret,sp,fp|-,module,function|-[,technique|-[,reg=val/reg=val..|-]]
//!   records = <module>:<rec>;<rec>..,<module>:..   rec = ty|addr|size|par|sav|loc|hp|rest (`_` = space)
//! techniques: fp | cfi | scan (one technique per walk), win (x86 STACK WIN chains with frames in
//! unsymbolicated modules below/between), mixed (per-frame alternation on every architecture).
//! The model is asked twice: the walk itself (frame-by-frame correspondence, through
//! `model_request`) and `chain pre …` (the decidable precondition `Pre` of the C04 theorems,
//! evaluated on the generated case): a case outside the precondition is counted (`pre-rejected`)
//! and not used as an oracle.

use super::walk::*;
use crate::common::*;
use minidump::*;
use minidump_unwind::FrameTrust;
use std::cell::RefCell;
use std::collections::BTreeMap;

pub struct Chain;

const TECHS: &[&str] = &["fp", "cfi", "scan", "win", "mixed"];

#[derive(Clone, Debug)]
struct Exp {
    ret: u64,
    sp: u64,
    fp: Option<u64>,
    module: usize,
    /// `None`: the frame has no function name (module without symbols)
    func: Option<String>,
    /// technique of this frame (`None`: the technique of the case)
    tech: Option<String>,
    /// recovered callee-saved registers (other than the frame pointer) and their values
    regs: Vec<(String, u64)>,
}

fn render_exp(e: &[Exp]) -> String {
    if e.is_empty() {
        return "exp:-".into();
    }
    format!(
        "exp:{}",
        e.iter()
            .map(|x| {
                let mut s = format!(
                    "{},{},{},{},{}",
                    x.ret,
                    x.sp,
                    x.fp.map(|v| v.to_string()).unwrap_or_else(|| "-".into()),
                    x.module,
                    x.func.clone().unwrap_or_else(|| "-".into())
                );
                if x.tech.is_some() || !x.regs.is_empty() {
                    s.push_str(&format!(",{}", x.tech.clone().unwrap_or_else(|| "-".into())));
                    if x.regs.is_empty() {
                        s.push_str(",-");
                    } else {
                        s.push_str(&format!(",{}", x.regs.iter().map(|(n, v)| format!("{n}={v}")).collect::<Vec<_>>().join("/")));
                    }
                }
                s
            })
            .collect::<Vec<_>>()
            .join("|")
    )
}

fn parse_exp(s: &str) -> Option<Vec<Exp>> {
    let body = s.strip_prefix("exp:")?;
    if body == "-" {
        return Some(vec![]);
    }
    body.split('|')
        .map(|f| {
            let p: Vec<&str> = f.split(',').collect();
            if !(5..=7).contains(&p.len()) {
                return None;
            }
            let tech = match p.get(5) {
                None | Some(&"-") => None,
                Some(t) => Some(t.to_string()),
            };
            let mut regs = vec![];
            if let Some(r) = p.get(6) {
                if *r != "-" {
                    for a in r.split('/') {
                        let (n, v) = a.split_once('=')?;
                        regs.push((n.to_string(), v.parse().ok()?));
                    }
                }
            }
            Some(Exp {
                ret: p[0].parse().ok()?,
                sp: p[1].parse().ok()?,
                fp: if p[2] == "-" { None } else { Some(p[2].parse().ok()?) },
                module: p[3].parse().ok()?,
                func: if p[4] == "-" { None } else { Some(p[4].to_string()) },
                tech,
                regs,
            })
        })
        .collect()
}

/// one `STACK WIN` record (module-relative address)
#[derive(Clone, Debug, PartialEq)]
struct WinRec {
    ty: char,
    addr: u64,
    size: u64,
    par: u32,
    sav: u32,
    loc: u32,
    /// program string (type 4) or `0` / `1` = allocates_base_pointer (type 0)
    rest: String,
}

impl WinRec {
    fn hp(&self) -> char {
        if self.ty == '4' {
            '1'
        } else {
            '0'
        }
    }
    fn line(&self) -> String {
        format!("STACK WIN {} {:x} {:x} 0 0 {:x} {:x} {:x} 0 {} {}\n", self.ty, self.addr, self.size, self.par, self.sav, self.loc, self.hp(), self.rest)
    }
}

fn render_wins(w: &[(String, Vec<WinRec>)]) -> String {
    let parts: Vec<String> = w
        .iter()
        .filter(|(_, r)| !r.is_empty())
        .map(|(m, recs)| {
            format!(
                "{}:{}",
                m,
                recs.iter()
                    .map(|r| format!("{}|{}|{}|{}|{}|{}|{}|{}", r.ty, r.addr, r.size, r.par, r.sav, r.loc, r.hp(), r.rest.replace(' ', "_")))
                    .collect::<Vec<_>>()
                    .join(";")
            )
        })
        .collect();
    if parts.is_empty() {
        "win:-".into()
    } else {
        format!("win:{}", parts.join(","))
    }
}

fn parse_wins(s: &str) -> Option<Vec<(String, Vec<WinRec>)>> {
    let body = s.strip_prefix("win:")?;
    if body == "-" {
        return Some(vec![]);
    }
    let mut out = vec![];
    for m in body.split(',') {
        let (name, recs) = m.split_once(':')?;
        let mut v = vec![];
        for r in recs.split(';').filter(|x| !x.is_empty()) {
            let p: Vec<&str> = r.split('|').collect();
            if p.len() != 8 {
                return None;
            }
            let ty = p[0].chars().next()?;
            let rec = WinRec { ty, addr: p[1].parse().ok()?, size: p[2].parse().ok()?, par: p[3].parse().ok()?, sav: p[4].parse().ok()?, loc: p[5].parse().ok()?, rest: p[7].replace('_', " ") };
            if p[6].chars().next()? != rec.hp() {
                return None;
            }
            v.push(rec);
        }
        out.push((name.to_string(), v));
    }
    Some(out)
}

/// split a case line into (technique, expectation, STACK WIN records, the `walk` case)
fn parse_case(case: &str) -> Option<(String, Vec<Exp>, Vec<(String, Vec<WinRec>)>, Case)> {
    let third = case.split(' ').filter(|s| !s.is_empty()).nth(3).unwrap_or("");
    let n_extra = if third.starts_with("win:") { 3 } else { 2 };
    let c = Case::parse(case, n_extra)?;
    let tech = c.extra[0].clone();
    let exp = parse_exp(&c.extra[1])?;
    let wins = if n_extra == 3 { parse_wins(&c.extra[2])? } else { vec![] };
    if !TECHS.contains(&tech.as_str()) {
        return None;
    }
    Some((tech, exp, wins, c))
}

thread_local! {
    static MODEL: RefCell<Option<Option<Model>>> = const { RefCell::new(None) };
}

/// ask this worker's own model process (path taken from the harness's `--model` argument)
fn ask_model(req: &str) -> Option<String> {
    MODEL.with(|m| {
        let mut m = m.borrow_mut();
        if m.is_none() {
            let args: Vec<String> = std::env::args().collect();
            let path = args.iter().position(|a| a == "--model").and_then(|i| args.get(i + 1).cloned()).unwrap_or_else(|| "/verif/lean/.lake/build/bin/mdmodel".into());
            *m = Some(Model::spawn_opt(&path));
        }
        m.as_mut().unwrap().as_mut().map(|model| model.ask(req))
    })
}

fn func_name(world: &World, f: &GFunc) -> String {
    // name of the FUNC record that starts at f.start
    let (mb, _, _) = &world.mods[f.module];
    for r in &world.syms[f.module].1 {
        if let Rec::F { addr, name, .. } = r {
            if mb + addr == f.start {
                return name.clone();
            }
        }
    }
    "?".into()
}

fn fp_capable(arch: &str, os: &str) -> bool {
    matches!(arch, "x86" | "amd64" | "arm64" | "arm64old") || (arch == "arm" && os == "ios")
}

/// a return address into `f` whose lookup address (`ret - adj`) is still inside `f`
fn ret_into(rng: &mut Rng, arch: &str, f: &GFunc) -> u64 {
    f.start + adj_of(arch) + rng.below(f.size - adj_of(arch))
}

fn gen_chain(rng: &mut Rng, tech: &str, arch: &str, os: &str) -> Option<String> {
    let p = ptr_of(arch);
    let share = if tech == "cfi" { 80 } else { 0 };
    let (mut world, mut funcs) = tidy_world(rng, arch, share);
    let leaf_first = tech == "cfi" && !matches!(arch, "x86" | "amd64") && rng.chance(1, 3);
    if leaf_first {
        // a leaf function: return address in the link register, no stack of its own
        let (mb, msz, _) = world.mods[0].clone();
        let at = msz as u64;
        let lr = match arch {
            "mips32" | "mips64" => "$ra",
            _ => "lr",
        };
        world.syms[0].1.push(Rec::F { addr: at, size: 64, psize: 0, name: "leaf".into() });
        world.syms[0].1.push(Rec::C { addr: at, size: 64, rules: format!(".cfa: {} 0 + .ra: {}", reg_tok(arch, sp_name(arch)), lr) });
        world.mods[0].1 = msz + 64;
        // keep modules disjoint
        // (the module list is not necessarily in address order)
        let (lo, hi) = (mb, mb + msz as u64 + 64);
        if world.mods.iter().skip(1).any(|(b, z, _)| *b < hi && lo < *b + *z as u64) {
            return None;
        }
        funcs.push(GFunc { module: 0, start: mb + at, size: 64, cfi_words: Some(0), saves_fp: false });
    }
    let with_cfi: Vec<usize> = funcs.iter().enumerate().filter(|(_, f)| matches!(f.cfi_words, Some(n) if n > 0)).map(|x| x.0).collect();
    let saving: Vec<usize> = with_cfi.iter().copied().filter(|i| funcs[*i].saves_fp).collect();
    let without: Vec<usize> = funcs.iter().enumerate().filter(|(_, f)| f.cfi_words.is_none()).map(|x| x.0).collect();
    let maxd = *rng.pick(&[2u64, 6, 16, 64]);
    let depth = 1 + rng.below(maxd);
    let base: u64 = ((0x2000_0000 + rng.below(0x3000_0000)) & !(p - 1)) + if p == 8 && rng.chance(1, 3) { 0x7fff_0000_0000 } else { 0 };
    let mut words: Vec<u64> = vec![];
    let put = |words: &mut Vec<u64>, i: u64, v: u64| {
        if words.len() <= i as usize {
            words.resize(i as usize + 1, 0);
        }
        words[i as usize] = v;
    };
    let addr = |i: u64| base + i * p;
    let mut exp: Vec<Exp> = vec![];
    let mut regs: Vec<(String, u64)> = vec![];
    let s0 = rng.below(4);
    match tech {
        "fp" => {
            if !fp_capable(arch, os) {
                return None;
            }
            let win = arch == "amd64" && os == "windows";
            let f0 = s0 + rng.below(8);
            let slack0 = if win { 16 * rng.below((f0 * p / 16).min(15) + 1) } else { 0 };
            let ip0 = { let f = &funcs[rng.below(funcs.len() as u64) as usize]; f.start + rng.below(f.size) };
            regs.push((ip_name(arch).into(), ip0));
            regs.push((sp_name(arch).into(), addr(s0)));
            regs.push((fp_name(arch).into(), addr(f0) - slack0));
            let mut f = f0;
            for _ in 0..depth {
                let k = rng.below(funcs.len() as u64) as usize;
                let ret = ret_into(rng, arch, &funcs[k]);
                let gap = rng.below(8) + if win { rng.below(30) } else { 0 };
                let next_f = f + 2 + gap;
                let slack = if win { 16 * rng.below((gap * p / 16).min(15) + 1) } else { 0 };
                put(&mut words, f, addr(next_f) - slack);
                put(&mut words, f + 1, ret);
                exp.push(Exp { ret, sp: addr(f + 2), fp: Some(addr(next_f) - slack), module: funcs[k].module, func: Some(func_name(&world, &funcs[k])), tech: None, regs: vec![] });
                f = next_f;
            }
            // the outermost record: saved fp = 0, return address = 0; then zeros to the end
            put(&mut words, f + 1 + 2 + rng.below(8), 0);
        }
        "cfi" => {
            if with_cfi.is_empty() || without.is_empty() {
                return None;
            }
            // the frame below the outermost one must leave fp = 0 behind (so that the frame-pointer
            // unwinder cannot continue at the end): either fp is 0 from the start and never saved,
            // or the last CFI function saves it
            let zero_fp = saving.is_empty() || rng.chance(1, 2);
            let plain: Vec<usize> = with_cfi.iter().copied().filter(|i| !funcs[*i].saves_fp).collect();
            if zero_fp && plain.is_empty() {
                return None;
            }
            let pick_cfi = |rng: &mut Rng, last: bool| -> usize {
                if zero_fp {
                    *rng.pick(&plain)
                } else if last {
                    *rng.pick(&saving)
                } else {
                    *rng.pick(&with_cfi)
                }
            };
            let mut cur = if leaf_first { funcs.len() - 1 } else { pick_cfi(rng, depth == 1) };
            let ip0 = funcs[cur].start + rng.below(funcs[cur].size);
            let mut fp_now: u64 = if zero_fp { 0 } else { addr(s0 + rng.below(16)) };
            regs.push((ip_name(arch).into(), ip0));
            regs.push((sp_name(arch).into(), addr(s0)));
            regs.push((fp_name(arch).into(), fp_now));
            let mut s = s0;
            for i in 0..depth {
                let last = i + 1 == depth;
                let next = if last { *rng.pick(&without) } else { pick_cfi(rng, i + 2 == depth) };
                let ret = ret_into(rng, arch, &funcs[next]);
                let n = funcs[cur].cfi_words.unwrap();
                if n == 0 {
                    // leaf: return address in the link register
                    let lr = match arch {
                        "mips32" | "mips64" => "ra",
                        _ => "lr",
                    };
                    regs.push((lr.into(), ret));
                    if last && fp_now != 0 {
                        return None;
                    }
                } else {
                    put(&mut words, s + n - 1, ret);
                    if funcs[cur].saves_fp {
                        fp_now = if last { 0 } else { addr(s + n + rng.below(8)) };
                        put(&mut words, s + n - 2, fp_now);
                    }
                    s += n;
                }
                exp.push(Exp { ret, sp: addr(s), fp: Some(fp_now), module: funcs[next].module, func: Some(func_name(&world, &funcs[next])), tech: None, regs: vec![] });
                cur = next;
            }
            // one stack in five ENDS with the outermost return-address slot (no zero words behind it)
            if !rng.chance(1, 5) {
                put(&mut words, s + 2 + rng.below(8), 0);
            }
        }
        _ => {
            let ip0 = { let f = &funcs[rng.below(funcs.len() as u64) as usize]; f.start + rng.below(f.size) };
            regs.push((ip_name(arch).into(), ip0));
            regs.push((sp_name(arch).into(), addr(s0)));
            regs.push((fp_name(arch).into(), 0));
            let mut s = s0;
            for i in 0..depth {
                let k = rng.below(funcs.len() as u64) as usize;
                let ret = ret_into(rng, arch, &funcs[k]);
                let junk = match (arch, i) {
                    ("mips32", 0) => rng.below(200),
                    ("mips32", _) => 4 + rng.below(200),
                    ("mips64", _) => rng.below(120),
                    (_, 0) => rng.below(160),
                    _ => rng.below(40),
                };
                // junk words: zero or small integers (never an address inside a module)
                for j in 0..junk {
                    if rng.chance(1, 4) {
                        put(&mut words, s + j, 1 + rng.below(4000));
                    }
                }
                put(&mut words, s + junk, ret);
                s += junk + 1;
                exp.push(Exp { ret, sp: addr(s), fp: None, module: funcs[k].module, func: Some(func_name(&world, &funcs[k])), tech: None, regs: vec![] });
            }
            if !rng.chance(1, 5) {
                put(&mut words, s + 2 + rng.below(8), 0);
            }
        }
    }
    let mut bytes = vec![0u8; words.len() * p as usize];
    for (i, w) in words.iter().enumerate() {
        put_word(&mut bytes, i as u64, p, *w);
    }
    let case = Case {
        engine: "chain".into(),
        extra: vec![tech.to_string(), render_exp(&exp), "win:-".to_string()],
        arch: arch.into(),
        os: os.into(),
        regs,
        valid: None,
        stack: Some((base, bytes)),
        mods: world.mods,
        syms: world.syms,
        symraw: vec![],
        be: false,
    };
    Some(case.render())
}


// ------------------------------------------------------------------------ mixed / STACK WIN chains

/// how a function's frame is found
#[derive(Clone, Debug, PartialEq)]
enum Kind {
    /// FUNC only (or no symbols at all): frame pointer where the architecture has that technique
    /// and the callee's frame pointer is live, else scan
    Plain,
    /// canonical STACK CFI, frame of `words` words, saved registers in slot order (slot k at `.cfa - (k+2)W`)
    Cfi { words: u64, saved: Vec<String> },
    /// `.cfa: sp 0 + .ra: lr` (ARM/ARM64/MIPS, first frame only)
    CfiLeaf,
    /// STACK WIN 4, standard prologue program; `saved` = (register, offset below `$T0 = $ebp`)
    WinStd { saved: Vec<(String, u64)>, msvc: bool },
    /// STACK WIN 4, `.raSearch` program containing `@` (search start = `$ebp + 4`)
    WinRaAt { saved: Vec<(String, u64)> },
    /// STACK WIN 4, `.raSearch` program (search start = `$esp + locals + saved + callee params`)
    WinRa { ebp_off: Option<u64>, saved: Vec<(String, u64)> },
    /// STACK WIN 0 (FPO)
    Fpo { abp: bool },
}

#[derive(Clone, Debug)]
struct MFunc {
    module: usize,
    start: u64,
    size: u64,
    name: Option<String>,
    kind: Kind,
    /// `parameter_size` that `fill_symbol` records on a frame in this function (None: no FUNC)
    psize: Option<u32>,
    sav: u32,
    loc: u32,
}

#[derive(Clone, Copy, Debug, PartialEq)]
enum Word {
    Val(u64),
    /// address of the stack word with this index
    Addr(u64),
}

/// state of the frame pointer register in the frame being unwound
#[derive(Clone, Copy, Debug, PartialEq)]
enum Fp {
    Invalid,
    Zero,
    /// points at the stack word with this index, at or above the frame's stack pointer
    Live(u64),
    /// valid, but no frame record is there
    Stale(Word),
}

impl Fp {
    fn word(&self) -> Option<Word> {
        match self {
            Fp::Invalid => None,
            Fp::Zero => Some(Word::Val(0)),
            Fp::Live(x) => Some(Word::Addr(*x)),
            Fp::Stale(w) => Some(*w),
        }
    }
}

fn other_callee_saved(arch: &str) -> &'static [&'static str] {
    match arch {
        "x86" => &["ebx", "edi", "esi"],
        "amd64" => &["rbx", "r12", "r13", "r14", "r15"],
        "arm" => &["r4", "r5", "r6", "r7", "r8", "r9", "r10"],
        "arm64" | "arm64old" => &["x19", "x20", "x21", "x22", "x23", "x24", "x25", "x26", "x27", "x28"],
        _ => &["s0", "s1", "s2", "s3", "s4", "s5", "s6", "s7", "gp"],
    }
}

/// `.cfa: $sp N + .ra: .cfa -W + ^ r1: .cfa -2W + ^ r2: .cfa -3W + ^ …`
fn canonical_cfi_regs(arch: &str, words: u64, saved: &[String]) -> String {
    let w = ptr_of(arch);
    let mut s = format!(".cfa: {} {} + .ra: .cfa -{} + ^", reg_tok(arch, sp_name(arch)), words * w, w);
    for (k, r) in saved.iter().enumerate() {
        s.push_str(&format!(" {}: .cfa -{} + ^", reg_tok(arch, r), (k as u64 + 2) * w));
    }
    s
}

fn win_program(kind: &Kind) -> String {
    let sv = |s: &mut String, saved: &[(String, u64)]| {
        for (r, off) in saved {
            s.push_str(&format!(" ${r} $T0 {off} - ^ ="));
        }
    };
    match kind {
        Kind::WinStd { saved, msvc } => {
            let mut s = "$T0 $ebp = $eip $T0 4 + ^ = $ebp $T0 ^ = $esp $T0 8 + =".to_string();
            if *msvc {
                s.push_str(" $L $T0 .cbSavedRegs - = $P $T0 8 + .cbParams + =");
            }
            sv(&mut s, saved);
            s
        }
        Kind::WinRaAt { saved } => {
            let mut s = "$T0 .raSearch = $eip $T0 ^ = $esp $T0 4 + = $ebp $T0 4 - ^ =".to_string();
            sv(&mut s, saved);
            s.push_str(" $T1 $esp 16 @ =");
            s
        }
        Kind::WinRa { ebp_off, saved } => {
            let mut s = "$T0 .raSearch = $eip $T0 ^ = $esp $T0 4 + =".to_string();
            match ebp_off {
                Some(off) => s.push_str(&format!(" $ebp $T0 {off} - ^ =")),
                None => s.push_str(" $ebp $ebp ="),
            }
            sv(&mut s, saved);
            s
        }
        _ => String::new(),
    }
}

struct MWorld {
    mods: Vec<(u64, u32, String)>,
    syms: Vec<(String, Vec<Rec>)>,
    wins: Vec<(String, Vec<WinRec>)>,
    funcs: Vec<MFunc>,
}

fn pick_saved(rng: &mut Rng, n: u64, first_off: u64) -> Vec<(String, u64)> {
    let mut names = vec!["ebx", "esi", "edi"];
    let mut out = vec![];
    let mut off = first_off;
    for _ in 0..n.min(3) {
        let i = rng.below(names.len() as u64) as usize;
        out.push((names.remove(i).to_string(), off));
        off += 4 * (1 + rng.below(2));
    }
    out
}

fn build_mworld(rng: &mut Rng, arch: &str, winny: bool) -> MWorld {
    let wide = ptr_of(arch) == 8;
    let x86 = arch == "x86";
    let mut w = MWorld { mods: vec![], syms: vec![], wins: vec![], funcs: vec![] };
    let nmods = 2 + rng.below(3) as usize;
    let mut kinds: Vec<&str> = (0..nmods)
        .map(|_| if x86 { *rng.pick(&["win", "win", "nosym", "plain", "cfi"]) } else { *rng.pick(&["cfi", "cfi", "plain", "nosym"]) })
        .collect();
    if !kinds.iter().any(|k| *k == "plain" || *k == "nosym") {
        let i = rng.below(nmods as u64) as usize;
        kinds[i] = if rng.chance(1, 2) { "plain" } else { "nosym" };
    }
    if winny && !kinds.iter().any(|k| *k == "win") {
        let i = kinds.iter().position(|k| *k != "plain" && *k != "nosym").unwrap_or(0);
        if kinds.iter().filter(|k| **k == "plain" || **k == "nosym").count() > 1 || !(kinds[i] == "plain" || kinds[i] == "nosym") {
            kinds[i] = "win";
        } else {
            kinds.push("win");
        }
    }
    let mut base: u64 = match rng.below(if wide { 5 } else { 4 }) {
        0 => 0x1_0000 + rng.below(16) * 0x1000,
        1 => 0x40_0000 + rng.below(64) * 0x1_0000,
        2 => 0x7000_0000 + rng.below(0x100) * 0x1_0000,
        3 => 0xffc0_0000 + rng.below(0x10) * 0x1_0000, // modules just below 2^32
        _ => 0x7400_c000_0000u64 + rng.below(64) * 0x10_0000,
    };
    let fpn = fp_name(arch).to_string();
    for (i, mk) in kinds.iter().enumerate() {
        let name = format!("m{i}");
        if *mk == "nosym" {
            let msize = 0x800 + rng.below(0x4000);
            w.funcs.push(MFunc { module: i, start: base, size: msize, name: None, kind: Kind::Plain, psize: None, sav: 0, loc: 0 });
            w.mods.push((base, msize as u32, name));
            base += msize + if rng.chance(1, 3) { 0 } else { rng.below(0x10_0000) };
            continue;
        }
        let mut recs = vec![];
        let mut wins = vec![];
        let nf = 1 + rng.below(5);
        let mut at = if rng.chance(1, 4) { 0 } else { rng.below(0x100) };
        let mut leaf_done = false;
        for k in 0..nf {
            let size = 16 + rng.below(0x300);
            let fname = format!("f{i}x{k}");
            let fpsize = 4 * rng.below(4) as u32;
            let mut f = MFunc { module: i, start: base + at, size, name: Some(fname.clone()), kind: Kind::Plain, psize: Some(fpsize), sav: 0, loc: 0 };
            match *mk {
                "cfi" if !rng.chance(1, 6) => {
                    if !matches!(arch, "x86" | "amd64") && !leaf_done && rng.chance(1, 3) {
                        leaf_done = true;
                        f.kind = Kind::CfiLeaf;
                        let lr = if arch.starts_with("mips") { "$ra" } else { "lr" };
                        recs.push(Rec::C { addr: at, size: size as u32, rules: format!(".cfa: {} 0 + .ra: {}", reg_tok(arch, sp_name(arch)), lr) });
                    } else {
                        let mut pool: Vec<String> = other_callee_saved(arch).iter().map(|s| s.to_string()).collect();
                        pool.push(fpn.clone());
                        pool.push(fpn.clone()); // the frame pointer is saved more often than the others
                        let mut saved: Vec<String> = vec![];
                        for _ in 0..rng.below(5) {
                            let r = rng.pick(&pool).clone();
                            if !saved.contains(&r) {
                                saved.push(r);
                            }
                        }
                        let words = saved.len() as u64 + 1 + if rng.chance(1, 10) { 200 + rng.below(2000) } else { rng.below(10) };
                        recs.push(Rec::C { addr: at, size: size as u32, rules: canonical_cfi_regs(arch, words, &saved) });
                        f.kind = Kind::Cfi { words, saved };
                    }
                }
                "win" if !rng.chance(1, 8) => {
                    let par = 4 * rng.below(5) as u32;
                    f.loc = 4 * rng.below(12) as u32;
                    f.sav = 4 * rng.below(5) as u32;
                    f.kind = match rng.below(6) {
                        0 => Kind::WinStd { saved: { let n = rng.below(4); pick_saved(rng, n, 4) }, msvc: rng.chance(1, 2) },
                        1 => Kind::WinRaAt { saved: { let n = rng.below(3); pick_saved(rng, n, 8) } },
                        2 | 3 => {
                            let slots = ((f.loc + f.sav) / 4) as u64;
                            let mut offs: Vec<u64> = (1..=slots).map(|x| x * 4).collect();
                            let mut take = |rng: &mut Rng| -> Option<u64> {
                                if offs.is_empty() {
                                    None
                                } else {
                                    Some(offs.remove(rng.below(offs.len() as u64) as usize))
                                }
                            };
                            let ebp_off = if rng.chance(2, 3) { take(rng) } else { None };
                            let mut saved = vec![];
                            let mut names = vec!["ebx", "esi", "edi"];
                            for _ in 0..rng.below(3) {
                                if let Some(o) = take(rng) {
                                    saved.push((names.remove(rng.below(names.len() as u64) as usize).to_string(), o));
                                }
                            }
                            Kind::WinRa { ebp_off, saved }
                        }
                        4 => Kind::Fpo { abp: false },
                        _ => {
                            f.sav = 8 + 4 * rng.below(3) as u32;
                            Kind::Fpo { abp: true }
                        }
                    };
                    f.psize = Some(par);
                    match &f.kind {
                        Kind::Fpo { abp } => wins.push(WinRec { ty: '0', addr: at, size, par, sav: f.sav, loc: f.loc, rest: if *abp { "1".into() } else { "0".into() } }),
                        k => {
                            wins.push(WinRec { ty: '4', addr: at, size, par, sav: f.sav, loc: f.loc, rest: win_program(k) });
                            if rng.chance(1, 6) {
                                // an FPO record for the same function: frame data is preferred
                                wins.push(WinRec { ty: '0', addr: at, size, par: par + 4, sav: f.sav + 8, loc: f.loc + 4, rest: "0".into() });
                            }
                        }
                    }
                }
                _ => {}
            }
            recs.push(Rec::F { addr: at, size: size as u32, psize: fpsize, name: fname });
            w.funcs.push(f);
            at += size + if rng.chance(1, 2) { 0 } else { rng.below(0x40) };
        }
        let msize = at + if rng.chance(1, 4) { 0 } else { rng.below(0x1000) + 1 };
        w.syms.push((name.clone(), recs));
        w.wins.push((name.clone(), wins));
        w.mods.push((base, msize as u32, name));
        base += msize + if rng.chance(1, 3) { 0 } else { rng.below(0x10_0000) };
    }
    w
}

/// a chain whose technique changes from frame to frame (`win`: x86 with STACK WIN records)
fn gen_mixed(rng: &mut Rng, tech: &str, arch: &str, os: &str) -> Option<String> {
    let p = ptr_of(arch);
    let adj = adj_of(arch);
    let x86 = arch == "x86";
    let fp_cap = fp_capable(arch, os);
    let ios_arm = arch == "arm" && os == "ios";
    let world = build_mworld(rng, arch, tech == "win");
    let funcs = &world.funcs;
    let vmask: u64 = if p == 4 { u32::MAX as u64 } else { u64::MAX };
    let enders: Vec<usize> = funcs.iter().enumerate().filter(|(_, f)| f.kind == Kind::Plain).map(|x| x.0).collect();
    let callable: Vec<usize> = funcs.iter().enumerate().filter(|(_, f)| f.kind != Kind::CfiLeaf).map(|x| x.0).collect();
    if enders.is_empty() || callable.is_empty() {
        return None;
    }
    let maxd = *rng.pick(&[2u64, 6, 16, 64]);
    let depth = 1 + rng.below(maxd);

    let mut words: Vec<Word> = vec![];
    fn put(words: &mut Vec<Word>, i: u64, v: Word) {
        if words.len() <= i as usize {
            words.resize(i as usize + 1, Word::Val(0));
        }
        words[i as usize] = v;
    }
    let garbage = |rng: &mut Rng, at: u64| -> Word {
        match rng.below(8) {
            0 => Word::Val(rng.below(4096)),
            1 => Word::Val(rng.next() & vmask & 0x7fff_ffff_ffff),
            2 | 3 => {
                let f = &funcs[rng.below(funcs.len() as u64) as usize];
                Word::Val(f.start + rng.below(f.size))
            }
            4 => Word::Addr(at + rng.below(24)),
            _ => Word::Val(0),
        }
    };
    let maxoff = |saved: &[(String, u64)]| saved.iter().map(|x| x.1).max().unwrap_or(0) / 4;
    // words of its own frame a function needs below a live frame pointer handed to it
    let need_words = |t: &MFunc, g: u32| -> u64 {
        match &t.kind {
            Kind::Cfi { words, .. } => *words,
            Kind::WinRa { .. } | Kind::Fpo { .. } => ((t.loc + t.sav + g) / 4) as u64 + 2,
            Kind::WinStd { saved, .. } => maxoff(saved),
            Kind::WinRaAt { saved } => maxoff(saved),
            _ => 0,
        }
    };
    // a frame-pointer value for a frame of function `t` whose stack pointer index is `s_new`,
    // where the unwinding technique is free to produce any
    let choose_fp = |rng: &mut Rng, t: &MFunc, last: bool, s_new: u64, g: u32, live_only: bool| -> Fp {
        let near = Fp::Live(s_new + need_words(t, g) + rng.below(6));
        let any = |rng: &mut Rng| match rng.below(3) {
            0 if !live_only => Fp::Zero,
            1 if !live_only => Fp::Stale(Word::Val((0x100 + rng.next()) & 0x7fff_fff0)),
            _ => Fp::Live(s_new + need_words(t, g) + rng.below(8)),
        };
        match &t.kind {
            Kind::WinStd { .. } | Kind::WinRaAt { .. } => near,
            Kind::Plain if fp_cap => {
                if live_only || (ios_arm && !last) {
                    near
                } else if last {
                    if rng.chance(1, 2) {
                        Fp::Zero
                    } else {
                        near
                    }
                } else if rng.chance(2, 3) {
                    near
                } else {
                    Fp::Zero
                }
            }
            _ => any(rng),
        }
    };
    // can a frame of `t` be unwound (or the walk end there) with this frame pointer?
    let acceptable = |fp: &Fp, t: &MFunc, last: bool, s_new: u64| -> bool {
        match &t.kind {
            Kind::WinStd { saved, .. } | Kind::WinRaAt { saved } => matches!(fp, Fp::Live(x) if *x >= s_new + maxoff(saved)),
            Kind::WinRa { .. } | Kind::Fpo { .. } => *fp != Fp::Invalid,
            Kind::Plain if fp_cap => match fp {
                Fp::Live(x) => *x >= s_new,
                Fp::Zero => !(ios_arm && !last),
                Fp::Invalid => true,
                Fp::Stale(_) => false,
            },
            _ => true,
        }
    };

    // ---- the context frame
    let mut cur = if !matches!(arch, "x86" | "amd64") && rng.chance(1, 4) {
        match funcs.iter().position(|f| f.kind == Kind::CfiLeaf) {
            Some(i) => i,
            None => *rng.pick(&callable),
        }
    } else {
        *rng.pick(&callable)
    };
    let mut ip = funcs[cur].start + rng.below(funcs[cur].size);
    let ip0 = ip;
    let mut s: u64 = rng.below(4);
    let s0 = s;
    let mut fp = {
        let live0 = arch == "amd64" && funcs[cur].kind == Kind::Plain && rng.chance(1, 2);
        let f0 = choose_fp(rng, &funcs[cur], false, s, 0, live0);
        // a context whose frame pointer is not valid: scanning starts right away
        if funcs[cur].kind == Kind::Plain && fp_cap && f0 == Fp::Zero && rng.chance(1, 2) {
            Fp::Invalid
        } else if funcs[cur].kind == Kind::Plain && fp_cap && ios_arm && rng.chance(1, 3) {
            Fp::Invalid
        } else {
            f0
        }
    };
    if arch == "amd64" && matches!(fp, Fp::Stale(_)) && funcs[cur].kind == Kind::Plain {
        fp = Fp::Zero;
    }
    let fp0 = fp;
    let partial = fp == Fp::Invalid || rng.chance(1, 8);
    let mut known: BTreeMap<String, u64> = BTreeMap::new();
    let mut ctx_regs: Vec<(String, u64)> = vec![];
    let mut valid: Vec<String> = vec![ip_name(arch).into(), sp_name(arch).into()];
    if fp != Fp::Invalid {
        valid.push(fp_name(arch).into());
    }
    for r in other_callee_saved(arch) {
        let v = if rng.chance(1, 2) { rng.next() & vmask & 0x7fff_ffff_ffff } else { 0 };
        if v != 0 {
            ctx_regs.push((r.to_string(), v));
        }
        if !partial || rng.chance(1, 2) {
            valid.push(r.to_string());
            known.insert(r.to_string(), v);
        }
    }
    let mut lr_reg: Option<(String, u64)> = None;
    let mut first = true;
    let mut g: u32 = 0;
    let mut exp: Vec<Exp> = vec![];
    let mut leftover_used = false;
    // (ARM/ARM64: the frame-pointer unwinder marks `r11`/`x29` valid; since the F28 fix
    // `callee_forwarded_regs` resolves the alias, so a CFI frame above a frame-pointer frame
    // forwards the frame pointer like everywhere else)
    let arm_like = matches!(arch, "arm" | "arm64" | "arm64old");

    for i in 0..depth {
        let last = i + 1 == depth;
        let f = funcs[cur].clone();
        // the function the return address points into
        let recursion = !first && !last && f.kind != Kind::CfiLeaf && rng.chance(1, 5);
        let t_idx = if recursion {
            cur
        } else if last {
            *rng.pick(&enders)
        } else {
            *rng.pick(&callable)
        };
        let t = funcs[t_idx].clone();
        let ret = if recursion {
            ip
        } else {
            match rng.below(6) {
                0 => t.start + adj,
                1 => t.start + t.size,
                _ => t.start + adj + rng.below(t.size - adj + 1),
            }
        };
        if ret == ip && !recursion && first {
            return None;
        }
        let g_next = f.psize.unwrap_or(0);
        let mut regs_out: BTreeMap<String, u64> = BTreeMap::new();
        let step_tech: &str;
        let s_new: u64;
        let fp_new: Fp;
        match &f.kind {
            Kind::CfiLeaf => {
                if !first {
                    return None;
                }
                step_tech = "cfi";
                lr_reg = Some((if arch.starts_with("mips") { "ra" } else { "lr" }.to_string(), ret));
                valid.push(lr_reg.clone().unwrap().0);
                s_new = s;
                fp_new = fp;
                if !acceptable(&fp_new, &t, last, s_new) {
                    return None;
                }
                regs_out = known.clone();
            }
            Kind::Cfi { words: n, saved } => {
                step_tech = "cfi";
                s_new = s + n;
                for j in s..s_new {
                    let gw = garbage(rng, j);
                    put(&mut words, j, gw);
                }
                // ARM64: pointer-authentication bits above bit 46 of the saved return address are stripped
                let pac = if arm_like && arch != "arm" && rng.chance(1, 3) { (1 + rng.below(0x1ffff)) << 47 } else { 0 };
                put(&mut words, s_new - 1, Word::Val(ret | pac));
                regs_out = known.clone();
                let mut fpn = match fp {
                    Fp::Live(x) if x < s_new => Fp::Stale(Word::Addr(x)),
                    o => o,
                };
                for (k, r) in saved.iter().enumerate() {
                    let slot = s_new - 2 - k as u64;
                    if r == fp_name(arch) {
                        fpn = choose_fp(rng, &t, last, s_new, g_next, false);
                        put(&mut words, slot, fpn.word().unwrap());
                    } else {
                        let v = rng.next() & vmask & 0x7fff_ffff_ffff;
                        put(&mut words, slot, Word::Val(v));
                        regs_out.insert(r.clone(), v);
                    }
                }
                fp_new = fpn;
                if !acceptable(&fp_new, &t, last, s_new) {
                    return None;
                }
            }
            Kind::Plain => {
                let use_fp = fp_cap && matches!(fp, Fp::Live(_));
                if fp_cap && matches!(fp, Fp::Stale(_)) {
                    return None;
                }
                if fp_cap && ios_arm && fp == Fp::Zero {
                    return None;
                }
                if use_fp {
                    step_tech = "fp";
                    let Fp::Live(x) = fp else { unreachable!() };
                    if x < s {
                        return None;
                    }
                    for j in s..x {
                        let gw = garbage(rng, j);
                        put(&mut words, j, gw);
                    }
                    s_new = x + 2;
                    fp_new = choose_fp(rng, &t, last, s_new, g_next, arch == "amd64");
                    put(&mut words, x, fp_new.word().unwrap());
                    put(&mut words, x + 1, Word::Val(ret));
                } else {
                    step_tech = "scan";
                    let start = if arch == "mips32" && !first { s + 4 } else { s };
                    for j in s..start {
                        let gw = garbage(rng, j);
                        put(&mut words, j, gw);
                    }
                    let window = match (arch, first) {
                        ("mips32", true) => 256,
                        ("mips32", false) => 252,
                        ("mips64", _) => 128,
                        (_, true) => 160,
                        _ => 40,
                    };
                    let k = match rng.below(8) {
                        0 => 0,
                        1 => window - 1,
                        _ => rng.below(window.min(24)),
                    };
                    for j in 0..k {
                        put(&mut words, start + j, if rng.chance(1, 4) { Word::Val(1 + rng.below(4000)) } else { Word::Val(0) });
                    }
                    put(&mut words, start + k, Word::Val(ret));
                    s_new = start + k + 1;
                    // x86-64: a word below the return address that points up the stack is taken for the
                    // saved %rbp ONLY when the callee's %rbp points at that very word; with %rbp = 0 it
                    // is junk like any other (it is no valid instruction: the stack is clear of modules)
                    if arch == "amd64" && fp == Fp::Zero && k >= 1 && rng.chance(1, 2) {
                        put(&mut words, start + k - 1, Word::Addr(s_new + 1 + rng.below(6)));
                    }
                    // x86: the word below the return address is taken for the saved %ebp when it
                    // points further up the stack
                    let wants_live = matches!(t.kind, Kind::WinStd { .. } | Kind::WinRaAt { .. } | Kind::WinRa { .. } | Kind::Fpo { .. });
                    if x86 && k >= 1 && (wants_live || rng.chance(1, 3)) {
                        let fl = choose_fp(rng, &t, last, s_new, g_next, true);
                        put(&mut words, start + k - 1, fl.word().unwrap());
                        fp_new = fl;
                    } else {
                        fp_new = Fp::Invalid;
                    }
                }
                if !acceptable(&fp_new, &t, last, s_new) {
                    return None;
                }
            }
            Kind::WinStd { saved, .. } | Kind::WinRaAt { saved } => {
                step_tech = "win";
                let Fp::Live(x) = fp else { return None };
                let t0 = if matches!(f.kind, Kind::WinStd { .. }) { x } else { x + 1 };
                if x < s || t0 < s + maxoff(saved) {
                    return None;
                }
                for j in s..x {
                    let gw = garbage(rng, j);
                    put(&mut words, j, gw);
                }
                s_new = x + 2;
                fp_new = choose_fp(rng, &t, last, s_new, g_next, false);
                put(&mut words, x, fp_new.word().unwrap());
                put(&mut words, x + 1, Word::Val(ret));
                for (r, off) in saved {
                    let v = rng.next() & 0x7fff_ffff;
                    put(&mut words, t0 - off / 4, Word::Val(v));
                    regs_out.insert(r.clone(), v);
                }
                if !acceptable(&fp_new, &t, last, s_new) {
                    return None;
                }
            }
            Kind::WinRa { ebp_off, saved } => {
                step_tech = "win";
                if fp == Fp::Invalid {
                    return None;
                }
                let t0 = s + ((f.loc + f.sav + g) / 4) as u64;
                for j in s..t0 {
                    let gw = garbage(rng, j);
                    put(&mut words, j, gw);
                }
                put(&mut words, t0, Word::Val(ret));
                s_new = t0 + 1;
                fp_new = match ebp_off {
                    Some(off) => {
                        let c = choose_fp(rng, &t, last, s_new, g_next, false);
                        put(&mut words, t0 - off / 4, c.word().unwrap());
                        c
                    }
                    None => match fp {
                        Fp::Live(x) if x < s_new => Fp::Stale(Word::Addr(x)),
                        o => o,
                    },
                };
                for (r, off) in saved {
                    let v = rng.next() & 0x7fff_ffff;
                    put(&mut words, t0 - off / 4, Word::Val(v));
                    regs_out.insert(r.clone(), v);
                }
                if !acceptable(&fp_new, &t, last, s_new) {
                    return None;
                }
            }
            Kind::Fpo { abp } => {
                step_tech = "win";
                if fp == Fp::Invalid {
                    return None;
                }
                let mut a = s + ((f.loc + f.sav + g) / 4) as u64;
                for j in s..a {
                    let gw = garbage(rng, j);
                    put(&mut words, j, gw);
                }
                // a "leftover return address": the context frame's own eip sits where the return
                // address is expected; the walker skips it
                if first && ip >= 4096 && rng.chance(1, 3) {
                    put(&mut words, a, Word::Val(ip));
                    a += 1;
                    leftover_used = true;
                }
                put(&mut words, a, Word::Val(ret));
                s_new = a + 1;
                if *abp {
                    let slot = (s + ((g + f.sav) / 4) as u64).checked_sub(2)?;
                    let c = choose_fp(rng, &t, last, s_new, g_next, false);
                    put(&mut words, slot, c.word().unwrap());
                    fp_new = c;
                } else {
                    fp_new = match fp {
                        Fp::Live(x) if x < s_new => Fp::Stale(Word::Addr(x)),
                        o => o,
                    };
                    if let Some(v) = known.get("ebx") {
                        regs_out.insert("ebx".into(), *v);
                    }
                }
                if !acceptable(&fp_new, &t, last, s_new) {
                    return None;
                }
            }
        }
        exp.push(Exp {
            ret,
            sp: s_new, // index for now, resolved below
            fp: fp_new.word().map(|w| match w {
                Word::Val(v) => v,
                Word::Addr(x) => u64::MAX - x, // marker, resolved below
            }),
            module: t.module,
            func: t.name.clone(),
            tech: Some(step_tech.to_string()),
            regs: regs_out.iter().map(|(k, v)| (k.clone(), *v)).collect(),
        });
        // remember which expected frame pointers are stack addresses
        if let Some(Word::Addr(_)) = fp_new.word() {
            exp.last_mut().unwrap().tech = Some(format!("{step_tech}@"));
        }
        known = regs_out;
        cur = t_idx;
        ip = ret;
        s = s_new;
        fp = fp_new;
        g = g_next;
        first = false;
    }
    let _ = leftover_used;
    // ---- the generated end of the stack: zero words from the outermost frame's stack pointer on;
    // a live frame pointer finds the record (0, 0)
    let top = match fp {
        Fp::Live(x) => x.max(s) + 2,
        _ => s,
    };
    // every stack address stored anywhere must be readable
    let hi = words.iter().filter_map(|w| if let Word::Addr(x) = w { Some(*x) } else { None }).max().unwrap_or(0);
    let hi = hi.max(match fp0 { Fp::Live(x) => x, _ => 0 });
    // usually some zero words follow; one stack in five ENDS where the generated frames end (the
    // outermost return-address slot is the last word of the captured stack: the walk must end because
    // the memory ends, and every word-sized read at `end - word` must still succeed)
    let slack = if rng.chance(1, 5) { 0 } else { 2 + rng.below(8) };
    let total = top.max(hi + 2) + slack;
    if slack > 0 {
        put(&mut words, total - 1, Word::Val(0));
    }
    let len = total * p;
    let wide = p == 8;
    let mods_lo = world.mods.iter().map(|m| m.0).min().unwrap_or(0);
    let mods_hi = world.mods.iter().map(|m| m.0 + m.1 as u64).max().unwrap_or(0);
    let base: u64 = {
        let cands: Vec<u64> = if wide {
            vec![
                (0x2000_0000 + rng.below(0x3000_0000)) & !(p - 1),
                (0x7fff_0000_0000 + rng.below(0x1000_0000)) & !(p - 1),
                (1u64 << 32) - (rng.below(total) + 1) * p, // straddles 2^32
                if arch == "amd64" || arch == "mips64" { (u64::MAX - len - 0x100 - rng.below(64) * p) & !(p - 1) } else { 0x10_0000_0000 },
            ]
        } else {
            vec![
                (0x2000_0000 + rng.below(0x3000_0000)) & !(p - 1),
                (0x0800_0000 + rng.below(0x0100_0000)) & !(p - 1),
                (u32::MAX as u64 - len - 0x20 - rng.below(64) * p) & !(p - 1), // ends just below 2^32
            ]
        };
        let b = *rng.pick(&cands);
        // keep clear of the modules
        if b.saturating_add(len + 0x1000) < mods_lo || b > mods_hi + 0x1000 {
            b
        } else {
            return None;
        }
    };
    if !wide && base + len > u32::MAX as u64 - 16 {
        return None;
    }
    let addr = |i: u64| base + i * p;
    let mut bytes = vec![0u8; len as usize];
    for (i, w) in words.iter().enumerate() {
        let v = match w {
            Word::Val(v) => *v,
            Word::Addr(x) => addr(*x),
        };
        put_word(&mut bytes, i as u64, p, v);
    }
    for e in exp.iter_mut() {
        e.sp = addr(e.sp);
        if let Some(t) = e.tech.clone() {
            if let Some(tt) = t.strip_suffix('@') {
                e.fp = e.fp.map(|m| addr(u64::MAX - m));
                e.tech = Some(tt.to_string());
            }
        }
    }
    let mut regs: Vec<(String, u64)> = vec![(ip_name(arch).into(), ip0), (sp_name(arch).into(), addr(s0))];
    if let Some(w) = fp0.word() {
        let v = match w {
            Word::Val(v) => v,
            Word::Addr(x) => addr(x),
        };
        regs.push((fp_name(arch).into(), v));
    }
    regs.extend(ctx_regs);
    if let Some(l) = lr_reg {
        regs.push(l);
    }
    let case = Case {
        engine: "chain".into(),
        extra: vec![tech.to_string(), render_exp(&exp), render_wins(&world.wins)],
        arch: arch.into(),
        os: os.into(),
        regs,
        valid: if partial { Some(valid) } else { None },
        stack: Some((base, bytes)),
        mods: world.mods,
        syms: world.syms,
        symraw: vec![],
        be: false,
    };
    Some(case.render())
}

/// recover the generator's parameters (base, s0, f0, gaps, return addresses, trailing zeros) from a
/// generated x86-64 `fp` case, have the model evaluate its layout function on them and compare the
/// result with the generated stack memory, context and chain
fn layout_fp_mirror(c: &Case, exp: &[Exp]) -> Result<(), String> {
    let (base, bytes) = c.stack.as_ref().ok_or("no stack")?;
    let reg = |n: &str| c.regs.iter().find(|(k, _)| k == n).map(|x| x.1);
    let (rsp, rbp) = (reg("rsp").ok_or("no rsp")?, reg("rbp").ok_or("no rbp")?);
    let idx = |a: u64| -> Result<u64, String> {
        let off = a.checked_sub(*base).ok_or(format!("address {a} below the stack"))?;
        if off % 8 != 0 {
            return Err(format!("address {a} is not word-aligned"));
        }
        Ok(off / 8)
    };
    let (s0, f0) = (idx(rsp)?, idx(rbp)?);
    let mut f = f0;
    let mut calls = vec![];
    for e in exp {
        let sp = idx(e.sp)?;
        let nf = idx(e.fp.ok_or("frame without frame pointer")?)?;
        if sp != f + 2 || nf < sp {
            return Err(format!("frame at word {f}: sp word {sp}, next record word {nf}"));
        }
        calls.push(format!("{}:{}", nf - sp, e.ret));
        f = nf;
    }
    let nwords = bytes.len() as u64 / 8;
    let tail = nwords.checked_sub(f + 3).ok_or("stack ends inside the outermost record")?;
    let req = format!("chain layout fp {base} {s0} {f0} {tail} {}", if calls.is_empty() { "-".to_string() } else { calls.join(",") });
    let want = format!(
        "rsp={rsp} rbp={rbp} stack:{} exp:{}",
        hex(bytes),
        exp.iter().map(|e| format!("{},{},{}", e.ret, e.sp, e.fp.map(|x| x.to_string()).unwrap_or("-".into()))).collect::<Vec<_>>().join("|")
    );
    match ask_model(&req) {
        None => Ok(()), // no model process: `./check` reports the failed build
        Some(got) if got == want => Ok(()),
        Some(got) => Err(format!("layout({req}) = {} expected {}", &got[..got.len().min(300)], &want[..want.len().min(300)])),
    }
}

/// the same tie for every architecture with the frame-pointer technique (not Windows x86-64): the
/// generator's parameters are recovered from the case, the model evaluates `gfpWords` / `gfpChain`
/// (MdModel/Walk/LayoutGen.lean; `preFp` of them is a theorem: `preFp_layout_arch`) and stack bytes,
/// stack pointer, frame pointer and chain are compared
fn layout_fpg_mirror(c: &Case, exp: &[Exp]) -> Result<(), String> {
    let p = ptr_of(&c.arch);
    let (base, bytes) = c.stack.as_ref().ok_or("no stack")?;
    let reg = |n: &str| c.regs.iter().find(|(k, _)| k == n).map(|x| x.1);
    let (sp, fp) = (reg(sp_name(&c.arch)).ok_or("no sp")?, reg(fp_name(&c.arch)).ok_or("no fp")?);
    let idx = |a: u64| -> Result<u64, String> {
        let off = a.checked_sub(*base).ok_or(format!("address {a} below the stack"))?;
        if off % p != 0 {
            return Err(format!("address {a} is not word-aligned"));
        }
        Ok(off / p)
    };
    let (s0, f0) = (idx(sp)?, idx(fp)?);
    let mut f = f0;
    let mut calls = vec![];
    for e in exp {
        let esp = idx(e.sp)?;
        let nf = idx(e.fp.ok_or("frame without frame pointer")?)?;
        if esp != f + 2 || nf < esp {
            return Err(format!("frame at word {f}: sp word {esp}, next record word {nf}"));
        }
        calls.push(format!("{}:{}", nf - esp, e.ret));
        f = nf;
    }
    let nwords = bytes.len() as u64 / p;
    let tail = nwords.checked_sub(f + 3).ok_or("stack ends inside the outermost record")?;
    let req = format!("chain layout fpg {} {base} {s0} {f0} {tail} {}", c.arch, if calls.is_empty() { "-".to_string() } else { calls.join(",") });
    let want = format!(
        "sp={sp} fp={fp} stack:{} exp:{}",
        hex(bytes),
        exp.iter().map(|e| format!("{},{},{}", e.ret, e.sp, e.fp.map(|x| x.to_string()).unwrap_or("-".into()))).collect::<Vec<_>>().join("|")
    );
    match ask_model(&req) {
        None => Ok(()),
        Some(got) if got == want => Ok(()),
        Some(got) => Err(format!("layout({req}) = {} expected {}", &got[..got.len().min(300)], &want[..want.len().min(300)])),
    }
}

/// the walk fields of a case line (`chain <tech> exp:.. [win:..] <walk fields>`; corpus cases of earlier
/// rounds have no `win:` field)
fn walk_fields_of(case: &str) -> Option<&str> {
    let third = case.split(' ').filter(|s| !s.is_empty()).nth(3).unwrap_or("");
    let n = if third.starts_with("win:") { 5 } else { 4 };
    let f: Vec<&str> = case.splitn(n, ' ').collect();
    if f.len() == n { Some(f[n - 1]) } else { None }
}

/// the tie for the canonical STACK CFI generator (`gen_chain`, technique `cfi`): the generator's
/// parameters are recovered from the case — `s0` from the stack pointer, per frame its size in words from
/// the stack-pointer deltas of the chain, `saves` from the STACK CFI record covering the frame's lookup
/// address, the saved frame pointer from the chain, `tail` from the length of the stack — and the model
/// evaluates `gcfiWords` / `gcfiChain` on them (MdModel/Walk/LayoutGen.lean) together with EVERY
/// hypothesis of `walk_layout_cfi_generated` (`hyp=1`) and, for worlds of one module, the record-level
/// side condition of `walk_layout_cfi_generated_one_module` (`one=1`: records inside the module and pairwise
/// disjoint, linear search instead of range tables) resp. of `walk_layout_cfi_generated_world` for any number
/// of modules (`rec=1`): stack pointer, stack bytes and chain must be the generated ones
fn layout_cfi_mirror(case: &str, c: &Case, exp: &[Exp]) -> Result<(), String> {
    let p = ptr_of(&c.arch);
    let (base, bytes) = c.stack.as_ref().ok_or("no stack")?;
    let reg = |n: &str| c.regs.iter().find(|(k, _)| k == n).map(|x| x.1);
    let (sp, ip) = (reg(sp_name(&c.arch)).ok_or("no sp")?, reg(ip_name(&c.arch)).ok_or("no ip")?);
    let idx = |a: u64| -> Result<u64, String> {
        let off = a.checked_sub(*base).ok_or(format!("address {a} below the stack"))?;
        if off % p != 0 {
            return Err(format!("address {a} is not word-aligned"));
        }
        Ok(off / p)
    };
    // does the STACK CFI record covering `la` save the frame pointer (a second `^` rule)
    let saves_at = |la: u64| -> Result<bool, String> {
        for (mi, (mb, msz, name)) in c.mods.iter().enumerate() {
            if la < *mb || la - *mb >= *msz as u64 {
                continue;
            }
            let recs = c.syms.iter().find(|(n, _)| n == name).map(|x| &x.1).ok_or(format!("module {mi} without symbols"))?;
            for r in recs {
                if let Rec::C { addr, size, rules } = r {
                    if mb + addr <= la && la < mb + addr + *size as u64 {
                        return Ok(rules.matches('^').count() == 2);
                    }
                }
            }
        }
        Err(format!("no STACK CFI record covers {la}"))
    };
    let s0 = idx(sp)?;
    let mut s = s0;
    let mut la = ip;
    let mut frames = vec![];
    for e in exp {
        let esp = idx(e.sp)?;
        let n = esp.checked_sub(s).ok_or(format!("stack pointer word {esp} below the callee's {s}"))?;
        let saves = saves_at(la)?;
        let fpv = if saves && n > 0 { e.fp.ok_or("frame without frame pointer")? } else { 0 };
        frames.push(format!("{n}:{}:{}:{fpv}", saves as u8, e.ret));
        s = esp;
        la = e.ret.wrapping_sub(adj_of(&c.arch));
    }
    let nwords = bytes.len() as u64 / p;
    let tail = nwords.checked_sub(s).ok_or("stack ends inside the outermost frame")?;
    let walk_fields = walk_fields_of(case).ok_or("case line too short")?;
    let req = format!("chain layout cfi {base} {s0} {tail} {} {}", if frames.is_empty() { "-".to_string() } else { frames.join(",") }, walk_fields);
    let want = format!(
        "hyp=1 one={} rec=1 sp={sp} stack:{} exp:{}",
        if c.mods.len() == 1 { "1" } else { "-" },
        hex(bytes),
        exp.iter().map(|e| format!("{},{},{}", e.ret, e.sp, e.fp.map(|x| x.to_string()).unwrap_or("-".into()))).collect::<Vec<_>>().join("|")
    );
    match ask_model(&req) {
        None => Ok(()),
        Some(got) if got == want => Ok(()),
        Some(got) => Err(format!("layout({}) = {} expected {}", &req[..req.len().min(200)], &got[..got.len().min(300)], &want[..want.len().min(300)])),
    }
}

/// the tie for the scan-only generator (`gen_chain`, technique `scan`): the generator's parameters are
/// recovered from the case — `s0` from the stack pointer, per frame its junk words (the stack words between
/// the callee's stack pointer and the return-address slot) and return address, `tail` from the length of the
/// stack — and the model evaluates `gscanWords` / `gscanChain` on them (MdModel/Walk/LayoutGenScan.lean)
/// together with EVERY hypothesis of `walk_layout_scan_generated` / `walk_layout_scan_generated32` (`hyp=1`):
/// stack pointer, stack bytes and chain must be the generated ones
fn layout_scan_mirror(case: &str, c: &Case, exp: &[Exp]) -> Result<(), String> {
    let p = ptr_of(&c.arch);
    let (base, bytes) = c.stack.as_ref().ok_or("no stack")?;
    let reg = |n: &str| c.regs.iter().find(|(k, _)| k == n).map(|x| x.1);
    let sp = reg(sp_name(&c.arch)).ok_or("no sp")?;
    let idx = |a: u64| -> Result<u64, String> {
        let off = a.checked_sub(*base).ok_or(format!("address {a} below the stack"))?;
        if off % p != 0 {
            return Err(format!("address {a} is not word-aligned"));
        }
        Ok(off / p)
    };
    let nwords = bytes.len() as u64 / p;
    let word = |i: u64| -> u64 { (0..p).fold(0u64, |v, k| v | (bytes[(i * p + k) as usize] as u64) << (8 * k)) };
    let s0 = idx(sp)?;
    let mut s = s0;
    let mut frames = vec![];
    for e in exp {
        let esp = idx(e.sp)?;
        if esp <= s || esp > nwords {
            return Err(format!("stack pointer word {esp} after the callee's {s} in a stack of {nwords} words"));
        }
        let junk: Vec<String> = (s..esp - 1).map(|i| word(i).to_string()).collect();
        frames.push(format!("{}:{}", if junk.is_empty() { "-".to_string() } else { junk.join(".") }, e.ret));
        s = esp;
    }
    let tail = nwords.checked_sub(s).ok_or("stack ends inside the outermost frame")?;
    let walk_fields = walk_fields_of(case).ok_or("case line too short")?;
    let req = format!("chain layout scan {base} {s0} {tail} {} {}", if frames.is_empty() { "-".to_string() } else { frames.join(",") }, walk_fields);
    let want = format!(
        "hyp=1 junk=1 sp={sp} stack:{} exp:{}",
        hex(bytes),
        exp.iter().map(|e| format!("{},{},{}", e.ret, e.sp, e.fp.map(|x| x.to_string()).unwrap_or("-".into()))).collect::<Vec<_>>().join("|")
    );
    match ask_model(&req) {
        None => Ok(()),
        Some(got) if got == want => Ok(()),
        Some(got) => Err(format!("layout({}) = {} expected {}", &req[..req.len().min(200)], &got[..got.len().min(300)], &want[..want.len().min(300)])),
    }
}

fn want_trust(tech: &str) -> FrameTrust {
    match tech {
        "fp" => FrameTrust::FramePointer,
        "cfi" | "win" => FrameTrust::CallFrameInfo,
        _ => FrameTrust::Scan,
    }
}

/// the case as the real code gets it: modules with STACK WIN records carry their symbols as text
fn with_win_text(c: &Case, wins: &[(String, Vec<WinRec>)]) -> Case {
    let mut r = c.clone();
    for (m, recs) in wins {
        if recs.is_empty() {
            continue;
        }
        let base = match r.syms.iter().position(|(n, _)| n == m) {
            Some(i) => {
                let (n, rs) = r.syms.remove(i);
                sym_text(&n, &rs)
            }
            None => sym_text(m, &[]),
        };
        let mut text = base;
        for w in recs {
            text.push_str(&w.line());
        }
        r.symraw.push((m.clone(), text.into_bytes()));
    }
    r
}

impl Engine for Chain {
    fn name(&self) -> &'static str {
        "chain"
    }
    fn rule(&self) -> String {
        "case = a generated call chain (depth 1..64) laid out on a stack. One technique per walk: frame-pointer chains (x86, amd64 incl. the Windows 16-byte-step slack of up to 240 bytes, arm64 both layouts, arm on iOS), canonical STACK CFI (`.cfa: $sp N + .ra: .cfa -W + ^ [fp: .cfa -2W + ^]`, optional leaf first frame `.ra: lr` on ARM/ARM64/MIPS) on all seven context kinds/modes, or return addresses findable only by scanning (junk words within the 40/160-word windows, MIPS 4-word skip). `win`: x86 stacks through functions with STACK WIN records (frame data with the standard prologue program and saved registers, `.raSearch` programs with and without `@`, FPO records with and without allocates_base_pointer, non-zero parameter sizes of callee and grand-callee, the leftover-return-address skip on the context frame, direct recursion with equal return addresses) with frames in modules without symbols or with STACK CFI below/between them. `mixed`: the technique (cfi with several saved callee-saved registers / frame pointer / scan / win) changes from frame to frame on every architecture, contexts with partial validity, stacks ending below 2^32 / straddling 2^32 / at the top of the address space, return addresses at the first byte and one past the last byte of a FUNC, adjacent FUNCs and modules, frames of thousands of words. Oracle: walk_stack's frames = the generated chain (count, return address, sp, technique label, recovered frame pointer and the other recovered callee-saved registers, module, function) when the Lean precondition `Pre` accepts the case; model compared frame by frame. non-trivial = chain depth >= 2; distinct = distinct case line".into()
    }

    fn generate(&self, tier: Tier, rng: &mut Rng, emit: &mut dyn FnMut(String)) {
        let n = if tier == Tier::Quick { 500 } else { 12000 };
        // CHAIN_DUMP=<file>: also write every 97th generated case there (debugging, corpus building)
        let dump = std::env::var("CHAIN_DUMP").ok();
        let mut dumped: Vec<String> = vec![];
        let mut count = 0u64;
        let mut emit = |c: String| {
            count += 1;
            if dump.is_some() && count % 97 == 0 {
                dumped.push(c.clone());
            }
            emit(c)
        };
        for tech in TECHS {
            for arch in ARCHS {
                if *tech == "win" && *arch != "x86" {
                    continue;
                }
                let n = if *tech == "win" { 3 * n } else { n };
                for i in 0..n {
                    let os = match (*tech, *arch) {
                        ("fp", "arm") => "ios",
                        ("win", _) if i % 4 != 3 => "windows",
                        ("mixed", "arm") if i % 2 == 0 => "ios",
                        _ => OSES[(i % OSES.len() as u64) as usize],
                    };
                    for _ in 0..24 {
                        let c = match catch(|| if matches!(*tech, "win" | "mixed") { gen_mixed(rng, tech, arch, os) } else { gen_chain(rng, tech, arch, os) }) {
                            Ok(c) => c,
                            Err(msg) => {
                                eprintln!("chain generator panicked ({tech} {arch} {os}): {msg}");
                                None
                            }
                        };
                        if let Some(c) = c {
                            emit(c);
                            break;
                        }
                        if *tech == "fp" && !fp_capable(arch, os) {
                            break;
                        }
                    }
                }
            }
        }
        if let Some(path) = dump {
            let _ = std::fs::write(path, dumped.join("\n"));
        }
    }

    fn exec(&self, case: &str) -> ImplResult {
        let mut res = ImplResult::default();
        let Some((tech, exp, wins, c)) = parse_case(case) else {
            res.out = "bad-op".into();
            return res;
        };
        res.tags.push(format!("tech:{tech}"));
        res.tags.push(format!("arch:{}", c.arch));
        res.tags.push(format!("depth:{}", match exp.len() { 0..=1 => "1", 2..=4 => "2-4", 5..=16 => "5-16", _ => "17-64" }));
        for e in &exp {
            if let Some(t) = &e.tech {
                res.tags.push(format!("frame-via:{t}"));
            }
        }
        for (_, recs) in &wins {
            for r in recs {
                res.tags.push(format!("win-record:{}", if r.ty == '4' { "framedata" } else if r.rest == "1" { "fpo-abp" } else { "fpo" }));
            }
        }
        if exp.windows(2).any(|w| w[0].ret == w[1].ret) {
            res.tags.push("direct-recursion".into());
        }
        if exp.iter().any(|e| e.func.is_none()) {
            res.tags.push("frame-without-symbols".into());
        }
        res.nontrivial = exp.len() >= 2;
        let run_case = with_win_text(&c, &wins);
        let stack = match run_walk(&run_case) {
            Err(msg) => {
                res.out = "PANIC".into();
                res.oracle.push(("walk-panics".into(), msg));
                return res;
            }
            Ok(s) => s,
        };
        res.out = show_stack(&c, &stack);
        // C05's invariant holds of every walk
        res.oracle = wf_oracle(&c, &stack);
        // the generated chain is an oracle only inside the theorems' precondition
        let pre = ask_model(&format!("chain pre {}", case.strip_prefix("chain ").unwrap_or(case)));
        match pre.as_deref() {
            Some("1") => {}
            // no model process (its build failed: `./check` reports that as a broken obligation): the
            // generated chain is an oracle only inside the precondition, which nobody evaluated
            None => {
                res.tags.push("pre-unknown:no-model".into());
                return res;
            }
            Some("0") => {
                res.tags.push("pre-rejected".into());
                res.tags.push(format!("pre-rejected:{tech}"));
                return res;
            }
            Some(other) => {
                res.oracle.push(("pre-query-failed".into(), other.to_string()));
                return res;
            }
        }
        res.tags.push("pre-accepted".into());
        // x86-64 frame-pointer chains: the generated stack and chain are the Lean layout function of
        // their parameters (`fpWords` / `fpChain`, for which `preFp` is a theorem: `preFp_layout`)
        if tech == "fp" && c.arch == "amd64" && c.os != "windows" {
            match layout_fp_mirror(&c, &exp) {
                Ok(()) => res.tags.push("layout-tied:fp-amd64".into()),
                Err(msg) => res.oracle.push(("layout-not-mirrored".into(), msg)),
            }
        }
        // every architecture with the technique (x86, x86-64 not Windows, ARM iOS, ARM64 both layouts):
        // the generic layout function, `preFp_layout_arch` / `walk_layout_fp_generated_arch` (C04Gen.lean)
        if tech == "fp" && !(c.arch == "amd64" && c.os == "windows") {
            match layout_fpg_mirror(&c, &exp) {
                Ok(()) => res.tags.push(format!("layout-tied:fpg-{}", c.arch)),
                Err(msg) => res.oracle.push(("layout-not-mirrored".into(), msg)),
            }
        }
        // canonical STACK CFI chains (all seven context kinds / modes): `gcfiWords` / `gcfiChain`,
        // `preCfi_layout` / `walk_layout_cfi_generated` (C04Gen.lean), all hypotheses evaluated by the model
        if tech == "cfi" {
            match layout_cfi_mirror(case, &c, &exp) {
                Ok(()) => {
                    res.tags.push(format!("layout-tied:cfi-{}", c.arch));
                    res.tags.push(format!("cfi-side-from-records:{}-module", c.mods.len()));
                }
                Err(msg) => res.oracle.push(("layout-not-mirrored".into(), msg)),
            }
        }
        // scan-only chains (every architecture; MIPS32 with its four skipped words): `gscanWords` / `gscanChain`,
        // `preScan_layout` / `walk_layout_scan_generated[32]` (C04Gen.lean), all hypotheses evaluated by the model
        if tech == "scan" {
            match layout_scan_mirror(case, &c, &exp) {
                Ok(()) => res.tags.push(format!("layout-tied:scan-{}", c.arch)),
                Err(msg) => res.oracle.push(("layout-not-mirrored".into(), msg)),
            }
        }
        let fs = &stack.frames;
        let arch = c.arch.clone();
        let mut mismatch = |what: String| res.oracle.push((format!("chain-mismatch-{tech}-{arch}"), what));
        if fs.len() != exp.len() + 1 {
            mismatch(format!("{} frames for a chain of {} calls (expected {})", fs.len(), exp.len(), exp.len() + 1));
        }
        for (i, e) in exp.iter().enumerate() {
            let Some(f) = fs.get(i + 1) else { break };
            let ft = e.tech.clone().unwrap_or_else(|| tech.clone());
            if f.resume_address != e.ret {
                mismatch(format!("frame {}: return address {} expected {}", i + 1, f.resume_address, e.ret));
                break;
            }
            if f.context.get_stack_pointer() != e.sp {
                mismatch(format!("frame {}: sp {} expected {}", i + 1, f.context.get_stack_pointer(), e.sp));
                break;
            }
            if f.trust != want_trust(&ft) {
                mismatch(format!("frame {}: found by {} expected {} ({ft})", i + 1, f.trust.as_str(), want_trust(&ft).as_str()));
                break;
            }
            if let Some(want) = e.fp {
                let got = f.context.get_register(fp_name(&c.arch));
                if got != Some(want) {
                    mismatch(format!("frame {}: recovered {} = {:?} expected {}", i + 1, fp_name(&c.arch), got, want));
                    break;
                }
            } else if ft != "win" {
                // no frame pointer claimed: off STACK WIN frames (C07's F8a) the theorems assert that
                // the register is then NOT valid (FrameIsA.fp / scanFrame: nothing recovered)
                let got = f.context.get_register(fp_name(&c.arch));
                if got.is_some() {
                    mismatch(format!("frame {}: recovered {} = {:?} expected none", i + 1, fp_name(&c.arch), got));
                    break;
                }
            }
            let mut bad_reg = false;
            for (r, want) in &e.regs {
                let got = f.context.get_register(r);
                if got != Some(*want) {
                    mismatch(format!("frame {}: recovered {} = {:?} expected {}", i + 1, r, got, want));
                    bad_reg = true;
                    break;
                }
            }
            if bad_reg {
                break;
            }
            let m = f.module.as_ref().and_then(|m| c.mods.iter().position(|(b, _, n)| *b == m.base_address() && *n == m.name));
            if m != Some(e.module) || f.function_name != e.func {
                mismatch(format!("frame {}: module {:?} function {:?} expected module {} function {:?}", i + 1, m, f.function_name, e.module, e.func));
                break;
            }
        }
        res
    }

    fn model_request(&self, case: &str) -> Option<String> {
        // the model walks the very same inputs: drop the technique and expectation fields
        let third = case.split(' ').filter(|s| !s.is_empty()).nth(3).unwrap_or("");
        if third.starts_with("win:") {
            let f: Vec<&str> = case.splitn(5, ' ').collect();
            if f.len() == 5 {
                // without STACK WIN records the walk is the `walk` engine's (mkEnv) — off x86, where
                // mkEnvW = mkEnv is a theorem (MdProofs/C04Mixed.lean, mkEnvW_eq_mkEnv); x86 cases are
                // always compared with `chain walk` (mkEnvW), the walk the x86 theorems are about
                if f[3] == "win:-" && !f[4].starts_with("x86 ") {
                    Some(format!("walk {}", f[4]))
                } else {
                    Some(format!("chain walk {} {}", f[3], f[4]))
                }
            } else {
                None
            }
        } else {
            let f: Vec<&str> = case.splitn(4, ' ').collect();
            if f.len() == 4 {
                Some(format!("walk {}", f[3]))
            } else {
                None
            }
        }
    }

    fn shrink(&self, case: &str, _still_fails: &dyn Fn(&str) -> bool) -> String {
        case.to_string()
    }
}
