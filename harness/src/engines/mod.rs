pub mod ranges;

use crate::common::Engine;

pub fn by_name(name: &str) -> Option<Box<dyn Engine>> {
    match name {
        "ranges" => Some(Box::new(ranges::Ranges)),
        _ => None,
    }
}
