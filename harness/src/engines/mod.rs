pub mod ranges;
pub mod cfi;
pub mod win;
pub mod sym;
pub mod symb;
pub mod once;
pub mod paths;
pub mod regs;
pub mod bitflip;
pub mod walk;
pub mod chain;
pub mod read;
pub mod roundtrip;
pub mod index;
pub mod json;
pub mod text;
pub mod cache;
pub mod cli;
pub mod det;
pub mod process;

use crate::common::Engine;

pub fn by_name(name: &str) -> Option<Box<dyn Engine>> {
    match name {
        "ranges" => Some(Box::new(ranges::Ranges)),
        "cfi" => Some(Box::new(cfi::Cfi)),
        "win" => Some(Box::new(win::Win)),
        "sym" => Some(Box::new(sym::Sym)),
        "symb" => Some(Box::new(symb::Symb)),
        "once" => Some(Box::new(once::Once)),
        "paths" => Some(Box::new(paths::Paths)),
        "regs" => Some(Box::new(regs::Regs)),
        "bitflip" => Some(Box::new(bitflip::Bitflip)),
        "walk" => Some(Box::new(walk::Walk)),
        "chain" => Some(Box::new(chain::Chain)),
        "read" => Some(Box::new(read::Read)),
        "roundtrip" => Some(Box::new(roundtrip::Roundtrip)),
        "index" => Some(Box::new(index::Index)),
        "json" => Some(Box::new(json::Json)),
        "text" => Some(Box::new(text::Text)),
        "cache" => Some(Box::new(cache::Cache)),
        "cli" => Some(Box::new(cli::Cli)),
        "det" => Some(Box::new(det::Det)),
        "process" => Some(Box::new(process::Process)),
        _ => None,
    }
}
