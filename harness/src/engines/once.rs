//! Engine `once` (C12): schedule-driven executors on ONE real `breakpad_symbols::Symbolizer`
//! against the Lean model `MdModel.Once`, plus the property's own oracle on the implementation.
//!
//! case line:  `once run x:<a|w|j> tasks:<k[w],k[w],..;..> sup:<k=delay:res,..> sched:<n,n,..|->`
//!   tasks   one program per task: the module keys it looks up in order; a `w` suffix makes that
//!           lookup go through `Symbolizer::walk_frame`, otherwise `Symbolizer::fill_symbol`
//!   sup     the mock `SymbolSupplier`: for key k return `Pending` <delay> times, then ok|nf|pe
//!   x:a     hand-rolled executor, polls exactly the task ids of `sched` (noop-like flag wakers, so
//!           spurious polls are genuine); x:w waker-respecting executor (`sched` entries choose among
//!           the woken tasks); x:j `futures_util::future::join_all` on a tokio runtime (smoke test)
//!   output  per poll `<t>[<events>]<req>/<proc>w<woken bits>f<finished bits>` joined by `;`, then
//!           ` final fin=.. req=.. proc=.. calls:.. seen:..` after a completion phase.

use crate::common::*;
use async_trait::async_trait;
use breakpad_symbols::{
    FileError, FileKind, FrameWalker, LocateSymbolsResult, Module, SimpleFrame, SimpleModule,
    SymbolError, SymbolFile, SymbolSupplier, Symbolizer,
};
use std::collections::{BTreeMap, BTreeSet};
use std::future::Future;
use std::path::PathBuf;
use std::pin::Pin;
use std::str::FromStr;
use std::sync::atomic::{AtomicBool, Ordering};
use std::sync::{Arc, Mutex};
use std::task::{Context, Poll, Wake, Waker};

pub struct Once;

#[derive(Clone, Copy, PartialEq, Eq, Debug)]
enum Res {
    Ok,
    Nf,
    Pe,
}
impl Res {
    fn s(self) -> &'static str {
        match self {
            Res::Ok => "ok",
            Res::Nf => "nf",
            Res::Pe => "pe",
        }
    }
}

#[derive(Clone, Debug)]
struct Case {
    mode: char,
    /// which components of the module identity (code file, code id, debug file, debug id) depend on
    /// the key: '0' all four; 'C' / 'I' / 'F' / 'D' only that one (the other three are the same for
    /// every key). Two keys are two DISTINCT modules in every variant. The model does not see it.
    variant: char,
    /// (key, via walk_frame)
    progs: Vec<Vec<(u64, bool)>>,
    sup: BTreeMap<u64, (u32, Res)>,
    sched: Vec<u64>,
}

fn parse_case(case: &str) -> Option<Case> {
    let f: Vec<&str> = case.split(' ').filter(|s| !s.is_empty()).collect();
    if f.len() != 6 || f[0] != "once" || f[1] != "run" {
        return None;
    }
    let x = f[2].strip_prefix("x:")?;
    let (x, variant) = match x.len() {
        1 => (x, '0'),
        2 => (&x[..1], x.chars().nth(1)?),
        _ => return None,
    };
    if !"0CIFD".contains(variant) {
        return None;
    }
    let mode = match x {
        "a" => 'a',
        "w" => 'w',
        "j" => 'j',
        _ => return None,
    };
    let mut progs = vec![];
    for p in f[3].strip_prefix("tasks:")?.split(';') {
        let mut prog = vec![];
        if p != "-" {
            for k in p.split(',') {
                let (k, w) = match k.strip_suffix('w') {
                    Some(k) => (k, true),
                    None => (k, false),
                };
                prog.push((k.parse().ok()?, w));
            }
        }
        progs.push(prog);
    }
    let mut sup = BTreeMap::new();
    for e in f[4].strip_prefix("sup:")?.split(',') {
        let (k, v) = e.split_once('=')?;
        let (d, r) = v.split_once(':')?;
        let r = match r {
            "ok" => Res::Ok,
            "nf" => Res::Nf,
            "pe" => Res::Pe,
            _ => return None,
        };
        sup.insert(k.parse().ok()?, (d.parse().ok()?, r));
    }
    let s = f[5].strip_prefix("sched:")?;
    let sched = if s == "-" {
        vec![]
    } else {
        s.split(',').map(|x| x.parse().ok()).collect::<Option<Vec<u64>>>()?
    };
    if progs.iter().flatten().any(|(k, _)| !sup.contains_key(k)) {
        return None;
    }
    if mode == 'j' && !sched.is_empty() {
        return None;
    }
    Some(Case { mode, variant, progs, sup, sched })
}

fn render(c: &Case) -> String {
    let tasks = c
        .progs
        .iter()
        .map(|p| {
            if p.is_empty() {
                "-".to_string()
            } else {
                p.iter()
                    .map(|(k, w)| format!("{k}{}", if *w { "w" } else { "" }))
                    .collect::<Vec<_>>()
                    .join(",")
            }
        })
        .collect::<Vec<_>>()
        .join(";");
    let sup = c
        .sup
        .iter()
        .map(|(k, (d, r))| format!("{k}={d}:{}", r.s()))
        .collect::<Vec<_>>()
        .join(",");
    let sched = if c.sched.is_empty() {
        "-".to_string()
    } else {
        c.sched.iter().map(|x| x.to_string()).collect::<Vec<_>>().join(",")
    };
    let v = if c.variant == '0' { String::new() } else { c.variant.to_string() };
    format!("once run x:{}{v} tasks:{tasks} sup:{sup} sched:{sched}", c.mode)
}

// ------------------------------------------------------------------------------------ the mock

#[derive(Clone, Debug, PartialEq)]
enum Ev {
    Call(u64),
    Ret(u64),
    /// task, key, outcome class, and (for ok) the supplier call instance whose symbols were used
    Seen(usize, u64, Res, Option<String>),
}

#[derive(Default)]
struct Shared {
    events: Vec<Ev>,
    calls: BTreeMap<u64, usize>,
}

struct Mock {
    variant: char,
    table: BTreeMap<u64, (u32, Res)>,
    sh: Arc<Mutex<Shared>>,
}

/// returns `Pending` once (after waking itself, like `tokio::task::yield_now`)
struct YieldOnce(bool);
impl Future for YieldOnce {
    type Output = ();
    fn poll(mut self: Pin<&mut Self>, cx: &mut Context<'_>) -> Poll<()> {
        if self.0 {
            Poll::Ready(())
        } else {
            self.0 = true;
            cx.waker().wake_by_ref();
            Poll::Pending
        }
    }
}

/// the key of a mock module, read back from the component that carries it in this variant
fn key_of_module(module: &(dyn Module + Sync), variant: char) -> u64 {
    let digits = |s: &str| -> u64 {
        let d: String = s.chars().filter(|c| c.is_ascii_digit()).collect();
        d.parse().expect("mock: unknown module")
    };
    match variant {
        '0' | 'C' => digits(module.code_file().trim_start_matches("/lib/m").trim_end_matches(".so")),
        'I' => u64::from_str_radix(module.code_identifier().expect("mock: code id").as_str().trim_start_matches("c0de"), 16).expect("mock: code id"),
        'F' => digits(module.debug_file().expect("mock: debug file").trim_start_matches('m').trim_end_matches(".dbg")),
        _ => (module.debug_identifier().expect("mock: debug id").uuid().as_u128() & 0xffff_ffff) as u64,
    }
}

fn module_for(k: u64, variant: char) -> SimpleModule {
    // variant '0': all four components of the module identity depend on k; otherwise exactly one does
    // and the three others are shared by all keys (modules that differ in one component only are
    // still different modules: a renamed copy, a rebuilt binary, ...)
    let on = |c: char| variant == '0' || variant == c;
    let kd = if on('D') { k } else { 0xffff };
    let id = debugid::DebugId::from_str(&format!("abcd1234-abcd-1234-abcd-abcd{:08x}-a", kd)).unwrap();
    SimpleModule::from_basic_info(
        Some(if on('F') { format!("m{k}.dbg") } else { "mshared.dbg".to_string() }),
        Some(id),
        Some(if on('C') { format!("/lib/m{k}.so") } else { "/lib/mshared.so".to_string() }),
        Some(debugid::CodeId::new(if on('I') { format!("C0DE{k:04X}") } else { "C0DEFFFF".to_string() })),
    )
}

#[async_trait]
impl SymbolSupplier for Mock {
    async fn locate_symbols(
        &self,
        module: &(dyn Module + Sync),
    ) -> Result<LocateSymbolsResult, SymbolError> {
        let k = key_of_module(module, self.variant);
        let (delay, res) = self.table[&k];
        let inst = {
            let mut sh = self.sh.lock().unwrap();
            sh.events.push(Ev::Call(k));
            let c = sh.calls.entry(k).or_insert(0);
            *c += 1;
            *c
        };
        for _ in 0..delay {
            YieldOnce(false).await;
        }
        self.sh.lock().unwrap().events.push(Ev::Ret(k));
        match res {
            Res::Ok => {
                let text = format!(
                    "MODULE Linux x86 000000000000000000000000000000000 m{k}\nFUNC 1000 100 0 fn_k{k}_call{inst}\nSTACK CFI INIT 1000 100 .cfa: {} .ra: 8192\n",
                    4096 + inst
                );
                Ok(LocateSymbolsResult {
                    symbols: SymbolFile::from_bytes(text.as_bytes())?,
                    extra_debug_info: None,
                })
            }
            Res::Nf => Err(SymbolError::NotFound),
            Res::Pe => {
                // a genuine parse error of the real parser
                match SymbolFile::from_bytes(b"MODULE Linux x86 0 m\nthis is not a record\n") {
                    Err(e) => Err(e),
                    Ok(_) => panic!("mock: garbage parsed"),
                }
            }
        }
    }

    async fn locate_file(
        &self,
        _module: &(dyn Module + Sync),
        _file_kind: FileKind,
    ) -> Result<PathBuf, FileError> {
        Err(FileError::NotFound)
    }
}

#[derive(Default)]
struct Walker {
    cfa: Option<u64>,
    ra: Option<u64>,
}
impl FrameWalker for Walker {
    fn get_instruction(&self) -> u64 {
        0x1010
    }
    fn has_grand_callee(&self) -> bool {
        false
    }
    fn get_grand_callee_parameter_size(&self) -> u32 {
        0
    }
    fn get_register_at_address(&self, _address: u64) -> Option<u64> {
        None
    }
    fn get_callee_register(&self, _name: &str) -> Option<u64> {
        None
    }
    fn set_caller_register(&mut self, _name: &str, _val: u64) -> Option<()> {
        Some(())
    }
    fn clear_caller_register(&mut self, _name: &str) {}
    fn set_cfa(&mut self, val: u64) -> Option<()> {
        self.cfa = Some(val);
        Some(())
    }
    fn set_ra(&mut self, val: u64) -> Option<()> {
        self.ra = Some(val);
        Some(())
    }
}

/// what one task does: its lookups one after another on the shared symbolizer
async fn task_body(sym: &Symbolizer, variant: char, t: usize, prog: &[(u64, bool)], sh: &Arc<Mutex<Shared>>) {
    for &(k, via_walk) in prog {
        let m = module_for(k, variant); // a fresh, equal-by-value module every time
        let inst: Option<String> = if via_walk {
            let mut w = Walker::default();
            match sym.walk_frame(&m, &mut w).await {
                Some(()) => Some(format!("call{}", w.cfa.unwrap_or(0).wrapping_sub(4096))),
                None => None,
            }
        } else {
            let mut f = SimpleFrame::with_instruction(0x1010);
            match sym.fill_symbol(&m, &mut f).await {
                Ok(()) => Some(
                    f.function
                        .unwrap_or_default()
                        .trim_start_matches(&format!("fn_k{k}_"))
                        .to_string(),
                ),
                Err(_) => None,
            }
        };
        let res = match &inst {
            Some(_) => Res::Ok,
            None => {
                // the remembered failure, as far as the public API shows it
                // (the statistics are keyed by the code file's leaf name, which only tells the keys apart
                // when the code file carries the key; the other variants use ok/nf outcomes only)
                let st = sym.stats();
                match st.get(&format!("m{k}.so")) {
                    Some(s) if (variant == '0' || variant == 'C') && s.loaded_symbols && s.corrupt_symbols => Res::Pe,
                    _ => Res::Nf,
                }
            }
        };
        sh.lock().unwrap().events.push(Ev::Seen(t, k, res, inst));
    }
}

struct Flag(AtomicBool);
impl Wake for Flag {
    fn wake(self: Arc<Self>) {
        self.0.store(true, Ordering::SeqCst);
    }
    fn wake_by_ref(self: &Arc<Self>) {
        self.0.store(true, Ordering::SeqCst);
    }
}

struct RunOut {
    trace: Vec<String>,
    summary: String,
    events: Vec<Ev>,
    calls: BTreeMap<u64, usize>,
    /// (requested, processed, supplier calls started, supplier calls returned) after every poll
    counters: Vec<(u64, u64, u64, u64)>,
    finished: Vec<bool>,
    stalled: bool,
    blocked_polls: usize,
    polls: usize,
}

fn ev_str(e: &Ev) -> String {
    match e {
        Ev::Call(k) => format!("c{k}"),
        Ev::Ret(k) => format!("r{k}"),
        Ev::Seen(t, k, r, _) => format!("s{t}.{k}={}", r.s()),
    }
}

fn summary(c: &Case, sym: &Symbolizer, sh: &Shared, finished: &[bool]) -> String {
    let ps = sym.pending_stats();
    let calls = sh
        .calls
        .iter()
        .filter(|(_, n)| **n > 0)
        .map(|(k, n)| format!("{k}x{n}"))
        .collect::<Vec<_>>()
        .join(",");
    let seen = (0..c.progs.len())
        .map(|t| {
            format!(
                "{t}:{}",
                sh.events
                    .iter()
                    .filter_map(|e| match e {
                        Ev::Seen(t2, k, r, _) if *t2 == t => Some(format!("{k}={}", r.s())),
                        _ => None,
                    })
                    .collect::<Vec<_>>()
                    .join(",")
            )
        })
        .collect::<Vec<_>>()
        .join(";");
    format!(
        "final fin={} req={} proc={} calls:{calls} seen:{seen}",
        if finished.iter().all(|f| *f) { 1 } else { 0 },
        ps.symbols_requested,
        ps.symbols_processed
    )
}

/// modes `a` and `w`
fn run_scheduled(c: &Case) -> RunOut {
    let n = c.progs.len();
    let sh = Arc::new(Mutex::new(Shared::default()));
    let sym = Symbolizer::new(Mock { variant: c.variant, table: c.sup.clone(), sh: sh.clone() });
    let flags: Vec<Arc<Flag>> = (0..n).map(|_| Arc::new(Flag(AtomicBool::new(true)))).collect();
    let wakers: Vec<Waker> = flags.iter().map(|f| Waker::from(f.clone())).collect();
    let mut futs: Vec<Option<Pin<Box<dyn Future<Output = ()> + '_>>>> = Vec::new();
    for t in 0..n {
        futs.push(Some(Box::pin(task_body(&sym, c.variant, t, &c.progs[t], &sh))));
    }
    let mut out = RunOut {
        trace: vec![],
        summary: String::new(),
        events: vec![],
        calls: BTreeMap::new(),
        counters: vec![],
        finished: vec![false; n],
        stalled: false,
        blocked_polls: 0,
        polls: 0,
    };
    let mut seen_events = 0usize;
    // one poll of task t; returns the trace entry
    let mut poll_one = |t: usize,
                        futs: &mut Vec<Option<Pin<Box<dyn Future<Output = ()> + '_>>>>,
                        out: &mut RunOut|
     -> String {
        if t < n {
            if let Some(f) = futs[t].as_mut() {
                flags[t].0.store(false, Ordering::SeqCst);
                let mut cx = Context::from_waker(&wakers[t]);
                out.polls += 1;
                if f.as_mut().poll(&mut cx).is_ready() {
                    futs[t] = None;
                    out.finished[t] = true;
                }
            }
        }
        let shg = sh.lock().unwrap();
        let evs = &shg.events[seen_events..];
        if t < n && evs.is_empty() && !out.finished[t] && !flags[t].0.load(Ordering::SeqCst) {
            out.blocked_polls += 1;
        }
        let ps = sym.pending_stats();
        let started = shg.events.iter().filter(|e| matches!(e, Ev::Call(_))).count() as u64;
        let returned = shg.events.iter().filter(|e| matches!(e, Ev::Ret(_))).count() as u64;
        out.counters.push((ps.symbols_requested, ps.symbols_processed, started, returned));
        let s = format!(
            "{t}[{}]{}/{}w{}f{}",
            evs.iter().map(ev_str).collect::<Vec<_>>().join(","),
            ps.symbols_requested,
            ps.symbols_processed,
            flags.iter().map(|f| if f.0.load(Ordering::SeqCst) { '1' } else { '0' }).collect::<String>(),
            out.finished.iter().map(|f| if *f { '1' } else { '0' }).collect::<String>(),
        );
        seen_events = shg.events.len();
        s
    };
    let runnable = |out: &RunOut| -> Vec<usize> {
        (0..n)
            .filter(|&t| flags[t].0.load(Ordering::SeqCst) && !out.finished[t])
            .collect()
    };
    for &x in &c.sched {
        if c.mode == 'a' {
            let e = poll_one(x as usize, &mut futs, &mut out);
            out.trace.push(e);
        } else {
            if out.finished.iter().all(|f| *f) {
                break;
            }
            let r = runnable(&out);
            if r.is_empty() {
                out.trace.push("stall".into());
                out.stalled = true;
                break;
            }
            let t = r[(x as usize) % r.len()];
            let e = poll_one(t, &mut futs, &mut out);
            out.trace.push(e);
        }
    }
    // completion phase (not part of the compared trace): every fair continuation must finish
    let mut budget = 20_000usize;
    while !out.finished.iter().all(|f| *f) && budget > 0 && !out.stalled {
        let todo: Vec<usize> = if c.mode == 'a' {
            (0..n).filter(|&t| !out.finished[t]).collect()
        } else {
            let r = runnable(&out);
            if r.is_empty() {
                out.stalled = true;
                break;
            }
            r
        };
        for t in todo {
            if !out.finished[t] {
                let _ = poll_one(t, &mut futs, &mut out);
                budget = budget.saturating_sub(1);
            }
        }
    }
    drop(poll_one);
    let shg = sh.lock().unwrap();
    out.summary = summary(c, &sym, &shg, &out.finished);
    out.events = shg.events.clone();
    out.calls = shg.calls.clone();
    drop(shg);
    drop(futs);
    out
}

/// mode `j`: `join_all` on a tokio runtime; a timeout turns a hang into a report
fn run_join_all(c: &Case) -> RunOut {
    let n = c.progs.len();
    let sh = Arc::new(Mutex::new(Shared::default()));
    let sym = Symbolizer::new(Mock { variant: c.variant, table: c.sup.clone(), sh: sh.clone() });
    let rt = tokio::runtime::Builder::new_current_thread().enable_time().build().unwrap();
    let done = rt.block_on(async {
        let futs = (0..n).map(|t| task_body(&sym, c.variant, t, &c.progs[t], &sh));
        tokio::time::timeout(std::time::Duration::from_secs(10), futures_util::future::join_all(futs))
            .await
            .is_ok()
    });
    let shg = sh.lock().unwrap();
    let finished = vec![done; n];
    let ps = sym.pending_stats();
    let started = shg.events.iter().filter(|e| matches!(e, Ev::Call(_))).count() as u64;
    let returned = shg.events.iter().filter(|e| matches!(e, Ev::Ret(_))).count() as u64;
    RunOut {
        trace: vec![],
        summary: summary(c, &sym, &shg, &finished),
        events: shg.events.clone(),
        calls: shg.calls.clone(),
        counters: vec![(ps.symbols_requested, ps.symbols_processed, started, returned)],
        finished,
        stalled: !done,
        blocked_polls: 0,
        polls: 0,
    }
}

/// the property's oracle, on the implementation's behaviour alone
fn oracle(c: &Case, r: &RunOut) -> Vec<(String, String)> {
    let mut o = vec![];
    let distinct: BTreeSet<u64> = c.progs.iter().flatten().map(|(k, _)| *k).collect();
    // (1) the supplier is asked at most once per distinct module
    for (k, n) in &r.calls {
        if *n > 1 {
            o.push(("supplier-called-twice".into(), format!("locate_symbols called {n} times for module key {k}")));
        }
    }
    // (2) every requester of a module observes the same outcome (incl. a remembered failure),
    //     and it is the outcome the supplier gave
    let mut per_key: BTreeMap<u64, Vec<(usize, Res, Option<String>)>> = BTreeMap::new();
    for e in &r.events {
        if let Ev::Seen(t, k, res, inst) = e {
            per_key.entry(*k).or_default().push((*t, *res, inst.clone()));
        }
    }
    for (k, v) in &per_key {
        if let Some(first) = v.first() {
            if let Some(other) = v.iter().find(|x| x.1 != first.1 || x.2 != first.2) {
                o.push((
                    "outcomes-disagree".into(),
                    format!("module key {k}: task {} saw {}{:?} but task {} saw {}{:?}", first.0, first.1.s(), first.2, other.0, other.1.s(), other.2),
                ));
            }
        }
        let want = c.sup[k].1;
        if let Some(bad) = v.iter().find(|x| x.1 != want) {
            o.push((
                "wrong-outcome".into(),
                format!("module key {k}: supplier answered {} but task {} observed {}", want.s(), bad.0, bad.1.s()),
            ));
        }
    }
    // (3) counters: processed <= requested <= #distinct modules at every poll; both equal the
    //     number of distinct modules at the end
    for (i, (rq, pr, _, _)) in r.counters.iter().enumerate() {
        if !(pr <= rq && *rq <= distinct.len() as u64) {
            o.push(("counters-out-of-order".into(), format!("after poll #{i}: requested={rq} processed={pr} distinct modules={}", distinct.len())));
            break;
        }
    }
    //     and they mean what their documentation says: requested = supplier lookups started,
    //     processed = supplier lookups finished ("the number of symbols we have finished processing")
    for (i, (rq, pr, st, rt)) in r.counters.iter().enumerate() {
        if rq != st || pr != rt {
            o.push(("counters-vs-supplier".into(), format!("after poll #{i}: requested={rq} processed={pr} but the supplier has started {st} and finished {rt} lookups")));
            break;
        }
    }
    // (4) no request is lost or deadlocks
    if r.stalled || !r.finished.iter().all(|f| *f) {
        let class = if c.mode == 'a' { "deadlock" } else { "lost-wakeup-or-hang" };
        o.push((class.into(), format!("tasks finished: {:?} (stalled={})", r.finished, r.stalled)));
    } else {
        if let Some((rq, pr, _, _)) = r.counters.last() {
            if *rq != distinct.len() as u64 || *pr != distinct.len() as u64 {
                o.push(("final-counters".into(), format!("all tasks finished: requested={rq} processed={pr} distinct modules={}", distinct.len())));
            }
        }
        for (t, prog) in c.progs.iter().enumerate() {
            let got: Vec<u64> = r
                .events
                .iter()
                .filter_map(|e| match e {
                    Ev::Seen(t2, k, _, _) if *t2 == t => Some(*k),
                    _ => None,
                })
                .collect();
            let want: Vec<u64> = prog.iter().map(|(k, _)| *k).collect();
            if got != want {
                o.push(("request-lost".into(), format!("task {t} asked for {want:?} but got answers for {got:?}")));
            }
        }
    }
    o
}

fn fmt_cfg(progs: &[Vec<(u64, bool)>], sup: &BTreeMap<u64, (u32, Res)>, mode: char, sched: Vec<u64>) -> String {
    // the identity variant is a function of the case (so that the exhaustive enumeration stays what it
    // is and every variant is exercised): 'C' needs nothing; I/F/D share the code file, hence the
    // statistics entry, so they are used only when no outcome is a parse error
    let mut h: u64 = 0xcbf29ce484222325;
    for p in progs {
        for (k, w) in p {
            h = (h ^ (k * 2 + *w as u64 + 1)).wrapping_mul(0x100000001b3);
        }
        h = (h ^ 0xff).wrapping_mul(0x100000001b3);
    }
    for x in &sched {
        h = (h ^ (x + 7)).wrapping_mul(0x100000001b3);
    }
    let no_pe = sup.values().all(|(_, r)| *r != Res::Pe);
    let variant = match (h >> 20) % 8 {
        0 | 1 => 'C',
        2 if no_pe => 'I',
        3 if no_pe => 'F',
        4 if no_pe => 'D',
        _ => '0',
    };
    render(&Case { mode, variant, progs: progs.to_vec(), sup: sup.clone(), sched })
}

/// schedule length for the exhaustive part: enough polls for a completion plus slack
fn sched_len(progs: &[Vec<(u64, bool)>], sup: &BTreeMap<u64, (u32, Res)>, slack: usize, cap: usize) -> usize {
    let lookups: usize = progs.iter().map(|p| p.len()).sum();
    let keys: BTreeSet<u64> = progs.iter().flatten().map(|(k, _)| *k).collect();
    let delays: usize = keys.iter().map(|k| sup[k].0 as usize).sum();
    (lookups + delays + slack).min(cap)
}

fn all_seqs(n: u64, len: usize, f: &mut dyn FnMut(&[u64])) {
    let mut cur = vec![0u64; len];
    loop {
        f(&cur);
        let mut i = len;
        loop {
            if i == 0 {
                return;
            }
            i -= 1;
            cur[i] += 1;
            if cur[i] < n {
                break;
            }
            cur[i] = 0;
        }
    }
}

impl Engine for Once {
    fn name(&self) -> &'static str {
        "once"
    }
    fn rule(&self) -> String {
        "case = (executor, one program of module keys per task, supplier table key -> (suspensions, outcome), poll schedule). Exhaustive part: ALL poll sequences (leaves of the prefix-closed tree; the trace is compared after every poll, so every prefix is covered) of length 2*lookups+suspensions (2 tasks, capped at 11 quick / 12 thorough) resp. lookups+suspensions+3|4 (3 tasks, capped at 8 / 9) for 2 tasks x <=2 lookups x <=2 keys x <=2 suspensions and 3 tasks x 1 lookup x 2 keys x <=1 suspension, arbitrary-poll executor; random part: 2..4 tasks x 1..3 lookups x 1..3 keys x 0..3 suspensions x outcomes ok/nf/pe under the arbitrary-poll executor (random schedules with spurious polls), the waker-respecting executor (random choices among woken tasks) and join_all on a tokio runtime. non-trivial = at least two tasks ask for a common key and at least one poll found the lock taken (blocked poll) or the run used >= 2 tasks with a suspending supplier; distinct = distinct case line".into()
    }
    fn exhaustive_part(&self) -> Option<String> {
        Some("all poll sequences (task ids incl. spurious polls) up to the length bound for every configuration of 2 tasks x <=2 lookups x <=2 keys x <=2 suspensions (up to task/key symmetry) and 3 tasks x 1 lookup x 2 keys x <=1 suspension, compared with the model after every poll".into())
    }

    fn generate(&self, tier: Tier, rng: &mut Rng, emit: &mut dyn FnMut(String)) {
        let quick = tier == Tier::Quick;
        // ---- exhaustive: 2 tasks x <=2 lookups x <=2 keys x <=2 suspensions
        let progs2: Vec<Vec<u64>> = vec![vec![0], vec![1], vec![0, 0], vec![0, 1], vec![1, 0], vec![1, 1]];
        let outcomes: [(Res, Res); 3] = [(Res::Ok, Res::Nf), (Res::Pe, Res::Ok), (Res::Nf, Res::Pe)];
        let mut oc = 0usize;
        for (ia, pa) in progs2.iter().enumerate() {
            for pb in progs2.iter().skip(ia) {
                // key symmetry: the first key mentioned is 0
                if pa[0] != 0 {
                    continue;
                }
                for d0 in 0..=2u32 {
                    for d1 in 0..=2u32 {
                        let uses1 = pa.iter().chain(pb.iter()).any(|k| *k == 1);
                        if !uses1 && d1 != 0 {
                            continue;
                        }
                        let (r0, r1) = outcomes[oc % 3];
                        oc += 1;
                        let mut sup = BTreeMap::new();
                        sup.insert(0u64, (d0, r0));
                        if uses1 {
                            sup.insert(1u64, (d1, r1));
                        }
                        // alternate the API used, deterministically
                        let progs: Vec<Vec<(u64, bool)>> = [pa, pb]
                            .iter()
                            .enumerate()
                            .map(|(t, p)| p.iter().enumerate().map(|(i, k)| (*k, (t + i + oc) % 3 == 0)).collect())
                            .collect();
                        let lookups: usize = progs.iter().map(|p| p.len()).sum();
                        let len = sched_len(&progs, &sup, lookups, if quick { 11 } else { 12 });
                        all_seqs(2, len, &mut |s| emit(fmt_cfg(&progs, &sup, 'a', s.to_vec())));
                    }
                }
            }
        }
        // ---- exhaustive: 3 tasks x 1 lookup x 2 keys x <=1 suspension
        for prog in [[0u64, 0, 0], [0, 0, 1], [0, 1, 0], [1, 0, 0]] {
            for d0 in 0..=1u32 {
                for d1 in 0..=1u32 {
                    for (r0, r1) in outcomes {
                        let mut sup = BTreeMap::new();
                        sup.insert(0u64, (d0, r0));
                        sup.insert(1u64, (d1, r1));
                        let progs: Vec<Vec<(u64, bool)>> = prog.iter().map(|k| vec![(*k, false)]).collect();
                        let len = sched_len(&progs, &sup, if quick { 3 } else { 4 }, if quick { 8 } else { 9 });
                        all_seqs(3, len, &mut |s| emit(fmt_cfg(&progs, &sup, 'a', s.to_vec())));
                    }
                }
            }
        }
        // ---- random: up to 4 x 3 x 3 x 3, three executors
        let n = if quick { 40_000 } else { 1_500_000 };
        for i in 0..n {
            let nt = rng.range(2, 4) as usize;
            let nk = rng.range(1, 3);
            let maxd = rng.range(0, 3) as u32;
            let mut sup = BTreeMap::new();
            for k in 0..nk {
                let r = *rng.pick(&[Res::Ok, Res::Ok, Res::Nf, Res::Pe]);
                sup.insert(k, (rng.range(0, maxd as u64) as u32, r));
            }
            let progs: Vec<Vec<(u64, bool)>> = (0..nt)
                .map(|_| {
                    let l = rng.range(1, 3);
                    (0..l).map(|_| (rng.below(nk), rng.chance(1, 4))).collect()
                })
                .collect();
            let total = sched_len(&progs, &sup, 0, 1000);
            let mode = match i % 16 {
                0 => 'j',
                1..=5 => 'w',
                _ => 'a',
            };
            let sched: Vec<u64> = match mode {
                'j' => vec![],
                'w' => (0..rng.range(0, 2 * total as u64)).map(|_| rng.below(4)).collect(),
                _ => {
                    let len = rng.range(0, 3 * total as u64);
                    // biased: sometimes hammer one task (spurious polls), sometimes uniform
                    let hammer = rng.below(nt as u64);
                    let bias = rng.below(3);
                    (0..len)
                        .map(|_| {
                            if bias == 0 && rng.chance(1, 2) {
                                hammer
                            } else if rng.chance(1, 50) {
                                nt as u64 // an id that is no task
                            } else {
                                rng.below(nt as u64)
                            }
                        })
                        .collect()
                }
            };
            emit(fmt_cfg(&progs, &sup, mode, sched));
        }
    }

    fn model_request(&self, case: &str) -> Option<String> {
        // the model knows keys, not how a module's identity is spelled: it gets the case without the variant
        let mut c = parse_case(case)?;
        c.variant = '0';
        Some(render(&c))
    }

    fn exec(&self, case: &str) -> ImplResult {
        let mut res = ImplResult::default();
        let Some(c) = parse_case(case) else {
            res.out = "bad-op".into();
            return res;
        };
        let run = catch(|| if c.mode == 'j' { run_join_all(&c) } else { run_scheduled(&c) });
        let r = match run {
            Ok(r) => r,
            Err(msg) => {
                res.out = "PANIC".into();
                res.oracle.push(("panic".into(), msg));
                return res;
            }
        };
        res.out = format!("{} {}", r.trace.join(";"), r.summary);
        res.oracle = oracle(&c, &r);
        let mut users: BTreeMap<u64, BTreeSet<usize>> = BTreeMap::new();
        for (t, p) in c.progs.iter().enumerate() {
            for (k, _) in p {
                users.entry(*k).or_default().insert(t);
            }
        }
        let shared_key = users.values().any(|u| u.len() >= 2);
        let suspending = c.sup.values().any(|(d, _)| *d > 0);
        res.nontrivial = shared_key && (r.blocked_polls > 0 || (c.mode == 'j' && suspending));
        res.tags.push(format!("exec:{}", c.mode));
        res.tags.push(format!("identity-variant:{}", c.variant));
        res.tags.push(format!("tasks:{}", c.progs.len()));
        res.tags.push(format!("keys:{}", c.sup.len()));
        res.tags.push(format!("max-suspensions:{}", c.sup.values().map(|(d, _)| *d).max().unwrap_or(0)));
        res.tags.push(format!("blocked-polls:{}", r.blocked_polls.min(5)));
        if shared_key {
            res.tags.push("shared-key".into());
        }
        for (_, (_, rr)) in &c.sup {
            res.tags.push(format!("outcome:{}", rr.s()));
        }
        if c.progs.iter().flatten().any(|(_, w)| *w) {
            res.tags.push("api:walk_frame".into());
        }
        res.tags.push(if r.finished.iter().all(|f| *f) { "all-finished".into() } else { "unfinished".into() });
        res
    }

    fn shrink(&self, case: &str, still_fails: &dyn Fn(&str) -> bool) -> String {
        let Some(mut c) = parse_case(case) else { return case.to_string() };
        let mut progress = true;
        while progress {
            progress = false;
            // drop schedule entries
            let mut i = 0;
            while i < c.sched.len() {
                let mut d = c.clone();
                d.sched.remove(i);
                if still_fails(&render(&d)) {
                    c = d;
                    progress = true;
                } else {
                    i += 1;
                }
            }
            // drop lookups (keep at least one task)
            for t in 0..c.progs.len() {
                let mut i = 0;
                while i < c.progs[t].len() {
                    let mut d = c.clone();
                    d.progs[t].remove(i);
                    if still_fails(&render(&d)) {
                        c = d;
                        progress = true;
                    } else {
                        i += 1;
                    }
                }
            }
            // drop the last task when its program is empty and the schedule never names it
            while c.progs.len() > 1 && c.progs.last().map(|p| p.is_empty()).unwrap_or(false) {
                let mut d = c.clone();
                d.progs.pop();
                if still_fails(&render(&d)) {
                    c = d;
                    progress = true;
                } else {
                    break;
                }
            }
            // smaller suspension counts, plain api
            let keys: Vec<u64> = c.sup.keys().copied().collect();
            for k in keys {
                while c.sup[&k].0 > 0 {
                    let mut d = c.clone();
                    d.sup.get_mut(&k).unwrap().0 -= 1;
                    if still_fails(&render(&d)) {
                        c = d;
                        progress = true;
                    } else {
                        break;
                    }
                }
            }
            for t in 0..c.progs.len() {
                for i in 0..c.progs[t].len() {
                    if c.progs[t][i].1 {
                        let mut d = c.clone();
                        d.progs[t][i].1 = false;
                        if still_fails(&render(&d)) {
                            c = d;
                            progress = true;
                        }
                    }
                }
            }
        }
        // cosmetic: with an empty schedule task ids do not matter — drop empty programs; drop
        // supplier entries no program mentions
        if c.sched.is_empty() && c.progs.iter().any(|p| p.is_empty()) && c.progs.iter().any(|p| !p.is_empty()) {
            let mut d = c.clone();
            d.progs.retain(|p| !p.is_empty());
            if still_fails(&render(&d)) {
                c = d;
            }
        }
        let used: BTreeSet<u64> = c.progs.iter().flatten().map(|(k, _)| *k).collect();
        if used.len() < c.sup.len() && !used.is_empty() {
            let mut d = c.clone();
            d.sup.retain(|k, _| used.contains(k));
            if still_fails(&render(&d)) {
                c = d;
            }
        }
        render(&c)
    }
}
