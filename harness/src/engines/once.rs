//! Engine `once` (C12): schedule-driven executors on real `breakpad_symbols::Symbolizer`s
//! against the Lean model `MdModel.Once`, plus the property's own oracle on the implementation.
//! Three kinds of case lines:
//!   `once run ..`   one Symbolizer, programs of module keys (fill_symbol / walk_frame), see below
//!   `once req ..`   all request kinds (fill_symbol, walk_frame, get_file_path x FileKind), module
//!                   identity variants, 0..3 providers behind a real MultiSymbolProvider, per-provider
//!                   pending_stats()/stats(), executors a/w/j and m (tokio multi-thread, 4 workers)
//!   `once http ..`  HttpSymbolSupplier::locate_file_internal / locate_symbols against a loopback
//!                   server that counts requests
//!
//! case line:  `once run x:<a|w|j> tasks:<k[w],k[w],..;..> sup:<k=delay:res,..> sched:<n,n,..|->`
//!   tasks   one program per task: the module keys it looks up in order; a `w` suffix makes that
//!           lookup go through `Symbolizer::walk_frame`, otherwise `Symbolizer::fill_symbol`
//!   sup     the mock `SymbolSupplier`: for key k return `Pending` <delay> times, then ok|nf|pe
//!   x:a     hand-rolled executor, polls exactly the task ids of `sched` (noop-like flag wakers, so
//!           spurious polls are genuine); x:w waker-respecting executor (`sched` entries choose among
//!           the woken tasks); x:j `futures_util::future::join_all` on a tokio runtime (smoke test)
//!   output  per poll `<t>[<events>]<req>/<proc>w<woken bits>f<finished bits>` joined by `;`, then
//!           ` final fin=.. req=.. proc=.. calls:.. seen:..` after a completion phase.

use crate::common::*;
use async_trait::async_trait;
use breakpad_symbols::{
    FileError, FileKind, FrameWalker, LocateSymbolsResult, Module, SimpleFrame, SimpleModule,
    SymbolError, SymbolFile, SymbolSupplier, Symbolizer,
};
use std::collections::{BTreeMap, BTreeSet};
use std::future::Future;
use std::path::PathBuf;
use std::pin::Pin;
use std::str::FromStr;
use std::sync::atomic::{AtomicBool, Ordering};
use std::sync::{Arc, Mutex};
use std::task::{Context, Poll, Wake, Waker};

pub struct Once;

#[derive(Clone, Copy, PartialEq, Eq, Debug)]
enum Res {
    Ok,
    Nf,
    Pe,
}
impl Res {
    fn s(self) -> &'static str {
        match self {
            Res::Ok => "ok",
            Res::Nf => "nf",
            Res::Pe => "pe",
        }
    }
}

#[derive(Clone, Debug)]
struct Case {
    mode: char,
    /// which components of the module identity (code file, code id, debug file, debug id) depend on
    /// the key: '0' all four; 'C' / 'I' / 'F' / 'D' only that one (the other three are the same for
    /// every key). Two keys are two DISTINCT modules in every variant. The model does not see it.
    variant: char,
    /// (key, via walk_frame)
    progs: Vec<Vec<(u64, bool)>>,
    sup: BTreeMap<u64, (u32, Res)>,
    sched: Vec<u64>,
}

fn parse_case(case: &str) -> Option<Case> {
    let f: Vec<&str> = case.split(' ').filter(|s| !s.is_empty()).collect();
    if f.len() != 6 || f[0] != "once" || f[1] != "run" {
        return None;
    }
    let x = f[2].strip_prefix("x:")?;
    let (x, variant) = match x.len() {
        1 => (x, '0'),
        2 => (&x[..1], x.chars().nth(1)?),
        _ => return None,
    };
    if !"0CIFD".contains(variant) {
        return None;
    }
    let mode = match x {
        "a" => 'a',
        "w" => 'w',
        "j" => 'j',
        _ => return None,
    };
    let mut progs = vec![];
    for p in f[3].strip_prefix("tasks:")?.split(';') {
        let mut prog = vec![];
        if p != "-" {
            for k in p.split(',') {
                let (k, w) = match k.strip_suffix('w') {
                    Some(k) => (k, true),
                    None => (k, false),
                };
                prog.push((k.parse().ok()?, w));
            }
        }
        progs.push(prog);
    }
    let mut sup = BTreeMap::new();
    for e in f[4].strip_prefix("sup:")?.split(',') {
        let (k, v) = e.split_once('=')?;
        let (d, r) = v.split_once(':')?;
        let r = match r {
            "ok" => Res::Ok,
            "nf" => Res::Nf,
            "pe" => Res::Pe,
            _ => return None,
        };
        sup.insert(k.parse().ok()?, (d.parse().ok()?, r));
    }
    let s = f[5].strip_prefix("sched:")?;
    let sched = if s == "-" {
        vec![]
    } else {
        s.split(',').map(|x| x.parse().ok()).collect::<Option<Vec<u64>>>()?
    };
    if progs.iter().flatten().any(|(k, _)| !sup.contains_key(k)) {
        return None;
    }
    if mode == 'j' && !sched.is_empty() {
        return None;
    }
    Some(Case { mode, variant, progs, sup, sched })
}

fn render(c: &Case) -> String {
    let tasks = c
        .progs
        .iter()
        .map(|p| {
            if p.is_empty() {
                "-".to_string()
            } else {
                p.iter()
                    .map(|(k, w)| format!("{k}{}", if *w { "w" } else { "" }))
                    .collect::<Vec<_>>()
                    .join(",")
            }
        })
        .collect::<Vec<_>>()
        .join(";");
    let sup = c
        .sup
        .iter()
        .map(|(k, (d, r))| format!("{k}={d}:{}", r.s()))
        .collect::<Vec<_>>()
        .join(",");
    let sched = if c.sched.is_empty() {
        "-".to_string()
    } else {
        c.sched.iter().map(|x| x.to_string()).collect::<Vec<_>>().join(",")
    };
    let v = if c.variant == '0' { String::new() } else { c.variant.to_string() };
    format!("once run x:{}{v} tasks:{tasks} sup:{sup} sched:{sched}", c.mode)
}

// ------------------------------------------------------------------------------------ the mock

#[derive(Clone, Debug, PartialEq)]
enum Ev {
    Call(u64),
    Ret(u64),
    /// task, key, outcome class, and (for ok) the supplier call instance whose symbols were used
    Seen(usize, u64, Res, Option<String>),
}

#[derive(Default)]
struct Shared {
    events: Vec<Ev>,
    calls: BTreeMap<u64, usize>,
}

struct Mock {
    variant: char,
    table: BTreeMap<u64, (u32, Res)>,
    sh: Arc<Mutex<Shared>>,
}

/// returns `Pending` once (after waking itself, like `tokio::task::yield_now`)
struct YieldOnce(bool);
impl Future for YieldOnce {
    type Output = ();
    fn poll(mut self: Pin<&mut Self>, cx: &mut Context<'_>) -> Poll<()> {
        if self.0 {
            Poll::Ready(())
        } else {
            self.0 = true;
            cx.waker().wake_by_ref();
            Poll::Pending
        }
    }
}

/// the key of a mock module, read back from the component that carries it in this variant
fn key_of_module(module: &(dyn Module + Sync), variant: char) -> u64 {
    let digits = |s: &str| -> u64 {
        let d: String = s.chars().filter(|c| c.is_ascii_digit()).collect();
        d.parse().expect("mock: unknown module")
    };
    match variant {
        '0' | 'C' => digits(module.code_file().trim_start_matches("/lib/m").trim_end_matches(".so")),
        'I' => u64::from_str_radix(module.code_identifier().expect("mock: code id").as_str().trim_start_matches("c0de"), 16).expect("mock: code id"),
        'F' => digits(module.debug_file().expect("mock: debug file").trim_start_matches('m').trim_end_matches(".dbg")),
        _ => (module.debug_identifier().expect("mock: debug id").uuid().as_u128() & 0xffff_ffff) as u64,
    }
}

fn module_for(k: u64, variant: char) -> SimpleModule {
    // variant '0': all four components of the module identity depend on k; otherwise exactly one does
    // and the three others are shared by all keys (modules that differ in one component only are
    // still different modules: a renamed copy, a rebuilt binary, ...)
    let on = |c: char| variant == '0' || variant == c;
    let kd = if on('D') { k } else { 0xffff };
    let id = debugid::DebugId::from_str(&format!("abcd1234-abcd-1234-abcd-abcd{:08x}-a", kd)).unwrap();
    SimpleModule::from_basic_info(
        Some(if on('F') { format!("m{k}.dbg") } else { "mshared.dbg".to_string() }),
        Some(id),
        Some(if on('C') { format!("/lib/m{k}.so") } else { "/lib/mshared.so".to_string() }),
        Some(debugid::CodeId::new(if on('I') { format!("C0DE{k:04X}") } else { "C0DEFFFF".to_string() })),
    )
}

#[async_trait]
impl SymbolSupplier for Mock {
    async fn locate_symbols(
        &self,
        module: &(dyn Module + Sync),
    ) -> Result<LocateSymbolsResult, SymbolError> {
        let k = key_of_module(module, self.variant);
        let (delay, res) = self.table[&k];
        let inst = {
            let mut sh = self.sh.lock().unwrap();
            sh.events.push(Ev::Call(k));
            let c = sh.calls.entry(k).or_insert(0);
            *c += 1;
            *c
        };
        for _ in 0..delay {
            YieldOnce(false).await;
        }
        self.sh.lock().unwrap().events.push(Ev::Ret(k));
        match res {
            Res::Ok => {
                let text = format!(
                    "MODULE Linux x86 000000000000000000000000000000000 m{k}\nFUNC 1000 100 0 fn_k{k}_call{inst}\nSTACK CFI INIT 1000 100 .cfa: {} .ra: 8192\n",
                    4096 + inst
                );
                Ok(LocateSymbolsResult {
                    symbols: SymbolFile::from_bytes(text.as_bytes())?,
                    extra_debug_info: None,
                })
            }
            Res::Nf => Err(SymbolError::NotFound),
            Res::Pe => {
                // a genuine parse error of the real parser
                match SymbolFile::from_bytes(b"MODULE Linux x86 0 m\nthis is not a record\n") {
                    Err(e) => Err(e),
                    Ok(_) => panic!("mock: garbage parsed"),
                }
            }
        }
    }

    async fn locate_file(
        &self,
        _module: &(dyn Module + Sync),
        _file_kind: FileKind,
    ) -> Result<PathBuf, FileError> {
        Err(FileError::NotFound)
    }
}

#[derive(Default)]
struct Walker {
    cfa: Option<u64>,
    ra: Option<u64>,
}
impl FrameWalker for Walker {
    fn get_instruction(&self) -> u64 {
        0x1010
    }
    fn has_grand_callee(&self) -> bool {
        false
    }
    fn get_grand_callee_parameter_size(&self) -> u32 {
        0
    }
    fn get_register_at_address(&self, _address: u64) -> Option<u64> {
        None
    }
    fn get_callee_register(&self, _name: &str) -> Option<u64> {
        None
    }
    fn set_caller_register(&mut self, _name: &str, _val: u64) -> Option<()> {
        Some(())
    }
    fn clear_caller_register(&mut self, _name: &str) {}
    fn set_cfa(&mut self, val: u64) -> Option<()> {
        self.cfa = Some(val);
        Some(())
    }
    fn set_ra(&mut self, val: u64) -> Option<()> {
        self.ra = Some(val);
        Some(())
    }
}

/// what one task does: its lookups one after another on the shared symbolizer
async fn task_body(sym: &Symbolizer, variant: char, t: usize, prog: &[(u64, bool)], sh: &Arc<Mutex<Shared>>) {
    for &(k, via_walk) in prog {
        let m = module_for(k, variant); // a fresh, equal-by-value module every time
        let inst: Option<String> = if via_walk {
            let mut w = Walker::default();
            match sym.walk_frame(&m, &mut w).await {
                Some(()) => Some(format!("call{}", w.cfa.unwrap_or(0).wrapping_sub(4096))),
                None => None,
            }
        } else {
            let mut f = SimpleFrame::with_instruction(0x1010);
            match sym.fill_symbol(&m, &mut f).await {
                Ok(()) => Some(
                    f.function
                        .unwrap_or_default()
                        .trim_start_matches(&format!("fn_k{k}_"))
                        .to_string(),
                ),
                Err(_) => None,
            }
        };
        let res = match &inst {
            Some(_) => Res::Ok,
            None => {
                // the remembered failure, as far as the public API shows it
                // (the statistics are keyed by the code file's leaf name, which only tells the keys apart
                // when the code file carries the key; the other variants use ok/nf outcomes only)
                let st = sym.stats();
                match st.get(&format!("m{k}.so")) {
                    Some(s) if (variant == '0' || variant == 'C') && s.loaded_symbols && s.corrupt_symbols => Res::Pe,
                    _ => Res::Nf,
                }
            }
        };
        sh.lock().unwrap().events.push(Ev::Seen(t, k, res, inst));
    }
}

struct Flag(AtomicBool);
impl Wake for Flag {
    fn wake(self: Arc<Self>) {
        self.0.store(true, Ordering::SeqCst);
    }
    fn wake_by_ref(self: &Arc<Self>) {
        self.0.store(true, Ordering::SeqCst);
    }
}

struct RunOut {
    trace: Vec<String>,
    summary: String,
    events: Vec<Ev>,
    calls: BTreeMap<u64, usize>,
    /// (requested, processed, supplier calls started, supplier calls returned) after every poll
    counters: Vec<(u64, u64, u64, u64)>,
    finished: Vec<bool>,
    stalled: bool,
    blocked_polls: usize,
    polls: usize,
}

fn ev_str(e: &Ev) -> String {
    match e {
        Ev::Call(k) => format!("c{k}"),
        Ev::Ret(k) => format!("r{k}"),
        Ev::Seen(t, k, r, _) => format!("s{t}.{k}={}", r.s()),
    }
}

fn summary(c: &Case, sym: &Symbolizer, sh: &Shared, finished: &[bool]) -> String {
    let ps = sym.pending_stats();
    let calls = sh
        .calls
        .iter()
        .filter(|(_, n)| **n > 0)
        .map(|(k, n)| format!("{k}x{n}"))
        .collect::<Vec<_>>()
        .join(",");
    let seen = (0..c.progs.len())
        .map(|t| {
            format!(
                "{t}:{}",
                sh.events
                    .iter()
                    .filter_map(|e| match e {
                        Ev::Seen(t2, k, r, _) if *t2 == t => Some(format!("{k}={}", r.s())),
                        _ => None,
                    })
                    .collect::<Vec<_>>()
                    .join(",")
            )
        })
        .collect::<Vec<_>>()
        .join(";");
    format!(
        "final fin={} req={} proc={} calls:{calls} seen:{seen}",
        if finished.iter().all(|f| *f) { 1 } else { 0 },
        ps.symbols_requested,
        ps.symbols_processed
    )
}

/// modes `a` and `w`
fn run_scheduled(c: &Case) -> RunOut {
    let n = c.progs.len();
    let sh = Arc::new(Mutex::new(Shared::default()));
    let sym = Symbolizer::new(Mock { variant: c.variant, table: c.sup.clone(), sh: sh.clone() });
    let flags: Vec<Arc<Flag>> = (0..n).map(|_| Arc::new(Flag(AtomicBool::new(true)))).collect();
    let wakers: Vec<Waker> = flags.iter().map(|f| Waker::from(f.clone())).collect();
    let mut futs: Vec<Option<Pin<Box<dyn Future<Output = ()> + '_>>>> = Vec::new();
    for t in 0..n {
        futs.push(Some(Box::pin(task_body(&sym, c.variant, t, &c.progs[t], &sh))));
    }
    let mut out = RunOut {
        trace: vec![],
        summary: String::new(),
        events: vec![],
        calls: BTreeMap::new(),
        counters: vec![],
        finished: vec![false; n],
        stalled: false,
        blocked_polls: 0,
        polls: 0,
    };
    let mut seen_events = 0usize;
    // one poll of task t; returns the trace entry
    let mut poll_one = |t: usize,
                        futs: &mut Vec<Option<Pin<Box<dyn Future<Output = ()> + '_>>>>,
                        out: &mut RunOut|
     -> String {
        if t < n {
            if let Some(f) = futs[t].as_mut() {
                flags[t].0.store(false, Ordering::SeqCst);
                let mut cx = Context::from_waker(&wakers[t]);
                out.polls += 1;
                if f.as_mut().poll(&mut cx).is_ready() {
                    futs[t] = None;
                    out.finished[t] = true;
                }
            }
        }
        let shg = sh.lock().unwrap();
        let evs = &shg.events[seen_events..];
        if t < n && evs.is_empty() && !out.finished[t] && !flags[t].0.load(Ordering::SeqCst) {
            out.blocked_polls += 1;
        }
        let ps = sym.pending_stats();
        let started = shg.events.iter().filter(|e| matches!(e, Ev::Call(_))).count() as u64;
        let returned = shg.events.iter().filter(|e| matches!(e, Ev::Ret(_))).count() as u64;
        out.counters.push((ps.symbols_requested, ps.symbols_processed, started, returned));
        let s = format!(
            "{t}[{}]{}/{}w{}f{}",
            evs.iter().map(ev_str).collect::<Vec<_>>().join(","),
            ps.symbols_requested,
            ps.symbols_processed,
            flags.iter().map(|f| if f.0.load(Ordering::SeqCst) { '1' } else { '0' }).collect::<String>(),
            out.finished.iter().map(|f| if *f { '1' } else { '0' }).collect::<String>(),
        );
        seen_events = shg.events.len();
        s
    };
    let runnable = |out: &RunOut| -> Vec<usize> {
        (0..n)
            .filter(|&t| flags[t].0.load(Ordering::SeqCst) && !out.finished[t])
            .collect()
    };
    for &x in &c.sched {
        if c.mode == 'a' {
            let e = poll_one(x as usize, &mut futs, &mut out);
            out.trace.push(e);
        } else {
            if out.finished.iter().all(|f| *f) {
                break;
            }
            let r = runnable(&out);
            if r.is_empty() {
                out.trace.push("stall".into());
                out.stalled = true;
                break;
            }
            let t = r[(x as usize) % r.len()];
            let e = poll_one(t, &mut futs, &mut out);
            out.trace.push(e);
        }
    }
    // completion phase (not part of the compared trace): every fair continuation must finish
    let mut budget = 20_000usize;
    while !out.finished.iter().all(|f| *f) && budget > 0 && !out.stalled {
        let todo: Vec<usize> = if c.mode == 'a' {
            (0..n).filter(|&t| !out.finished[t]).collect()
        } else {
            let r = runnable(&out);
            if r.is_empty() {
                out.stalled = true;
                break;
            }
            r
        };
        for t in todo {
            if !out.finished[t] {
                let _ = poll_one(t, &mut futs, &mut out);
                budget = budget.saturating_sub(1);
            }
        }
    }
    drop(poll_one);
    let shg = sh.lock().unwrap();
    out.summary = summary(c, &sym, &shg, &out.finished);
    out.events = shg.events.clone();
    out.calls = shg.calls.clone();
    drop(shg);
    drop(futs);
    out
}

/// mode `j`: `join_all` on a tokio runtime; a timeout turns a hang into a report
fn run_join_all(c: &Case) -> RunOut {
    let n = c.progs.len();
    let sh = Arc::new(Mutex::new(Shared::default()));
    let sym = Symbolizer::new(Mock { variant: c.variant, table: c.sup.clone(), sh: sh.clone() });
    let rt = tokio::runtime::Builder::new_current_thread().enable_time().build().unwrap();
    let done = rt.block_on(async {
        let futs = (0..n).map(|t| task_body(&sym, c.variant, t, &c.progs[t], &sh));
        tokio::time::timeout(std::time::Duration::from_secs(10), futures_util::future::join_all(futs))
            .await
            .is_ok()
    });
    let shg = sh.lock().unwrap();
    let finished = vec![done; n];
    let ps = sym.pending_stats();
    let started = shg.events.iter().filter(|e| matches!(e, Ev::Call(_))).count() as u64;
    let returned = shg.events.iter().filter(|e| matches!(e, Ev::Ret(_))).count() as u64;
    RunOut {
        trace: vec![],
        summary: summary(c, &sym, &shg, &finished),
        events: shg.events.clone(),
        calls: shg.calls.clone(),
        counters: vec![(ps.symbols_requested, ps.symbols_processed, started, returned)],
        finished,
        stalled: !done,
        blocked_polls: 0,
        polls: 0,
    }
}

/// the property's oracle, on the implementation's behaviour alone
fn oracle(c: &Case, r: &RunOut) -> Vec<(String, String)> {
    let mut o = vec![];
    let distinct: BTreeSet<u64> = c.progs.iter().flatten().map(|(k, _)| *k).collect();
    // (1) the supplier is asked at most once per distinct module
    for (k, n) in &r.calls {
        if *n > 1 {
            o.push(("supplier-called-twice".into(), format!("locate_symbols called {n} times for module key {k}")));
        }
    }
    // (2) every requester of a module observes the same outcome (incl. a remembered failure),
    //     and it is the outcome the supplier gave
    let mut per_key: BTreeMap<u64, Vec<(usize, Res, Option<String>)>> = BTreeMap::new();
    for e in &r.events {
        if let Ev::Seen(t, k, res, inst) = e {
            per_key.entry(*k).or_default().push((*t, *res, inst.clone()));
        }
    }
    for (k, v) in &per_key {
        if let Some(first) = v.first() {
            if let Some(other) = v.iter().find(|x| x.1 != first.1 || x.2 != first.2) {
                o.push((
                    "outcomes-disagree".into(),
                    format!("module key {k}: task {} saw {}{:?} but task {} saw {}{:?}", first.0, first.1.s(), first.2, other.0, other.1.s(), other.2),
                ));
            }
        }
        let want = c.sup[k].1;
        if let Some(bad) = v.iter().find(|x| x.1 != want) {
            o.push((
                "wrong-outcome".into(),
                format!("module key {k}: supplier answered {} but task {} observed {}", want.s(), bad.0, bad.1.s()),
            ));
        }
    }
    // (3) counters: processed <= requested <= #distinct modules at every poll; both equal the
    //     number of distinct modules at the end
    for (i, (rq, pr, _, _)) in r.counters.iter().enumerate() {
        if !(pr <= rq && *rq <= distinct.len() as u64) {
            o.push(("counters-out-of-order".into(), format!("after poll #{i}: requested={rq} processed={pr} distinct modules={}", distinct.len())));
            break;
        }
    }
    //     and they mean what their documentation says: requested = supplier lookups started,
    //     processed = supplier lookups finished ("the number of symbols we have finished processing")
    for (i, (rq, pr, st, rt)) in r.counters.iter().enumerate() {
        if rq != st || pr != rt {
            o.push(("counters-vs-supplier".into(), format!("after poll #{i}: requested={rq} processed={pr} but the supplier has started {st} and finished {rt} lookups")));
            break;
        }
    }
    // (4) no request is lost or deadlocks
    if r.stalled || !r.finished.iter().all(|f| *f) {
        let class = if c.mode == 'a' { "deadlock" } else { "lost-wakeup-or-hang" };
        o.push((class.into(), format!("tasks finished: {:?} (stalled={})", r.finished, r.stalled)));
    } else {
        if let Some((rq, pr, _, _)) = r.counters.last() {
            if *rq != distinct.len() as u64 || *pr != distinct.len() as u64 {
                o.push(("final-counters".into(), format!("all tasks finished: requested={rq} processed={pr} distinct modules={}", distinct.len())));
            }
        }
        for (t, prog) in c.progs.iter().enumerate() {
            let got: Vec<u64> = r
                .events
                .iter()
                .filter_map(|e| match e {
                    Ev::Seen(t2, k, _, _) if *t2 == t => Some(*k),
                    _ => None,
                })
                .collect();
            let want: Vec<u64> = prog.iter().map(|(k, _)| *k).collect();
            if got != want {
                o.push(("request-lost".into(), format!("task {t} asked for {want:?} but got answers for {got:?}")));
            }
        }
    }
    o
}

fn fmt_cfg(progs: &[Vec<(u64, bool)>], sup: &BTreeMap<u64, (u32, Res)>, mode: char, sched: Vec<u64>) -> String {
    // the identity variant is a function of the case (so that the exhaustive enumeration stays what it
    // is and every variant is exercised): 'C' needs nothing; I/F/D share the code file, hence the
    // statistics entry, so they are used only when no outcome is a parse error
    let mut h: u64 = 0xcbf29ce484222325;
    for p in progs {
        for (k, w) in p {
            h = (h ^ (k * 2 + *w as u64 + 1)).wrapping_mul(0x100000001b3);
        }
        h = (h ^ 0xff).wrapping_mul(0x100000001b3);
    }
    for x in &sched {
        h = (h ^ (x + 7)).wrapping_mul(0x100000001b3);
    }
    let no_pe = sup.values().all(|(_, r)| *r != Res::Pe);
    let variant = match (h >> 20) % 8 {
        0 | 1 => 'C',
        2 if no_pe => 'I',
        3 if no_pe => 'F',
        4 if no_pe => 'D',
        _ => '0',
    };
    render(&Case { mode, variant, progs: progs.to_vec(), sup: sup.clone(), sched })
}

/// schedule length for the exhaustive part: enough polls for a completion plus slack
fn sched_len(progs: &[Vec<(u64, bool)>], sup: &BTreeMap<u64, (u32, Res)>, slack: usize, cap: usize) -> usize {
    let lookups: usize = progs.iter().map(|p| p.len()).sum();
    let keys: BTreeSet<u64> = progs.iter().flatten().map(|(k, _)| *k).collect();
    let delays: usize = keys.iter().map(|k| sup[k].0 as usize).sum();
    (lookups + delays + slack).min(cap)
}

fn all_seqs(n: u64, len: usize, f: &mut dyn FnMut(&[u64])) {
    let mut cur = vec![0u64; len];
    loop {
        f(&cur);
        let mut i = len;
        loop {
            if i == 0 {
                return;
            }
            i -= 1;
            cur[i] += 1;
            if cur[i] < n {
                break;
            }
            cur[i] = 0;
        }
    }
}


// =====================================================================================================
// request-level cases:  `once req x:<a|w|j|m> mods:.. provs:.. tasks:.. sym:.. file:.. sched:..`
//   (format: see MdModel/Once.lean). Every provider is ONE real `Symbolizer` around a mock supplier,
//   seen through a transparent `Spy` (a `SymbolProvider` that delegates and logs what came back);
//   with `provs:U` the task talks to that provider directly, otherwise to a real
//   `MultiSymbolProvider` holding the providers in order.
// =====================================================================================================

use minidump_unwind::{MultiSymbolProvider, SymbolProvider, SymbolStats};

/// the component value that is spelled as the empty string / the nil debug id
const EMPTY: u64 = 999;

#[derive(Clone, Debug, PartialEq, Eq, PartialOrd, Ord)]
enum Cf {
    Absent,
    Empty,
    Path(u64, u64),
}

#[derive(Clone, Debug, PartialEq, Eq, PartialOrd, Ord)]
struct ModSpec {
    cf: Cf,
    ci: Option<u64>,
    df: Option<u64>,
    di: Option<u64>,
}

fn opt_num(s: &str) -> Option<Option<u64>> {
    if s == "n" {
        Some(None)
    } else {
        s.parse().ok().map(Some)
    }
}
fn show_opt(o: &Option<u64>) -> String {
    match o {
        None => "n".into(),
        Some(n) => n.to_string(),
    }
}

impl ModSpec {
    fn parse(s: &str) -> Option<ModSpec> {
        let f: Vec<&str> = s.split('.').collect();
        if f.len() != 4 {
            return None;
        }
        let cf = match f[0] {
            "a" => Cf::Absent,
            "e" => Cf::Empty,
            x => {
                let (d, l) = x.split_once('_')?;
                Cf::Path(d.parse().ok()?, l.parse().ok()?)
            }
        };
        Some(ModSpec { cf, ci: opt_num(f[1])?, df: opt_num(f[2])?, di: opt_num(f[3])? })
    }
    fn show(&self) -> String {
        let cf = match &self.cf {
            Cf::Absent => "a".to_string(),
            Cf::Empty => "e".to_string(),
            Cf::Path(d, l) => format!("{d}_{l}"),
        };
        format!("{cf}.{}.{}.{}", show_opt(&self.ci), show_opt(&self.df), show_opt(&self.di))
    }
    /// the identity of the module as the PROPERTY reads it: code file (a string: none = ""), code id,
    /// debug file, debug id. Two requests are for the same module iff these four agree.
    fn ident(&self) -> (String, Option<u64>, Option<u64>, Option<u64>) {
        (self.code_file_str(), self.ci, self.df, self.di)
    }
    fn code_file_str(&self) -> String {
        match &self.cf {
            Cf::Absent | Cf::Empty => String::new(),
            Cf::Path(d, l) => format!("/d{d}/m{l}.so"),
        }
    }
    fn leaf(&self) -> String {
        match &self.cf {
            Cf::Absent | Cf::Empty => String::new(),
            Cf::Path(_, l) => format!("m{l}.so"),
        }
    }
    fn build(&self, version: Option<String>) -> SimpleModule {
        SimpleModule {
            base_address: None,
            size: None,
            code_file: match &self.cf {
                Cf::Absent => None,
                Cf::Empty => Some(String::new()),
                Cf::Path(..) => Some(self.code_file_str()),
            },
            // the value 999 stands for the EMPTY spelling of a component (present, but "" / the nil id): a
            // module with an empty component is not the module without it
            code_identifier: self.ci.map(|n| debugid::CodeId::new(if n == EMPTY { String::new() } else { format!("C0DE{n:04X}") })),
            debug_file: self.df.map(|n| if n == EMPTY { String::new() } else { format!("m{n}.dbg") }),
            debug_id: self.di.map(|n| {
                if n == EMPTY {
                    debugid::DebugId::nil()
                } else {
                    debugid::DebugId::from_str(&format!("abcd1234-abcd-1234-abcd-abcd{:08x}-a", n)).unwrap()
                }
            }),
            version,
        }
    }
}

#[derive(Clone, Copy, Debug, PartialEq, Eq)]
enum Rk {
    Fill,
    Walk,
    File(u8),
}
#[derive(Clone, Copy, Debug, PartialEq, Eq)]
struct Rq {
    kind: Rk,
    m: usize,
}
fn parse_rq(s: &str) -> Option<Rq> {
    let (c, rest) = s.split_at(1.min(s.len()));
    match c {
        "f" => Some(Rq { kind: Rk::Fill, m: rest.parse().ok()? }),
        "w" => Some(Rq { kind: Rk::Walk, m: rest.parse().ok()? }),
        "g" => {
            let (fk, m) = rest.split_once('_')?;
            let fk: u8 = fk.parse().ok()?;
            if fk >= 3 {
                return None;
            }
            Some(Rq { kind: Rk::File(fk), m: m.parse().ok()? })
        }
        _ => None,
    }
}
fn show_rq(r: &Rq) -> String {
    match r.kind {
        Rk::Fill => format!("f{}", r.m),
        Rk::Walk => format!("w{}", r.m),
        Rk::File(fk) => format!("g{fk}_{}", r.m),
    }
}
fn parse_progs(s: &str) -> Option<Vec<Vec<Rq>>> {
    let mut progs = vec![];
    for p in s.split(';') {
        let mut prog = vec![];
        if p != "-" {
            for r in p.split(',') {
                prog.push(parse_rq(r)?);
            }
        }
        progs.push(prog);
    }
    Some(progs)
}
fn show_progs(progs: &[Vec<Rq>]) -> String {
    progs
        .iter()
        .map(|p| if p.is_empty() { "-".to_string() } else { p.iter().map(show_rq).collect::<Vec<_>>().join(",") })
        .collect::<Vec<_>>()
        .join(";")
}
fn file_kind(fk: u8) -> FileKind {
    match fk {
        0 => FileKind::BreakpadSym,
        1 => FileKind::Binary,
        _ => FileKind::ExtraDebugInfo,
    }
}
fn kind_ix(k: FileKind) -> u8 {
    match k {
        FileKind::BreakpadSym => 0,
        FileKind::Binary => 1,
        FileKind::ExtraDebugInfo => 2,
    }
}

/// outcome of `locate_symbols` in the supplier table
#[derive(Clone, Copy, Debug, PartialEq, Eq)]
enum SRes {
    Ok, // symbols with CFI at the walked address
    On, // symbols without CFI
    Nf,
    Pe,
}
impl SRes {
    fn s(self) -> &'static str {
        match self {
            SRes::Ok => "ok",
            SRes::On => "on",
            SRes::Nf => "nf",
            SRes::Pe => "pe",
        }
    }
    fn class(self) -> Res {
        match self {
            SRes::Ok | SRes::On => Res::Ok,
            SRes::Nf => Res::Nf,
            SRes::Pe => Res::Pe,
        }
    }
}

#[derive(Clone, Debug)]
struct RCase {
    mode: char,
    /// one letter per provider (`u`), or `U` (one provider, no MultiSymbolProvider), or empty
    provs: String,
    mods: Vec<ModSpec>,
    progs: Vec<Vec<Rq>>,
    sym: BTreeMap<(usize, usize), (u32, SRes)>,
    file: BTreeMap<(usize, usize, u8), (u32, bool)>,
    sched: Vec<u64>,
}

impl RCase {
    fn nprov(&self) -> usize {
        self.provs.len()
    }
    fn bare(&self) -> bool {
        self.provs == "U"
    }
    /// name of the module's key: index of the first module of the table with the same identity
    fn key(&self, m: usize) -> usize {
        let id = self.mods[m].ident();
        self.mods.iter().position(|x| x.ident() == id).unwrap()
    }
    /// does another key of the table have the same statistics key (code file leaf name)?
    fn leaf_shared(&self, k: usize) -> bool {
        (0..self.mods.len()).any(|j| self.key(j) == j && j != k && self.mods[j].leaf() == self.mods[k].leaf())
    }
}

fn parse_rcase(case: &str) -> Option<RCase> {
    let f: Vec<&str> = case.split(' ').filter(|s| !s.is_empty()).collect();
    if f.len() != 9 || f[0] != "once" || f[1] != "req" {
        return None;
    }
    let mode = match f[2].strip_prefix("x:")? {
        "a" => 'a',
        "w" => 'w',
        "j" => 'j',
        "m" => 'm',
        _ => return None,
    };
    let mods: Vec<ModSpec> = f[3].strip_prefix("mods:")?.split(';').map(ModSpec::parse).collect::<Option<_>>()?;
    let provs = match f[4].strip_prefix("provs:")? {
        "-" => String::new(),
        "U" => "U".to_string(),
        x if x.chars().all(|c| c == 'u') => x.to_string(),
        _ => return None, // a caching supplier exists only as HttpSymbolSupplier: `once http`
    };
    let progs = parse_progs(f[5].strip_prefix("tasks:")?)?;
    let mut sym = BTreeMap::new();
    let st = f[6].strip_prefix("sym:")?;
    if st != "-" {
        for e in st.split(',') {
            let (pk, v) = e.split_once('=')?;
            let (p, k) = pk.split_once('.')?;
            let (d, r) = v.split_once(':')?;
            let r = match r {
                "ok" => SRes::Ok,
                "on" => SRes::On,
                "nf" => SRes::Nf,
                "pe" => SRes::Pe,
                _ => return None,
            };
            sym.insert((p.parse().ok()?, k.parse().ok()?), (d.parse().ok()?, r));
        }
    }
    let mut file = BTreeMap::new();
    let ft = f[7].strip_prefix("file:")?;
    if ft != "-" {
        for e in ft.split(',') {
            let (pk, v) = e.split_once('=')?;
            let mut it = pk.split('.');
            let (p, k, fk) = (it.next()?, it.next()?, it.next()?);
            if it.next().is_some() {
                return None;
            }
            let (d, r) = v.split_once(':')?;
            let r = match r {
                "ok" => true,
                "nf" => false,
                _ => return None,
            };
            file.insert((p.parse().ok()?, k.parse().ok()?, fk.parse().ok()?), (d.parse().ok()?, r));
        }
    }
    let s = f[8].strip_prefix("sched:")?;
    let sched = if s == "-" { vec![] } else { s.split(',').map(|x| x.parse().ok()).collect::<Option<Vec<u64>>>()? };
    let c = RCase { mode, provs, mods, progs, sym, file, sched };
    for q in c.progs.iter().flatten() {
        if q.m >= c.mods.len() {
            return None;
        }
        for p in 0..c.nprov() {
            let ok = match q.kind {
                Rk::File(fk) => c.file.contains_key(&(p, c.key(q.m), fk)),
                _ => c.sym.contains_key(&(p, c.key(q.m))),
            };
            if !ok {
                return None;
            }
        }
    }
    if (mode == 'j' || mode == 'm') && !c.sched.is_empty() {
        return None;
    }
    Some(c)
}

fn render_rcase(c: &RCase) -> String {
    let sym = if c.sym.is_empty() {
        "-".to_string()
    } else {
        c.sym.iter().map(|((p, k), (d, r))| format!("{p}.{k}={d}:{}", r.s())).collect::<Vec<_>>().join(",")
    };
    let file = if c.file.is_empty() {
        "-".to_string()
    } else {
        c.file
            .iter()
            .map(|((p, k, fk), (d, r))| format!("{p}.{k}.{fk}={d}:{}", if *r { "ok" } else { "nf" }))
            .collect::<Vec<_>>()
            .join(",")
    };
    let sched = if c.sched.is_empty() { "-".to_string() } else { c.sched.iter().map(|x| x.to_string()).collect::<Vec<_>>().join(",") };
    format!(
        "once req x:{} mods:{} provs:{} tasks:{} sym:{sym} file:{file} sched:{sched}",
        c.mode,
        c.mods.iter().map(|m| m.show()).collect::<Vec<_>>().join(";"),
        if c.provs.is_empty() { "-" } else { &c.provs },
        show_progs(&c.progs),
    )
}

#[derive(Clone, Debug, PartialEq)]
enum REv {
    Call(usize, usize),
    Ret(usize, usize),
    FCall(usize, usize, u8),
    FRet(usize, usize, u8),
    /// request (t, j) got an answer from provider p for key k (file kind fk): class, and which supplier
    /// call instance it was served from
    Seen { t: usize, j: usize, p: usize, k: usize, fk: Option<u8>, res: Res, inst: Option<String> },
    Out { t: usize, j: usize, out: String },
}

#[derive(Default)]
struct RShared {
    events: Vec<REv>,
    calls: BTreeMap<(usize, usize), usize>,
    fcalls: BTreeMap<(usize, usize, u8), usize>,
}

struct RCtx {
    c: RCase,
    built: Vec<SimpleModule>,
    sh: Mutex<RShared>,
    /// busy-wait inside a suspended supplier call (multi-thread mode: keeps the lock held long enough for
    /// other workers to run into it)
    spin_us: u64,
}

impl RCtx {
    fn key_of(&self, module: &(dyn Module + Sync)) -> usize {
        for (i, b) in self.built.iter().enumerate() {
            if b.code_file() == module.code_file()
                && b.code_identifier() == module.code_identifier()
                && b.debug_file() == module.debug_file()
                && b.debug_identifier() == module.debug_identifier()
            {
                return i;
            }
        }
        panic!("mock: unknown module {:?}", module.code_file());
    }
}

fn tag_of(module: &(dyn Module + Sync)) -> (usize, usize) {
    let v = module.version().map(|v| v.to_string()).unwrap_or_default();
    let v = v.strip_prefix('t').unwrap_or("0j0");
    let (t, j) = v.split_once('j').unwrap_or(("0", "0"));
    (t.parse().unwrap_or(0), j.parse().unwrap_or(0))
}

struct RMock {
    p: usize,
    cx: Arc<RCtx>,
}

async fn suspend(cx: &RCtx, n: u32) {
    for _ in 0..n {
        if cx.spin_us > 0 {
            let t0 = std::time::Instant::now();
            while t0.elapsed() < std::time::Duration::from_micros(cx.spin_us) {
                std::hint::spin_loop();
            }
        }
        YieldOnce(false).await;
    }
}

#[async_trait]
impl SymbolSupplier for RMock {
    async fn locate_symbols(&self, module: &(dyn Module + Sync)) -> Result<LocateSymbolsResult, SymbolError> {
        let (p, k) = (self.p, self.cx.key_of(module));
        // (a module no fill/walk request names has no table entry: the oracle reports the call)
        let (delay, res) = self.cx.c.sym.get(&(p, k)).copied().unwrap_or((0, SRes::Nf));
        let inst = {
            let mut sh = self.cx.sh.lock().unwrap();
            sh.events.push(REv::Call(p, k));
            let c = sh.calls.entry((p, k)).or_insert(0);
            *c += 1;
            *c
        };
        suspend(&self.cx, delay).await;
        self.cx.sh.lock().unwrap().events.push(REv::Ret(p, k));
        match res {
            SRes::Ok | SRes::On => {
                let mut text = format!("MODULE Linux x86 000000000000000000000000000000000 m{k}\nFUNC 1000 100 0 fn_p{p}_k{k}_call{inst}\n");
                if res == SRes::Ok {
                    text.push_str(&format!("STACK CFI INIT 1000 100 .cfa: {} .ra: 8192\n", 4096 + p * 64 + inst));
                }
                Ok(LocateSymbolsResult { symbols: SymbolFile::from_bytes(text.as_bytes())?, extra_debug_info: None })
            }
            SRes::Nf => Err(SymbolError::NotFound),
            SRes::Pe => match SymbolFile::from_bytes(b"MODULE Linux x86 0 m\nthis is not a record\n") {
                Err(e) => Err(e),
                Ok(_) => panic!("mock: garbage parsed"),
            },
        }
    }

    async fn locate_file(&self, module: &(dyn Module + Sync), file_kind: FileKind) -> Result<PathBuf, FileError> {
        let (p, k, fk) = (self.p, self.cx.key_of(module), kind_ix(file_kind));
        let (delay, ok) = self.cx.c.file.get(&(p, k, fk)).copied().unwrap_or((0, false));
        let inst = {
            let mut sh = self.cx.sh.lock().unwrap();
            sh.events.push(REv::FCall(p, k, fk));
            let c = sh.fcalls.entry((p, k, fk)).or_insert(0);
            *c += 1;
            *c
        };
        suspend(&self.cx, delay).await;
        self.cx.sh.lock().unwrap().events.push(REv::FRet(p, k, fk));
        if ok {
            Ok(PathBuf::from(format!("/p{p}/k{k}/f{fk}/call{inst}")))
        } else {
            Err(FileError::NotFound)
        }
    }
}

/// records what the provider wrote into the caller's frame
struct RecFrame<'a> {
    inner: &'a mut (dyn breakpad_symbols::FrameSymbolizer + Send),
    name: Option<String>,
}
impl breakpad_symbols::FrameSymbolizer for RecFrame<'_> {
    fn get_instruction(&self) -> u64 {
        self.inner.get_instruction()
    }
    fn set_function(&mut self, name: &str, base: u64, parameter_size: u32) {
        self.name = Some(name.to_string());
        self.inner.set_function(name, base, parameter_size)
    }
    fn set_source_file(&mut self, file: &str, line: u32, base: u64) {
        self.inner.set_source_file(file, line, base)
    }
    fn add_inline_frame(&mut self, name: &str, file: Option<&str>, line: Option<u32>) {
        self.inner.add_inline_frame(name, file, line)
    }
}
struct RecWalker<'a> {
    inner: &'a mut (dyn FrameWalker + Send),
    cfa: Option<u64>,
}
impl FrameWalker for RecWalker<'_> {
    fn get_instruction(&self) -> u64 {
        self.inner.get_instruction()
    }
    fn has_grand_callee(&self) -> bool {
        self.inner.has_grand_callee()
    }
    fn get_grand_callee_parameter_size(&self) -> u32 {
        self.inner.get_grand_callee_parameter_size()
    }
    fn get_register_at_address(&self, address: u64) -> Option<u64> {
        self.inner.get_register_at_address(address)
    }
    fn get_callee_register(&self, name: &str) -> Option<u64> {
        self.inner.get_callee_register(name)
    }
    fn set_caller_register(&mut self, name: &str, val: u64) -> Option<()> {
        self.inner.set_caller_register(name, val)
    }
    fn clear_caller_register(&mut self, name: &str) {
        self.inner.clear_caller_register(name)
    }
    fn set_cfa(&mut self, val: u64) -> Option<()> {
        self.cfa = Some(val);
        self.inner.set_cfa(val)
    }
    fn set_ra(&mut self, val: u64) -> Option<()> {
        self.inner.set_ra(val)
    }
}

/// provider `p` as the MultiSymbolProvider (or the task) sees it: the real Symbolizer, plus a log
struct Spy {
    p: usize,
    sym: Arc<Symbolizer>,
    cx: Arc<RCtx>,
}

impl Spy {
    /// the remembered failure, as far as the public API shows it: the statistics are keyed by the code
    /// file's leaf name, which tells the keys apart only when no other key has that leaf
    fn failure_class(&self, k: usize) -> Res {
        if self.cx.c.leaf_shared(k) {
            return Res::Nf;
        }
        match self.sym.stats().get(&self.cx.c.mods[k].leaf()) {
            Some(s) if s.loaded_symbols && s.corrupt_symbols => Res::Pe,
            Some(s) if s.loaded_symbols => Res::Ok,
            _ => Res::Nf,
        }
    }
}

#[async_trait]
impl SymbolProvider for Spy {
    async fn fill_symbol(
        &self,
        module: &(dyn Module + Sync),
        frame: &mut (dyn breakpad_symbols::FrameSymbolizer + Send),
    ) -> Result<(), breakpad_symbols::FillSymbolError> {
        let (t, j) = tag_of(module);
        let k = self.cx.key_of(module);
        let mut rec = RecFrame { inner: frame, name: None };
        let r = self.sym.fill_symbol(module, &mut rec).await;
        let (res, inst) = match &r {
            Ok(()) => (
                Res::Ok,
                Some(rec.name.clone().unwrap_or_default().trim_start_matches(&format!("fn_p{}_k{k}_", self.p)).to_string()),
            ),
            Err(_) => (self.failure_class(k), None),
        };
        self.cx.sh.lock().unwrap().events.push(REv::Seen { t, j, p: self.p, k, fk: None, res, inst });
        r
    }
    async fn walk_frame(&self, module: &(dyn Module + Sync), walker: &mut (dyn FrameWalker + Send)) -> Option<()> {
        let (t, j) = tag_of(module);
        let k = self.cx.key_of(module);
        let mut rec = RecWalker { inner: walker, cfa: None };
        let r = self.sym.walk_frame(module, &mut rec).await;
        let (res, inst) = match &r {
            Some(()) => (Res::Ok, Some(format!("call{}", rec.cfa.unwrap_or(0).wrapping_sub(4096 + 64 * self.p as u64)))),
            None => (self.failure_class(k), None),
        };
        self.cx.sh.lock().unwrap().events.push(REv::Seen { t, j, p: self.p, k, fk: None, res, inst });
        r
    }
    async fn get_file_path(&self, module: &(dyn Module + Sync), file_kind: FileKind) -> Result<PathBuf, FileError> {
        let (t, j) = tag_of(module);
        let k = self.cx.key_of(module);
        let fk = kind_ix(file_kind);
        let r = self.sym.get_file_path(module, file_kind).await;
        let (res, inst) = match &r {
            Ok(path) => (
                Res::Ok,
                Some(path.to_string_lossy().trim_start_matches(&format!("/p{}/k{k}/f{fk}/", self.p)).to_string()),
            ),
            Err(_) => (Res::Nf, None),
        };
        self.cx.sh.lock().unwrap().events.push(REv::Seen { t, j, p: self.p, k, fk: Some(fk), res, inst });
        r
    }
    fn stats(&self) -> std::collections::HashMap<String, SymbolStats> {
        self.sym.stats()
    }
    fn pending_stats(&self) -> breakpad_symbols::PendingSymbolStats {
        self.sym.pending_stats()
    }
}

struct RWorld {
    cx: Arc<RCtx>,
    syms: Vec<Arc<Symbolizer>>,
    top: Arc<dyn SymbolProvider + Send + Sync>,
}

fn build_world(c: &RCase, spin_us: u64) -> RWorld {
    let built = c.mods.iter().map(|m| m.build(None)).collect();
    let cx = Arc::new(RCtx { c: c.clone(), built, sh: Mutex::new(RShared::default()), spin_us });
    let syms: Vec<Arc<Symbolizer>> = (0..c.nprov()).map(|p| Arc::new(Symbolizer::new(RMock { p, cx: cx.clone() }))).collect();
    let top: Arc<dyn SymbolProvider + Send + Sync> = if c.bare() {
        Arc::new(Spy { p: 0, sym: syms[0].clone(), cx: cx.clone() })
    } else {
        let mut multi = MultiSymbolProvider::new();
        for (p, s) in syms.iter().enumerate() {
            multi.add(Box::new(Spy { p, sym: s.clone(), cx: cx.clone() }));
        }
        Arc::new(multi)
    };
    RWorld { cx, syms, top }
}

/// which provider's write a name / cfa / path shows
fn prov_of(s: &str, prefix: &str) -> String {
    s.strip_prefix(prefix)
        .map(|r| r.chars().take_while(|c| c.is_ascii_digit()).collect::<String>())
        .filter(|d| !d.is_empty())
        .unwrap_or_else(|| "?".to_string())
}

async fn rtask_body(top: Arc<dyn SymbolProvider + Send + Sync>, cx: Arc<RCtx>, t: usize) {
    let prog = cx.c.progs[t].clone();
    for (j, rq) in prog.iter().enumerate() {
        // a fresh, equal-by-value module every time; its version (not part of the identity) carries (t, j)
        let m = cx.c.mods[rq.m].build(Some(format!("t{t}j{j}")));
        let out = match rq.kind {
            Rk::Fill => {
                let mut f = SimpleFrame::with_instruction(0x1010);
                match top.fill_symbol(&m, &mut f).await {
                    Ok(()) => format!("F{}", prov_of(&f.function.unwrap_or_default(), "fn_p")),
                    Err(_) => "F-".to_string(),
                }
            }
            Rk::Walk => {
                let mut w = Walker::default();
                match top.walk_frame(&m, &mut w).await {
                    Some(()) => format!("W{}", w.cfa.unwrap_or(0).wrapping_sub(4096) / 64),
                    None => "W-".to_string(),
                }
            }
            Rk::File(fk) => match top.get_file_path(&m, file_kind(fk)).await {
                Ok(p) => format!("P{}", prov_of(&p.to_string_lossy(), "/p")),
                Err(_) => "P-".to_string(),
            },
        };
        cx.sh.lock().unwrap().events.push(REv::Out { t, j, out });
    }
}

fn rev_str(e: &REv) -> Option<String> {
    Some(match e {
        REv::Call(p, k) => format!("c{p}.{k}"),
        REv::Ret(p, k) => format!("r{p}.{k}"),
        REv::FCall(p, k, fk) => format!("C{p}.{k}.{fk}"),
        REv::FRet(p, k, fk) => format!("R{p}.{k}.{fk}"),
        REv::Seen { t, p, k, fk: None, res, .. } => format!("s{t}.{p}.{k}={}", res.s()),
        REv::Seen { t, p, k, fk: Some(fk), res, .. } => format!("S{t}.{p}.{k}.{fk}={}", res.s()),
        REv::Out { .. } => return None,
    })
}

fn stat_class(s: &SymbolStats) -> &'static str {
    if s.loaded_symbols && s.corrupt_symbols {
        "pe"
    } else if s.loaded_symbols {
        "ok"
    } else {
        "nf"
    }
}

/// canonical rendering of a statistics map: keys are leaf names `m<l>.so` (printed `<l>`) or `` (`-`)
fn stats_str(m: &std::collections::HashMap<String, SymbolStats>) -> String {
    let mut v: Vec<(i64, String)> = m
        .iter()
        .map(|(k, s)| {
            let (ord, name) = if k.is_empty() {
                (-1, "-".to_string())
            } else {
                match k.strip_prefix('m').and_then(|r| r.strip_suffix(".so")).and_then(|d| d.parse::<i64>().ok()) {
                    Some(n) => (n, n.to_string()),
                    None => (i64::MAX, format!("?{k}")),
                }
            };
            (ord, format!("{name}={}", stat_class(s)))
        })
        .collect();
    v.sort();
    v.into_iter().map(|x| x.1).collect::<Vec<_>>().join(",")
}

fn pend_str(w: &RWorld) -> String {
    let per: Vec<String> = w
        .syms
        .iter()
        .map(|s| {
            let ps = s.pending_stats();
            format!("{}/{}", ps.symbols_requested, ps.symbols_processed)
        })
        .collect();
    let m = w.top.pending_stats();
    format!("{}m{}/{}", per.join(","), m.symbols_requested, m.symbols_processed)
}

struct RRunOut {
    trace: Vec<String>,
    summary: String,
    events: Vec<REv>,
    calls: BTreeMap<(usize, usize), usize>,
    /// per poll, per provider: (requested, processed, supplier calls started, returned)
    counters: Vec<Vec<(u64, u64, u64, u64)>>,
    finished: Vec<bool>,
    stalled: bool,
    blocked_polls: usize,
    stats: Vec<std::collections::HashMap<String, SymbolStats>>,
    /// violations of the statistics invariant seen after some poll
    stats_findings: Vec<String>,
}

fn counters_now(w: &RWorld, sh: &RShared) -> Vec<(u64, u64, u64, u64)> {
    w.syms
        .iter()
        .enumerate()
        .map(|(p, s)| {
            let ps = s.pending_stats();
            let st = sh.events.iter().filter(|e| matches!(e, REv::Call(q, _) if *q == p)).count() as u64;
            let rt = sh.events.iter().filter(|e| matches!(e, REv::Ret(q, _) if *q == p)).count() as u64;
            (ps.symbols_requested, ps.symbols_processed, st, rt)
        })
        .collect()
}

fn rsummary(w: &RWorld, sh: &RShared, finished: &[bool]) -> String {
    let c = &w.cx.c;
    let calls = sh.calls.iter().filter(|(_, n)| **n > 0).map(|((p, k), n)| format!("{p}.{k}x{n}")).collect::<Vec<_>>().join(",");
    let fcalls = sh.fcalls.iter().filter(|(_, n)| **n > 0).map(|((p, k, fk), n)| format!("{p}.{k}.{fk}x{n}")).collect::<Vec<_>>().join(",");
    let outs = (0..c.progs.len())
        .map(|t| {
            format!(
                "{t}:{}",
                sh.events
                    .iter()
                    .filter_map(|e| match e {
                        REv::Out { t: t2, out, .. } if *t2 == t => Some(out.clone()),
                        _ => None,
                    })
                    .collect::<Vec<_>>()
                    .join(",")
            )
        })
        .collect::<Vec<_>>()
        .join(";");
    let stats = w.syms.iter().enumerate().map(|(p, s)| format!("{p}:{}", stats_str(&s.stats()))).collect::<Vec<_>>().join(";");
    format!(
        "final fin={} pend={} calls:{calls} fcalls:{fcalls} outs:{outs} stats:{stats} mstats:{}",
        if finished.iter().all(|f| *f) { 1 } else { 0 },
        pend_str(w),
        stats_str(&w.top.stats()),
    )
}

/// modes `a` and `w`
fn rrun_scheduled(c: &RCase) -> RRunOut {
    let n = c.progs.len();
    let w = build_world(c, 0);
    let flags: Vec<Arc<Flag>> = (0..n).map(|_| Arc::new(Flag(AtomicBool::new(true)))).collect();
    let wakers: Vec<Waker> = flags.iter().map(|f| Waker::from(f.clone())).collect();
    let mut futs: Vec<Option<Pin<Box<dyn Future<Output = ()>>>>> = Vec::new();
    for t in 0..n {
        futs.push(Some(Box::pin(rtask_body(w.top.clone(), w.cx.clone(), t))));
    }
    let mut out = RRunOut {
        trace: vec![],
        summary: String::new(),
        events: vec![],
        calls: BTreeMap::new(),
        counters: vec![],
        finished: vec![false; n],
        stalled: false,
        blocked_polls: 0,
        stats: vec![],
        stats_findings: vec![],
    };
    let mut seen_events = 0usize;
    let mut last_stats: Vec<String> = vec![String::new(); w.syms.len()];
    let mut poll_one = |t: usize, futs: &mut Vec<Option<Pin<Box<dyn Future<Output = ()>>>>>, out: &mut RRunOut| -> String {
        if t < n {
            if let Some(f) = futs[t].as_mut() {
                flags[t].0.store(false, Ordering::SeqCst);
                let mut cx = Context::from_waker(&wakers[t]);
                if f.as_mut().poll(&mut cx).is_ready() {
                    futs[t] = None;
                    out.finished[t] = true;
                }
            }
        }
        let shg = w.cx.sh.lock().unwrap();
        let evs = &shg.events[seen_events..];
        if t < n && evs.is_empty() && !out.finished[t] && !flags[t].0.load(Ordering::SeqCst) {
            out.blocked_polls += 1;
        }
        out.counters.push(counters_now(&w, &shg));
        // the statistics map of every provider whose map changed during this poll
        let mut stats_delta = String::new();
        for (p, sy) in w.syms.iter().enumerate() {
            let st = sy.stats();
            if out.stats_findings.is_empty() {
                if let Some(f) = stats_check(&w.cx.c, p, &st, &shg.events) {
                    out.stats_findings.push(format!("after poll #{}: {f}", out.counters.len() - 1));
                }
            }
            let now = stats_str(&st);
            if now != last_stats[p] {
                stats_delta.push_str(&format!("S{p}:{now}"));
                last_stats[p] = now;
            }
        }
        let s = format!(
            "{t}[{}|{}]{}{stats_delta}w{}f{}",
            evs.iter().filter_map(rev_str).collect::<Vec<_>>().join(","),
            evs.iter()
                .filter_map(|e| match e {
                    REv::Out { out, .. } => Some(out.clone()),
                    _ => None,
                })
                .collect::<Vec<_>>()
                .join(","),
            pend_str(&w),
            flags.iter().map(|f| if f.0.load(Ordering::SeqCst) { '1' } else { '0' }).collect::<String>(),
            out.finished.iter().map(|f| if *f { '1' } else { '0' }).collect::<String>(),
        );
        seen_events = shg.events.len();
        s
    };
    let runnable = |out: &RRunOut| -> Vec<usize> { (0..n).filter(|&t| flags[t].0.load(Ordering::SeqCst) && !out.finished[t]).collect() };
    for &x in &c.sched {
        if c.mode == 'a' {
            let e = poll_one(x as usize, &mut futs, &mut out);
            out.trace.push(e);
        } else {
            if out.finished.iter().all(|f| *f) {
                break;
            }
            let r = runnable(&out);
            if r.is_empty() {
                out.trace.push("stall".into());
                out.stalled = true;
                break;
            }
            let t = r[(x as usize) % r.len()];
            let e = poll_one(t, &mut futs, &mut out);
            out.trace.push(e);
        }
    }
    let mut budget = 50_000usize;
    while !out.finished.iter().all(|f| *f) && budget > 0 && !out.stalled {
        let todo: Vec<usize> = if c.mode == 'a' {
            (0..n).filter(|&t| !out.finished[t]).collect()
        } else {
            let r = runnable(&out);
            if r.is_empty() {
                out.stalled = true;
                break;
            }
            r
        };
        for t in todo {
            if !out.finished[t] {
                let _ = poll_one(t, &mut futs, &mut out);
                budget = budget.saturating_sub(1);
            }
        }
    }
    drop(poll_one);
    drop(futs);
    let shg = w.cx.sh.lock().unwrap();
    out.summary = rsummary(&w, &shg, &out.finished);
    out.events = shg.events.clone();
    out.calls = shg.calls.clone();
    out.stats = w.syms.iter().map(|s| s.stats()).collect();
    out
}

thread_local! {
    /// one 4-worker runtime per harness thread, reused by all `x:m` cases of that thread
    static MT_RT: std::cell::RefCell<Option<Arc<tokio::runtime::Runtime>>> = const { std::cell::RefCell::new(None) };
}
fn mt_runtime() -> Arc<tokio::runtime::Runtime> {
    MT_RT.with(|r| {
        r.borrow_mut()
            .get_or_insert_with(|| Arc::new(tokio::runtime::Builder::new_multi_thread().worker_threads(4).enable_all().build().unwrap()))
            .clone()
    })
}

/// mode `j`: `join_all` on a current-thread runtime; mode `m`: every task spawned on a multi-thread runtime
/// with 4 workers (genuinely parallel polls)
fn rrun_runtime(c: &RCase) -> RRunOut {
    let n = c.progs.len();
    let w = build_world(c, if c.mode == 'm' { 30 } else { 0 });
    let done = if c.mode == 'j' {
        let rt = tokio::runtime::Builder::new_current_thread().enable_time().build().unwrap();
        rt.block_on(async {
            let futs = (0..n).map(|t| rtask_body(w.top.clone(), w.cx.clone(), t));
            tokio::time::timeout(std::time::Duration::from_secs(10), futures_util::future::join_all(futs)).await.is_ok()
        })
    } else {
        let rt = mt_runtime();
        let handles: Vec<_> = (0..n).map(|t| rt.spawn(rtask_body(w.top.clone(), w.cx.clone(), t))).collect();
        rt.block_on(async {
            tokio::time::timeout(std::time::Duration::from_secs(10), futures_util::future::join_all(handles))
                .await
                .map(|rs| rs.iter().all(|r| r.is_ok()))
                .unwrap_or(false)
        })
    };
    let shg = w.cx.sh.lock().unwrap();
    let finished = vec![done; n];
    RRunOut {
        trace: vec![],
        summary: rsummary(&w, &shg, &finished),
        events: shg.events.clone(),
        calls: shg.calls.clone(),
        counters: vec![counters_now(&w, &shg)],
        finished,
        stalled: !done,
        blocked_polls: 0,
        stats: w.syms.iter().map(|s| s.stats()).collect(),
        stats_findings: vec![],
    }
}

/// `stats()` of provider `p` against the supplier calls that have RETURNED so far: every module whose
/// lookup returned has an entry with its outcome, and there is no entry for anything else
fn stats_check(c: &RCase, p: usize, st: &std::collections::HashMap<String, SymbolStats>, events: &[REv]) -> Option<String> {
    let returned: BTreeSet<usize> = events.iter().filter_map(|e| match e { REv::Ret(q, k) if *q == p => Some(*k), _ => None }).collect();
    for k in &returned {
        if c.leaf_shared(*k) {
            continue;
        }
        let want = c.sym.get(&(p, *k)).map(|v| v.1.class()).unwrap_or(Res::Nf).s();
        let got = st.get(&c.mods[*k].leaf()).map(stat_class).unwrap_or("absent");
        if got != want {
            return Some(format!("provider {p}: stats[{:?}] says {got} but the remembered outcome of module {k} is {want}", c.mods[*k].leaf()));
        }
    }
    let leaves: BTreeSet<String> = returned.iter().map(|k| c.mods[*k].leaf()).collect();
    for key in st.keys() {
        if !leaves.contains(key) {
            return Some(format!("provider {p}: stats has an entry {key:?} although no lookup of a module with that leaf name has returned"));
        }
    }
    None
}


/// the property's oracle on the implementation's behaviour alone. "Module" = identity
/// (code file, code id, debug file, debug id) of the case's module table, not any key of the code.
fn roracle(c: &RCase, r: &RRunOut) -> Vec<(String, String)> {
    let mut o = vec![];
    let np = c.nprov();
    // (1) each provider's supplier is asked at most once per distinct module
    for ((p, k), n) in &r.calls {
        if *n > 1 {
            o.push(("supplier-called-twice".into(), format!("locate_symbols of provider {p} called {n} times for module {} ({})", k, c.mods[*k].show())));
        }
    }
    //     and only for modules somebody asked symbols for (get_file_path does not need them)
    for (p, k) in r.calls.keys() {
        if !c.sym.contains_key(&(*p, *k)) {
            o.push(("supplier-asked-unasked".into(), format!("locate_symbols of provider {p} called for module {k} ({}) although no fill_symbol/walk_frame request names it", c.mods[*k].show())));
        }
    }
    let sym_class = |p: usize, k: usize| c.sym.get(&(p, k)).map(|v| v.1.class()).unwrap_or(Res::Nf);
    // (2) every requester of a module observes the same outcome (incl. a remembered failure): the one
    //     that provider's supplier gave, served from its one call
    let mut per_key: BTreeMap<(usize, usize), Vec<(usize, Res, Option<String>)>> = BTreeMap::new();
    for e in &r.events {
        match e {
            REv::Seen { t, p, k, fk: None, res, inst, .. } => per_key.entry((*p, *k)).or_default().push((*t, *res, inst.clone())),
            REv::Seen { t, p, k, fk: Some(fk), res, .. } => {
                let want = if c.file.get(&(*p, *k, *fk)).map(|v| v.1).unwrap_or(false) { Res::Ok } else { Res::Nf };
                if *res != want {
                    o.push(("wrong-outcome".into(), format!("locate_file({k},{fk}) of provider {p} answered {} but task {t} observed {}", want.s(), res.s())));
                }
            }
            _ => {}
        }
    }
    for ((p, k), v) in &per_key {
        if let Some(first) = v.first() {
            // a walk_frame through symbols without CFI observes `None` although the symbols are there: only
            // the class is compared across requesters, and the call instance among those that show one
            if let Some(other) = v.iter().find(|x| x.1 != first.1) {
                o.push(("outcomes-disagree".into(), format!("provider {p}, module {k}: task {} saw {} but task {} saw {}", first.0, first.1.s(), other.0, other.1.s())));
            }
            let insts: BTreeSet<&String> = v.iter().filter_map(|x| x.2.as_ref()).collect();
            if insts.len() > 1 || insts.iter().any(|i| i.as_str() != "call1") {
                o.push(("outcomes-disagree".into(), format!("provider {p}, module {k}: requesters were served from supplier calls {insts:?}")));
            }
        }
        let want = sym_class(*p, *k);
        // (failures of modules that share their code-file leaf name cannot be classified from outside)
        if let Some(bad) = v.iter().find(|x| x.1 != want && !(c.leaf_shared(*k) && want != Res::Ok && x.1 != Res::Ok)) {
            o.push(("wrong-outcome".into(), format!("provider {p}, module {k}: supplier answered {} but task {} observed {}", want.s(), bad.0, bad.1.s())));
        }
    }
    // (3) counters of every provider's symbolizer
    let mut asked: Vec<BTreeSet<usize>> = vec![BTreeSet::new(); np];
    for q in c.progs.iter().flatten() {
        if matches!(q.kind, Rk::Fill | Rk::Walk) {
            for a in asked.iter_mut() {
                a.insert(c.key(q.m));
            }
        }
    }
    'outer: for (i, per) in r.counters.iter().enumerate() {
        for (p, (rq, pr, st, rt)) in per.iter().enumerate() {
            if !(pr <= rq && *rq <= asked[p].len() as u64) {
                o.push(("counters-out-of-order".into(), format!("after poll #{i}, provider {p}: requested={rq} processed={pr} distinct modules asked for={}", asked[p].len())));
                break 'outer;
            }
            if rq != st || pr != rt {
                o.push(("counters-vs-supplier".into(), format!("after poll #{i}, provider {p}: requested={rq} processed={pr} but the supplier has started {st} and finished {rt} lookups")));
                break 'outer;
            }
        }
    }
    // (4) no request is lost or deadlocks
    if r.stalled || !r.finished.iter().all(|f| *f) {
        let class = if c.mode == 'a' { "deadlock" } else { "lost-wakeup-or-hang" };
        o.push((class.into(), format!("tasks finished: {:?} (stalled={})", r.finished, r.stalled)));
        return o;
    }
    if let Some(per) = r.counters.last() {
        for (p, (rq, pr, _, _)) in per.iter().enumerate() {
            // provider 0 is consulted by every fill/walk request; a later provider only when no earlier one
            // has walked the frame
            let consulted: BTreeSet<usize> = r.calls.keys().filter(|(q, _)| *q == p).map(|(_, k)| *k).collect();
            let want = if p == 0 { asked[0].len() } else { consulted.len() } as u64;
            if *rq != want || *pr != want {
                o.push(("final-counters".into(), format!("all tasks finished, provider {p}: requested={rq} processed={pr} distinct modules asked for={want}")));
            }
        }
    }
    for (t, prog) in c.progs.iter().enumerate() {
        let got: Vec<usize> = r.events.iter().filter_map(|e| match e { REv::Out { t: t2, j, .. } if *t2 == t => Some(*j), _ => None }).collect();
        let want: Vec<usize> = (0..prog.len()).collect();
        if got != want {
            o.push(("request-lost".into(), format!("task {t} issued requests {want:?} but got answers for {got:?}")));
        }
    }
    // (5) several providers: the answer is that of the first provider (in the order they were added) that
    //     succeeded, and a walk does not go on to later providers after a success
    for e in &r.events {
        if let REv::Out { t, j, out } = e {
            let q = c.progs[*t][*j];
            let k = c.key(q.m);
            let consulted: Vec<usize> = r.events.iter().filter_map(|e| match e { REv::Seen { t: t2, j: j2, p, .. } if t2 == t && j2 == j => Some(*p), _ => None }).collect();
            let (want, want_consulted): (String, Vec<usize>) = match q.kind {
                Rk::Fill => {
                    let any = (0..np).any(|p| c.sym[&(p, k)].1.class() == Res::Ok);
                    (if any { "F".into() } else { "F-".into() }, (0..np).collect())
                }
                Rk::Walk => match (0..np).find(|p| c.sym[&(*p, k)].1 == SRes::Ok) {
                    Some(p) => (format!("W{p}"), (0..=p).collect()),
                    None => ("W-".into(), (0..np).collect()),
                },
                Rk::File(fk) => match (0..np).find(|p| c.file[&(*p, k, fk)].1) {
                    Some(p) => (format!("P{p}"), (0..np).collect()),
                    None => ("P-".into(), (0..np).collect()),
                },
            };
            let ok = if want == "F" { out.starts_with('F') && out != "F-" } else { *out == want };
            if !ok {
                o.push(("multi-wrong-combination".into(), format!("request {j} of task {t} ({}): got {out}, the first success in provider order is {want}", show_rq(&q))));
            }
            // providers are consulted in the order they were added, each at most once per request; a walk
            // stops at its first success (whether fill_symbol / get_file_path go on after a success is the
            // code's choice: compared with the model, not demanded here)
            let in_order = consulted.windows(2).all(|w| w[0] < w[1]);
            let walk_ok = q.kind != Rk::Walk || consulted == want_consulted;
            if !in_order || !walk_ok {
                o.push(("multi-consultation-order".into(), format!("request {j} of task {t} ({}): providers consulted {consulted:?}, expected {}{want_consulted:?}", show_rq(&q), if q.kind == Rk::Walk { "" } else { "an increasing part of " })));
            }
        }
    }
    // (6) the statistics of a provider reflect the one remembered outcome of each module — as far as the
    //     leaf-name key tells modules apart (modules sharing a leaf: finding F16, owned by C13); checked
    //     after every poll (`stats_findings`) and at the end
    if let Some(f) = r.stats_findings.first() {
        o.push(("stats-mismatch".into(), f.clone()));
    }
    for (p, st) in r.stats.iter().enumerate() {
        if let Some(f) = stats_check(c, p, st, &r.events) {
            o.push(("stats-mismatch".into(), format!("at the end: {f}")));
        }
    }
    o
}

fn rexec_case(c: &RCase) -> ImplResult {
    let mut res = ImplResult::default();
    let run = catch(|| if c.mode == 'j' || c.mode == 'm' { rrun_runtime(c) } else { rrun_scheduled(c) });
    let r = match run {
        Ok(r) => r,
        Err(msg) => {
            res.out = "PANIC".into();
            res.oracle.push(("panic".into(), msg));
            return res;
        }
    };
    res.out = format!("{} {}", r.trace.join(";"), r.summary);
    res.oracle = roracle(c, &r);
    let mut users: BTreeMap<usize, BTreeSet<usize>> = BTreeMap::new();
    for (t, p) in c.progs.iter().enumerate() {
        for q in p {
            if matches!(q.kind, Rk::Fill | Rk::Walk) {
                users.entry(c.key(q.m)).or_default().insert(t);
            }
        }
    }
    let shared_key = users.values().any(|u| u.len() >= 2);
    let suspending = c.sym.values().any(|(d, _)| *d > 0);
    res.nontrivial = shared_key && (r.blocked_polls > 0 || ((c.mode == 'j' || c.mode == 'm') && suspending));
    res.tags.push(format!("req-exec:{}", c.mode));
    res.tags.push(format!("providers:{}", if c.bare() { "1-bare".to_string() } else { c.nprov().to_string() }));
    res.tags.push(format!("tasks:{}", c.progs.len()));
    res.tags.push(format!("blocked-polls:{}", r.blocked_polls.min(5)));
    for q in c.progs.iter().flatten() {
        res.tags.push(match q.kind {
            Rk::Fill => "api:fill_symbol".into(),
            Rk::Walk => "api:walk_frame".into(),
            Rk::File(fk) => format!("api:get_file_path:{fk}"),
        });
    }
    let idents: BTreeSet<_> = c.mods.iter().map(|m| m.ident()).collect();
    if idents.len() < c.mods.len() {
        res.tags.push("same-key-modules".into());
    }
    if c.mods.iter().any(|m| m.cf != Cf::Path(0, 0) && !matches!(m.cf, Cf::Path(..))) {
        res.tags.push("code-file-absent-or-empty".into());
    }
    if (0..c.mods.len()).any(|k| c.key(k) == k && c.leaf_shared(k)) {
        res.tags.push("shared-leaf".into());
    }
    for e in &r.events {
        if let REv::Out { out, .. } = e {
            res.tags.push(format!("answer:{}", out));
        }
    }
    res.tags.sort();
    res.tags.dedup();
    res.tags.push(if r.finished.iter().all(|f| *f) { "all-finished".into() } else { "unfinished".into() });
    res
}


fn rshrink(case: &str, still_fails: &dyn Fn(&str) -> bool) -> String {
    let Some(mut c) = parse_rcase(case) else { return case.to_string() };
    let try_ = |d: &RCase, c: &mut RCase| -> bool {
        let line = render_rcase(d);
        if parse_rcase(&line).is_some() && still_fails(&line) {
            *c = d.clone();
            true
        } else {
            false
        }
    };
    let mut progress = true;
    while progress {
        progress = false;
        let mut i = 0;
        while i < c.sched.len() {
            let mut d = c.clone();
            d.sched.remove(i);
            if try_(&d, &mut c) {
                progress = true;
            } else {
                i += 1;
            }
        }
        for t in 0..c.progs.len() {
            let mut i = 0;
            while i < c.progs[t].len() {
                let mut d = c.clone();
                d.progs[t].remove(i);
                if try_(&d, &mut c) {
                    progress = true;
                } else {
                    i += 1;
                }
            }
        }
        while c.progs.len() > 1 && c.progs.last().map(|p| p.is_empty()).unwrap_or(false) {
            let mut d = c.clone();
            d.progs.pop();
            if try_(&d, &mut c) {
                progress = true;
            } else {
                break;
            }
        }
        // fewer providers (the last one), when no table entry of it is needed any more
        if c.nprov() > 1 {
            let mut d = c.clone();
            d.provs.pop();
            let np = d.nprov();
            d.sym.retain(|(p, _), _| *p < np);
            d.file.retain(|(p, _, _), _| *p < np);
            if try_(&d, &mut c) {
                progress = true;
            }
        }
        let keys: Vec<(usize, usize)> = c.sym.keys().copied().collect();
        for k in keys {
            while c.sym[&k].0 > 0 {
                let mut d = c.clone();
                d.sym.get_mut(&k).unwrap().0 -= 1;
                if try_(&d, &mut c) {
                    progress = true;
                } else {
                    break;
                }
            }
        }
        let keys: Vec<(usize, usize, u8)> = c.file.keys().copied().collect();
        for k in keys {
            while c.file[&k].0 > 0 {
                let mut d = c.clone();
                d.file.get_mut(&k).unwrap().0 -= 1;
                if try_(&d, &mut c) {
                    progress = true;
                } else {
                    break;
                }
            }
        }
    }
    // drop table entries no request needs
    let mut d = c.clone();
    let needed_sym: BTreeSet<(usize, usize)> = c.progs.iter().flatten().filter(|q| !matches!(q.kind, Rk::File(_))).flat_map(|q| (0..c.nprov()).map(move |p| (p, q.m))).map(|(p, m)| (p, c.key(m))).collect();
    let needed_file: BTreeSet<(usize, usize, u8)> = c
        .progs
        .iter()
        .flatten()
        .filter_map(|q| match q.kind {
            Rk::File(fk) => Some((q.m, fk)),
            _ => None,
        })
        .flat_map(|(m, fk)| (0..c.nprov()).map(move |p| (p, m, fk)))
        .map(|(p, m, fk)| (p, c.key(m), fk))
        .collect();
    d.sym.retain(|k, _| needed_sym.contains(k));
    d.file.retain(|k, _| needed_file.contains(k));
    try_(&d, &mut c);
    render_rcase(&c)
}



// =====================================================================================================
// `HttpSymbolSupplier::locate_file_internal` (and `locate_symbols`) against a loopback server that counts
// requests:  `once http x:<j|m> mods:.. urls:<n> tasks:.. srv:<k.<fk|s>=<u|n>:<0|1>,..>`
// =====================================================================================================

use breakpad_symbols::HttpSymbolSupplier;
use std::io::{Read as _, Write as _};
use std::sync::atomic::AtomicU64;

static HTTP_RID: AtomicU64 = AtomicU64::new(0);

struct HServer {
    port: u16,
    /// request target path (without query) -> body of the 200 answer; everything else is a 404
    routes: Arc<Mutex<BTreeMap<String, Vec<u8>>>>,
    /// request targets as received, in order of arrival
    log: Arc<Mutex<Vec<String>>>,
}

fn hserve_one(mut s: std::net::TcpStream, routes: &Mutex<BTreeMap<String, Vec<u8>>>, log: &Mutex<Vec<String>>) {
    let _ = s.set_nodelay(true);
    let _ = s.set_read_timeout(Some(std::time::Duration::from_secs(20)));
    let mut head = vec![];
    let mut buf = [0u8; 2048];
    while !head.windows(4).any(|w| w == b"\r\n\r\n") {
        match s.read(&mut buf) {
            Ok(0) | Err(_) => return,
            Ok(n) => head.extend_from_slice(&buf[..n]),
        }
        if head.len() > 65536 {
            return;
        }
    }
    let text = String::from_utf8_lossy(&head).to_string();
    let target = text.split(' ').nth(1).unwrap_or("").to_string();
    log.lock().unwrap().push(target.clone());
    let path = target.split('?').next().unwrap_or("").to_string();
    let body = routes.lock().unwrap().get(&path).cloned();
    // a little latency: the lookups of the other tasks arrive while this one is in flight
    std::thread::sleep(std::time::Duration::from_micros(300));
    let _ = match body {
        Some(b) => s
            .write_all(format!("HTTP/1.1 200 OK\r\nConnection: close\r\nContent-Type: text/plain\r\nContent-Length: {}\r\n\r\n", b.len()).as_bytes())
            .and_then(|_| s.write_all(&b)),
        None => s.write_all(b"HTTP/1.1 404 Not Found\r\nConnection: close\r\nContent-Length: 0\r\n\r\n"),
    };
    let _ = s.flush();
    let _ = s.shutdown(std::net::Shutdown::Both);
}

impl HServer {
    fn start() -> HServer {
        let mut tries = 0;
        let listener = loop {
            match std::net::TcpListener::bind("127.0.0.1:0") {
                Ok(l) => break l,
                Err(e) => {
                    tries += 1;
                    if tries > 200 {
                        panic!("bind loopback: {e:?}");
                    }
                    std::thread::sleep(std::time::Duration::from_millis(100));
                }
            }
        };
        let port = listener.local_addr().unwrap().port();
        let routes = Arc::new(Mutex::new(BTreeMap::new()));
        let log = Arc::new(Mutex::new(vec![]));
        let (r2, l2) = (routes.clone(), log.clone());
        std::thread::spawn(move || {
            for conn in listener.incoming().flatten() {
                let (r3, l3) = (r2.clone(), l2.clone());
                std::thread::spawn(move || hserve_one(conn, &r3, &l3));
            }
        });
        HServer { port, routes, log }
    }
}

thread_local! {
    /// one server per harness thread, alive for the whole run (requests of a case carry its run id)
    static HSERVER: std::cell::RefCell<Option<Arc<HServer>>> = const { std::cell::RefCell::new(None) };
}
fn hserver() -> Arc<HServer> {
    HSERVER.with(|s| s.borrow_mut().get_or_insert_with(|| Arc::new(HServer::start())).clone())
}

#[derive(Clone, Debug)]
struct HCase {
    mode: char,
    mods: Vec<ModSpec>,
    nurls: usize,
    progs: Vec<Vec<Rq>>,
    /// (key, kind 0..2 | 3 = symbols) -> (index of the first server answering 200, already in the cache dir)
    srv: BTreeMap<(usize, u8), (Option<usize>, bool)>,
}
impl HCase {
    fn key(&self, m: usize) -> usize {
        let id = self.mods[m].ident();
        self.mods.iter().position(|x| x.ident() == id).unwrap()
    }
    fn expect_ok(&self, k: usize, fk: u8) -> bool {
        let (u, l) = self.srv[&(k, fk)];
        l || u.map(|u| u < self.nurls).unwrap_or(false)
    }
}

fn parse_hcase(case: &str) -> Option<HCase> {
    let f: Vec<&str> = case.split(' ').filter(|s| !s.is_empty()).collect();
    if f.len() != 7 || f[0] != "once" || f[1] != "http" {
        return None;
    }
    let mode = match f[2].strip_prefix("x:")? {
        "j" => 'j',
        "m" => 'm',
        _ => return None,
    };
    let mods: Vec<ModSpec> = f[3].strip_prefix("mods:")?.split(';').map(ModSpec::parse).collect::<Option<_>>()?;
    let nurls: usize = f[4].strip_prefix("urls:")?.parse().ok()?;
    let progs = parse_progs(f[5].strip_prefix("tasks:")?)?;
    let mut srv = BTreeMap::new();
    let st = f[6].strip_prefix("srv:")?;
    if st != "-" {
        for e in st.split(',') {
            let (kk, v) = e.split_once('=')?;
            let (k, fk) = kk.split_once('.')?;
            let fk: u8 = if fk == "s" { 3 } else { fk.parse().ok().filter(|n| *n < 3)? };
            let (u, l) = v.split_once(':')?;
            let u = if u == "n" { None } else { Some(u.parse().ok()?) };
            let l = match l {
                "0" => false,
                "1" => true,
                _ => return None,
            };
            srv.insert((k.parse().ok()?, fk), (u, l));
        }
    }
    let c = HCase { mode, mods, nurls, progs, srv };
    for q in c.progs.iter().flatten() {
        if q.m >= c.mods.len() {
            return None;
        }
        let fk = match q.kind {
            Rk::Fill => 3,
            Rk::File(fk) => fk,
            Rk::Walk => return None,
        };
        if !c.srv.contains_key(&(c.key(q.m), fk)) {
            return None;
        }
    }
    // every module needs the full identity: the lookup paths are built from all four components
    if c.mods.iter().any(|m| !matches!(m.cf, Cf::Path(..)) || m.ci.is_none() || m.df.is_none() || m.di.is_none()) {
        return None;
    }
    Some(c)
}

fn render_hcase(c: &HCase) -> String {
    let srv = if c.srv.is_empty() {
        "-".to_string()
    } else {
        c.srv
            .iter()
            .map(|((k, fk), (u, l))| {
                format!(
                    "{k}.{}={}:{}",
                    if *fk == 3 { "s".to_string() } else { fk.to_string() },
                    u.map(|u| u.to_string()).unwrap_or("n".into()),
                    if *l { 1 } else { 0 }
                )
            })
            .collect::<Vec<_>>()
            .join(",")
    };
    format!(
        "once http x:{} mods:{} urls:{} tasks:{} srv:{srv}",
        c.mode,
        c.mods.iter().map(|m| m.show()).collect::<Vec<_>>().join(";"),
        c.nurls,
        show_progs(&c.progs)
    )
}

struct ArcSup(Arc<HttpSymbolSupplier>);
#[async_trait]
impl SymbolSupplier for ArcSup {
    async fn locate_symbols(&self, module: &(dyn Module + Sync)) -> Result<LocateSymbolsResult, SymbolError> {
        self.0.locate_symbols(module).await
    }
    async fn locate_file(&self, module: &(dyn Module + Sync), file_kind: FileKind) -> Result<PathBuf, FileError> {
        self.0.locate_file(module, file_kind).await
    }
}

struct HRunOut {
    summary: String,
    /// (task, request, key, kind, answer)
    answers: Vec<(usize, usize, usize, u8, String)>,
    /// (key, kind, url index) -> number of GETs
    gets: BTreeMap<(usize, u8, usize), usize>,
    unknown_targets: Vec<String>,
    pend: (u64, u64),
    done: bool,
}

fn hscratch() -> PathBuf {
    let exe = std::env::current_exe().unwrap();
    let d = exe.ancestors().nth(4).unwrap().join(".scratch/once").join(std::process::id().to_string());
    std::fs::create_dir_all(&d).unwrap();
    d
}

fn sym_body(m: &SimpleModule, k: usize) -> Vec<u8> {
    format!(
        "MODULE Linux x86 {} {}\nFUNC 1000 100 0 fn_http_k{k}\n",
        m.debug_identifier().unwrap().breakpad(),
        m.debug_file().unwrap()
    )
    .into_bytes()
}

fn hrun(c: &HCase) -> HRunOut {
    let rid = HTTP_RID.fetch_add(1, Ordering::Relaxed);
    let server = hserver();
    let root = hscratch().join(format!("r{rid}"));
    let (cache, tmp) = (root.join("cache"), root.join("tmp"));
    std::fs::create_dir_all(&cache).unwrap();
    std::fs::create_dir_all(&tmp).unwrap();
    // routes and pre-seeded cache files
    let mut rel_of: BTreeMap<String, (usize, u8)> = BTreeMap::new(); // server_rel -> (key, kind)
    for ((k, fk), (u, l)) in &c.srv {
        let m = c.mods[*k].build(None);
        let lk = breakpad_symbols::lookup(&m, file_kind(if *fk == 3 { 0 } else { *fk })).expect("lookup");
        let body = if *fk == 3 || *fk == 0 { sym_body(&m, *k) } else { format!("FILE k{k} kind{fk}\n").into_bytes() };
        rel_of.insert(format!("{}#{}", lk.server_rel, if *fk == 3 { "s" } else { "f" }), (*k, *fk));
        if let Some(u) = u {
            if *u < c.nurls {
                server.routes.lock().unwrap().insert(format!("/r{rid}u{u}/{}", lk.server_rel), body.clone());
            }
        }
        if *l {
            let p = cache.join(&lk.cache_rel);
            std::fs::create_dir_all(p.parent().unwrap()).unwrap();
            std::fs::write(&p, &body).unwrap();
        }
    }
    let urls: Vec<String> = (0..c.nurls).map(|u| format!("http://127.0.0.1:{}/r{rid}u{u}/", server.port)).collect();
    let rt: Arc<tokio::runtime::Runtime> = if c.mode == 'm' {
        mt_runtime()
    } else {
        Arc::new(tokio::runtime::Builder::new_current_thread().enable_all().build().unwrap())
    };
    let sup = {
        let _g = rt.enter();
        Arc::new(HttpSymbolSupplier::new(urls, cache.clone(), tmp.clone(), vec![], std::time::Duration::from_secs(20)))
    };
    let symbolizer = Arc::new(Symbolizer::new(ArcSup(sup.clone())));
    let answers: Arc<Mutex<Vec<(usize, usize, usize, u8, String)>>> = Arc::new(Mutex::new(vec![]));
    let c2 = Arc::new(c.clone());
    let body = |t: usize| {
        let (c, sup, symbolizer, answers, cache) = (c2.clone(), sup.clone(), symbolizer.clone(), answers.clone(), cache.clone());
        async move {
            for (j, rq) in c.progs[t].iter().enumerate() {
                let m = c.mods[rq.m].build(Some(format!("t{t}j{j}")));
                let k = c.key(rq.m);
                let (fk, out) = match rq.kind {
                    Rk::File(fk) => {
                        let want = breakpad_symbols::lookup(&m, file_kind(fk)).map(|l| cache.join(l.cache_rel));
                        let out = match sup.locate_file_internal(&m, file_kind(fk)).await {
                            Ok((path, _url)) => {
                                if Some(&path) == want.as_ref() && path.is_file() {
                                    "P0".to_string()
                                } else {
                                    format!("P?{}", path.display())
                                }
                            }
                            Err(_) => "P-".to_string(),
                        };
                        (fk, out)
                    }
                    _ => {
                        let mut f = SimpleFrame::with_instruction(0x1010);
                        let out = match symbolizer.fill_symbol(&m, &mut f).await {
                            Ok(()) if f.function.as_deref() == Some(&format!("fn_http_k{k}")) => "F0".to_string(),
                            Ok(()) => format!("F?{:?}", f.function),
                            Err(_) => "F-".to_string(),
                        };
                        (3, out)
                    }
                };
                answers.lock().unwrap().push((t, j, k, fk, out));
            }
        }
    };
    let n = c.progs.len();
    let done = if c.mode == 'j' {
        rt.block_on(async {
            let futs = (0..n).map(body);
            tokio::time::timeout(std::time::Duration::from_secs(30), futures_util::future::join_all(futs)).await.is_ok()
        })
    } else {
        let handles: Vec<_> = (0..n).map(|t| rt.spawn(body(t))).collect();
        rt.block_on(async {
            tokio::time::timeout(std::time::Duration::from_secs(30), futures_util::future::join_all(handles))
                .await
                .map(|rs| rs.iter().all(|r| r.is_ok()))
                .unwrap_or(false)
        })
    };
    // what the server saw of this run
    let prefix = format!("/r{rid}u");
    let mine: Vec<String> = {
        let mut log = server.log.lock().unwrap();
        let mine = log.iter().filter(|t| t.starts_with(&prefix)).cloned().collect();
        log.retain(|t| !t.starts_with(&prefix));
        mine
    };
    server.routes.lock().unwrap().retain(|k, _| !k.starts_with(&prefix));
    let mut gets: BTreeMap<(usize, u8, usize), usize> = BTreeMap::new();
    let mut unknown = vec![];
    for t in &mine {
        let rest = &t[prefix.len()..];
        let (u, rel) = rest.split_once('/').unwrap_or((rest, ""));
        let (path, query) = match rel.split_once('?') {
            Some((p, _)) => (p, true),
            None => (rel, false),
        };
        match (u.parse::<usize>().ok(), rel_of.get(&format!("{path}#{}", if query { "s" } else { "f" }))) {
            (Some(u), Some((k, fk))) => *gets.entry((*k, *fk, u)).or_insert(0) += 1,
            _ => unknown.push(t.clone()),
        }
    }
    let ps = symbolizer.pending_stats();
    let answers = answers.lock().unwrap().clone();
    let outs = (0..n)
        .map(|t| format!("{t}:{}", answers.iter().filter(|a| a.0 == t).map(|a| a.4.clone()).collect::<Vec<_>>().join(",")))
        .collect::<Vec<_>>()
        .join(";");
    let mut per: BTreeMap<(usize, u8), Vec<String>> = BTreeMap::new();
    for ((k, fk, u), nn) in &gets {
        let status = if c.srv[&(*k, *fk)].0 == Some(*u) { 200 } else { 404 };
        per.entry((*k, *fk)).or_default().push(format!("{u}={status}x{nn}"));
    }
    let gets_s = per
        .iter()
        .map(|((k, fk), v)| format!("{k}.{}:{}", if *fk == 3 { "s".to_string() } else { fk.to_string() }, v.join(",")))
        .collect::<Vec<_>>()
        .join(";");
    let summary = format!(
        " final fin={} pend={}/{} outs:{outs} gets:{gets_s}",
        if done { 1 } else { 0 },
        ps.symbols_requested,
        ps.symbols_processed
    );
    drop(symbolizer);
    drop(sup);
    let _ = std::fs::remove_dir_all(&root);
    HRunOut { summary, answers, gets, unknown_targets: unknown, pend: (ps.symbols_requested, ps.symbols_processed), done }
}

fn horacle(c: &HCase, r: &HRunOut) -> Vec<(String, String)> {
    let mut o = vec![];
    // at most one request sequence per (module, file kind): no server is asked twice for one file
    for ((k, fk, u), n) in &r.gets {
        if *n > 1 {
            o.push(("http-requested-twice".into(), format!("server {u} got {n} GETs for module {k} kind {}", if *fk == 3 { "symbols".to_string() } else { fk.to_string() })));
        }
    }
    for t in &r.unknown_targets {
        o.push(("http-unexpected-request".into(), t.clone()));
    }
    if !r.done {
        o.push(("lost-wakeup-or-hang".into(), "the lookups did not finish within 30 s".into()));
        return o;
    }
    // same result for all requesters of one file, failures included: the one the servers determine
    let mut per: BTreeMap<(usize, u8), Vec<(usize, String)>> = BTreeMap::new();
    for (t, _, k, fk, out) in &r.answers {
        per.entry((*k, *fk)).or_default().push((*t, out.clone()));
    }
    for ((k, fk), v) in &per {
        if let Some(other) = v.iter().find(|x| x.1 != v[0].1) {
            o.push(("outcomes-disagree".into(), format!("module {k} kind {fk}: task {} got {} but task {} got {}", v[0].0, v[0].1, other.0, other.1)));
        }
        let ok = c.expect_ok(*k, *fk);
        if let Some(bad) = v.iter().find(|x| x.1.ends_with('-') == ok || x.1.contains('?')) {
            o.push(("wrong-outcome".into(), format!("module {k} kind {fk}: the file is {} but task {} got {}", if ok { "available" } else { "nowhere" }, bad.0, bad.1)));
        }
    }
    let asked: BTreeSet<usize> = c.progs.iter().flatten().filter(|q| q.kind == Rk::Fill).map(|q| c.key(q.m)).collect();
    if r.pend != (asked.len() as u64, asked.len() as u64) {
        o.push(("final-counters".into(), format!("requested={} processed={} distinct modules asked for={}", r.pend.0, r.pend.1, asked.len())));
    }
    let total: usize = c.progs.iter().map(|p| p.len()).sum();
    if r.answers.len() != total {
        o.push(("request-lost".into(), format!("{} requests, {} answers", total, r.answers.len())));
    }
    o
}

fn hexec_case(c: &HCase) -> ImplResult {
    let mut res = ImplResult::default();
    let r = match catch(|| hrun(c)) {
        Ok(r) => r,
        Err(msg) => {
            res.out = "PANIC".into();
            res.oracle.push(("panic".into(), msg));
            return res;
        }
    };
    res.out = r.summary.clone();
    res.oracle = horacle(c, &r);
    let mut users: BTreeMap<(usize, u8), usize> = BTreeMap::new();
    for (_, _, k, fk, _) in &r.answers {
        *users.entry((*k, *fk)).or_insert(0) += 1;
    }
    res.nontrivial = users.values().any(|n| *n >= 2) && !r.gets.is_empty();
    res.tags.push(format!("http-exec:{}", c.mode));
    res.tags.push(format!("http-urls:{}", c.nurls));
    for ((_, fk), (u, l)) in &c.srv {
        res.tags.push(format!("http-kind:{}", if *fk == 3 { "symbols".to_string() } else { fk.to_string() }));
        res.tags.push(format!("http-file:{}", if *l { "in-cache" } else if u.map(|u| u < c.nurls).unwrap_or(false) { "served" } else { "nowhere" }));
    }
    res.tags.sort();
    res.tags.dedup();
    res
}

fn hshrink(case: &str, still_fails: &dyn Fn(&str) -> bool) -> String {
    let Some(mut c) = parse_hcase(case) else { return case.to_string() };
    let try_ = |d: &HCase, c: &mut HCase| -> bool {
        let line = render_hcase(d);
        if parse_hcase(&line).is_some() && still_fails(&line) {
            *c = d.clone();
            true
        } else {
            false
        }
    };
    let mut progress = true;
    while progress {
        progress = false;
        for t in 0..c.progs.len() {
            let mut i = 0;
            while i < c.progs[t].len() {
                let mut d = c.clone();
                d.progs[t].remove(i);
                if try_(&d, &mut c) {
                    progress = true;
                } else {
                    i += 1;
                }
            }
        }
        let mut t = 0;
        while c.progs.len() > 1 && t < c.progs.len() {
            if c.progs[t].is_empty() {
                let mut d = c.clone();
                d.progs.remove(t);
                if try_(&d, &mut c) {
                    progress = true;
                    continue;
                }
            }
            t += 1;
        }
        if c.nurls > 0 {
            let mut d = c.clone();
            d.nurls -= 1;
            if try_(&d, &mut c) {
                progress = true;
            }
        }
        if c.mode == 'm' {
            let mut d = c.clone();
            d.mode = 'j';
            if try_(&d, &mut c) {
                progress = true;
            }
        }
    }
    let used: BTreeSet<(usize, u8)> = c
        .progs
        .iter()
        .flatten()
        .map(|q| (c.key(q.m), match q.kind { Rk::File(fk) => fk, _ => 3 }))
        .collect();
    let mut d = c.clone();
    d.srv.retain(|k, _| used.contains(k));
    try_(&d, &mut c);
    render_hcase(&c)
}

fn gen_http(tier: Tier, rng: &mut Rng, emit: &mut dyn FnMut(String)) {
    let n = if tier == Tier::Quick { 500 } else { 12_000 };
    for i in 0..n {
        let nm = rng.range(1, 3) as usize;
        let mut mods: Vec<ModSpec> = (0..nm).map(|m| mod_plain(m as u64)).collect();
        if rng.chance(1, 3) {
            // the same module again under another index: same key, same slot
            let d = mods[rng.below(nm as u64) as usize].clone();
            mods.push(d);
        }
        let nurls = rng.range(0, 3) as usize;
        let nt = rng.range(2, 5) as usize;
        // per key: either symbol lookups or BreakpadSym file lookups, never both (they share the cached file)
        let sym_keys: Vec<bool> = (0..mods.len()).map(|_| rng.chance(1, 3)).collect();
        let c0 = HCase { mode: if i % 3 == 0 { 'm' } else { 'j' }, mods, nurls, progs: vec![], srv: BTreeMap::new() };
        let progs: Vec<Vec<Rq>> = (0..nt)
            .map(|_| {
                (0..rng.range(1, 3))
                    .map(|_| {
                        let m = rng.below(c0.mods.len() as u64) as usize;
                        if sym_keys[c0.key(m)] && rng.chance(1, 2) {
                            Rq { kind: Rk::Fill, m }
                        } else {
                            let fk = if sym_keys[c0.key(m)] { rng.range(1, 2) } else { rng.below(3) } as u8;
                            Rq { kind: Rk::File(fk), m }
                        }
                    })
                    .collect()
            })
            .collect();
        let mut c = HCase { progs, ..c0 };
        for q in c.progs.clone().iter().flatten() {
            let fk = match q.kind {
                Rk::Fill => 3,
                Rk::File(fk) => fk,
                Rk::Walk => continue,
            };
            let k = c.key(q.m);
            c.srv.entry((k, fk)).or_insert_with(|| {
                let u = match rng.below(4) {
                    0 => None,
                    _ => Some(rng.below(3) as usize),
                };
                (u, rng.chance(1, 6))
            });
        }
        emit(render_hcase(&c));
    }
}

// ------------------------------------------------------------------------------- generators (`once req`)

fn mod_plain(i: u64) -> ModSpec {
    ModSpec { cf: Cf::Path(0, i), ci: Some(i), df: Some(i), di: Some(i) }
}

/// fill the supplier tables for every (provider, key) a request of `progs` can consult
fn fill_tables(
    c: &mut RCase,
    sym_of: &mut dyn FnMut(usize, usize) -> (u32, SRes),
    file_of: &mut dyn FnMut(usize, usize, u8) -> (u32, bool),
) {
    let np = c.nprov();
    let reqs: Vec<Rq> = c.progs.iter().flatten().copied().collect();
    for q in reqs {
        let k = c.key(q.m);
        for p in 0..np {
            match q.kind {
                Rk::File(fk) => {
                    if !c.file.contains_key(&(p, k, fk)) {
                        let v = file_of(p, k, fk);
                        c.file.insert((p, k, fk), v);
                    }
                }
                _ => {
                    if !c.sym.contains_key(&(p, k)) {
                        let mut v = sym_of(p, k);
                        if c.leaf_shared(k) {
                            // failures of modules sharing a leaf name cannot be told apart from outside
                            v.1 = match v.1 {
                                SRes::On => SRes::Ok,
                                SRes::Pe => SRes::Nf,
                                x => x,
                            };
                            // with an unknown completion order (runtime executors) the statistics entry of a
                            // shared leaf depends on the schedule when the outcomes differ (finding F16, owned
                            // by C13): there the modules of one leaf get one outcome
                            if c.mode == 'j' || c.mode == 'm' {
                                let leaf = c.mods[k].leaf();
                                if let Some(r) = c.sym.iter().find(|((q, k2), _)| *q == p && c.mods[*k2].leaf() == leaf).map(|(_, v)| v.1) {
                                    v.1 = r;
                                }
                            }
                        }
                        c.sym.insert((p, k), v);
                    }
                }
            }
        }
    }
}

/// upper bound of the polls a fair completion needs (one per item and suspension), plus slack
fn rsched_len(c: &RCase, slack: usize, cap: usize) -> usize {
    let np = c.nprov().max(1);
    let mut n = 0usize;
    for q in c.progs.iter().flatten() {
        n += np;
        let k = c.key(q.m);
        for p in 0..c.nprov() {
            n += match q.kind {
                Rk::File(fk) => c.file[&(p, k, fk)].0 as usize,
                _ => 0,
            };
        }
    }
    let keys: BTreeSet<(usize, usize)> = c.sym.keys().copied().collect();
    n += keys.iter().map(|k| c.sym[k].0 as usize).sum::<usize>();
    (n + slack).min(cap)
}

fn gen_req(tier: Tier, rng: &mut Rng, emit: &mut dyn FnMut(String)) {
    let quick = tier == Tier::Quick;
    let f = |m| Rq { kind: Rk::Fill, m };
    let w = |m| Rq { kind: Rk::Walk, m };
    let g = |fk, m| Rq { kind: Rk::File(fk), m };
    // ---- (A) exhaustive: 2 tasks, all poll sequences, every request kind, 1 (bare / wrapped) and 2 providers
    let pool: Vec<(Vec<Rq>, Vec<Rq>)> = vec![
        (vec![w(0)], vec![w(0)]),
        (vec![f(0)], vec![w(0)]),
        (vec![w(0)], vec![f(0), w(0)]),
        (vec![g(1, 0)], vec![g(1, 0)]),
        (vec![f(0), g(0, 0)], vec![g(0, 0), w(0)]),
        (vec![w(0), f(1)], vec![f(1), w(0)]),
        (vec![g(2, 1), w(0)], vec![w(0), g(2, 1)]),
        (vec![f(0), f(0)], vec![w(0)]),
    ];
    let sym_profiles: [[SRes; 4]; 6] = [
        // [p0 key a, p1 key a, p0 key b, p1 key b]
        [SRes::Ok, SRes::Ok, SRes::Nf, SRes::Ok],
        [SRes::On, SRes::Ok, SRes::Pe, SRes::Nf],
        [SRes::Nf, SRes::Ok, SRes::Ok, SRes::Pe],
        [SRes::Pe, SRes::On, SRes::On, SRes::On],
        [SRes::Nf, SRes::Nf, SRes::Ok, SRes::Ok],
        [SRes::Ok, SRes::Nf, SRes::Nf, SRes::Pe],
    ];
    let mut n_cfg = 0usize;
    for provs in ["U", "u", "uu"] {
        for (pa, pb) in &pool {
            for prof in 0..(if provs == "uu" { 6 } else { 3 }) {
                for delays in 0..3u32 {
                    n_cfg += 1;
                    let mut c = RCase {
                        mode: 'a',
                        provs: provs.to_string(),
                        mods: vec![mod_plain(0), mod_plain(1)],
                        progs: vec![pa.clone(), pb.clone()],
                        sym: BTreeMap::new(),
                        file: BTreeMap::new(),
                        sched: vec![],
                    };
                    let sp = sym_profiles[(prof + n_cfg) % 6];
                    fill_tables(
                        &mut c,
                        &mut |p, k| ((delays + (p + k) as u32) % 3 % (delays + 1), sp[(k % 2) * 2 + p % 2]),
                        &mut |p, k, fk| ((delays + p as u32 + fk as u32) % 2 % (delays + 1), (p + k + fk as usize + prof) % 2 == 0),
                    );
                    let len = rsched_len(&c, 1, if quick { 9 } else { 11 });
                    all_seqs(2, len, &mut |s| {
                        let mut d = c.clone();
                        d.sched = s.to_vec();
                        emit(render_rcase(&d));
                    });
                }
            }
        }
    }
    // ---- (B) module identity: every subset of the four components differing, in every way a component can
    //          differ; the two modules are looked up by two tasks through every request kind
    let bases = [
        ModSpec { cf: Cf::Path(0, 0), ci: Some(0), df: Some(0), di: Some(0) },
        // every component present but EMPTY ("" / nil id), and every component missing
        ModSpec { cf: Cf::Empty, ci: Some(EMPTY), df: Some(EMPTY), di: Some(EMPTY) },
        ModSpec { cf: Cf::Absent, ci: None, df: None, di: None },
    ];
    let cf_alts = [Cf::Path(0, 1), Cf::Path(1, 0), Cf::Empty, Cf::Absent];
    let opt_alts = [Some(1u64), None, Some(EMPTY)];
    let mut variants: Vec<(ModSpec, ModSpec)> = vec![];
    for base in &bases {
        for mask in 0..16u32 {
            for alt in 0..4usize {
                let mut b = base.clone();
                if mask & 1 != 0 {
                    b.cf = cf_alts[alt].clone();
                }
                if mask & 2 != 0 {
                    b.ci = opt_alts[alt % 3];
                }
                if mask & 4 != 0 {
                    b.df = opt_alts[(alt + 1) % 3];
                }
                if mask & 8 != 0 {
                    b.di = opt_alts[(alt + 2) % 3];
                }
                variants.push((base.clone(), b));
            }
        }
    }
    let base = bases[0].clone();
    // a module without a code file and one whose code file is the empty string: the SAME module for the code
    variants.push((ModSpec { cf: Cf::Absent, ..base.clone() }, ModSpec { cf: Cf::Empty, ..base.clone() }));
    variants.push((ModSpec { cf: Cf::Empty, ci: None, df: None, di: None }, ModSpec { cf: Cf::Absent, ci: None, df: None, di: None }));
    variants.push((ModSpec { cf: Cf::Absent, ci: None, df: None, di: None }, ModSpec { cf: Cf::Absent, ci: None, df: Some(0), di: None }));
    for (vi, (a, b)) in variants.iter().enumerate() {
        for provs in ["U", "uu"] {
            for (si, sched) in [vec![], vec![0, 1, 0, 1, 0, 1, 1, 0], vec![1, 1, 0, 0, 1, 0]].iter().enumerate() {
                let mut c = RCase {
                    mode: if si == 0 { 'j' } else { 'a' },
                    provs: provs.to_string(),
                    mods: vec![a.clone(), b.clone()],
                    progs: vec![vec![f(0), w(1), g(((vi + si) % 3) as u8, 1)], vec![w(1), f(0), f(1)]],
                    sym: BTreeMap::new(),
                    file: BTreeMap::new(),
                    sched: sched.clone(),
                };
                fill_tables(
                    &mut c,
                    &mut |p, k| (((vi + si + p) % 3) as u32, [SRes::Ok, SRes::Nf, SRes::On, SRes::Pe][(vi + k * 3 + p + si) % 4]),
                    &mut |p, k, fk| (((vi + p) % 2) as u32, (vi + p + k + fk as usize) % 3 != 0),
                );
                emit(render_rcase(&c));
            }
        }
    }
    // ---- (C) random: 2..4 tasks x 1..3 requests x 1..4 modules x 0..3 providers, all executors
    let n = if quick { 40_000 } else { 1_500_000 };
    for i in 0..n {
        let nt = rng.range(2, 4) as usize;
        let nm = rng.range(1, 4) as usize;
        let mut mods: Vec<ModSpec> = vec![];
        for m in 0..nm {
            let r = rng.below(10);
            let spec = if m > 0 && r == 0 {
                mods[rng.below(m as u64) as usize].clone() // the same module again
            } else if m > 0 && r <= 2 {
                // an identity variant of an earlier module: one component changed
                let mut b = mods[rng.below(m as u64) as usize].clone();
                match rng.below(4) {
                    0 => b.cf = rng.pick(&[Cf::Path(0, 7), Cf::Path(3, m as u64), Cf::Empty, Cf::Absent]).clone(),
                    1 => b.ci = *rng.pick(&[Some(9), None, Some(EMPTY)]),
                    2 => b.df = *rng.pick(&[Some(9), None, Some(EMPTY)]),
                    _ => b.di = *rng.pick(&[Some(9), None, Some(EMPTY)]),
                }
                b
            } else {
                mod_plain(m as u64)
            };
            mods.push(spec);
        }
        let provs = match rng.below(12) {
            0 => "",
            1..=3 => "U",
            4..=5 => "u",
            6..=9 => "uu",
            _ => "uuu",
        };
        let maxd = rng.range(0, 3) as u32;
        let progs: Vec<Vec<Rq>> = (0..nt)
            .map(|_| {
                let l = rng.range(1, 3);
                (0..l)
                    .map(|_| {
                        let m = rng.below(nm as u64) as usize;
                        match rng.below(8) {
                            0..=3 => f(m),
                            4..=5 => w(m),
                            _ => g(rng.below(3) as u8, m),
                        }
                    })
                    .collect()
            })
            .collect();
        let mode = match i % 16 {
            0 => 'j',
            1 => 'm',
            2..=5 => 'w',
            _ => 'a',
        };
        let mut c = RCase { mode, provs: provs.to_string(), mods, progs, sym: BTreeMap::new(), file: BTreeMap::new(), sched: vec![] };
        let mut r2 = rng.fork();
        let mut r3 = rng.fork();
        fill_tables(
            &mut c,
            &mut |_, _| (r2.range(0, maxd as u64) as u32, *r2.pick(&[SRes::Ok, SRes::Ok, SRes::On, SRes::Nf, SRes::Nf, SRes::Pe])),
            &mut |_, _, _| (r3.range(0, maxd as u64) as u32, r3.chance(1, 2)),
        );
        let total = rsched_len(&c, 0, 1000);
        c.sched = match mode {
            'j' | 'm' => vec![],
            'w' => (0..rng.range(0, 2 * total as u64)).map(|_| rng.below(4)).collect(),
            _ => {
                let len = rng.range(0, 3 * total as u64);
                let hammer = rng.below(nt as u64);
                let bias = rng.below(3);
                (0..len)
                    .map(|_| {
                        if bias == 0 && rng.chance(1, 2) {
                            hammer
                        } else if rng.chance(1, 50) {
                            nt as u64
                        } else {
                            rng.below(nt as u64)
                        }
                    })
                    .collect()
            }
        };
        emit(render_rcase(&c));
    }
    // ---- (D) multi-thread smoke run: more tasks, more contention, 4 workers polling in parallel
    let n = if quick { 1_500 } else { 40_000 };
    for _ in 0..n {
        let nt = rng.range(4, 8) as usize;
        let nm = rng.range(1, 3) as usize;
        let mods: Vec<ModSpec> = (0..nm).map(|m| mod_plain(m as u64)).collect();
        let provs = *rng.pick(&["U", "u", "uu", "uu"]);
        let progs: Vec<Vec<Rq>> = (0..nt)
            .map(|_| {
                (0..rng.range(1, 4))
                    .map(|_| {
                        let m = rng.below(nm as u64) as usize;
                        match rng.below(8) {
                            0..=3 => f(m),
                            4..=6 => w(m),
                            _ => g(rng.below(3) as u8, m),
                        }
                    })
                    .collect()
            })
            .collect();
        let mut c = RCase { mode: 'm', provs: provs.to_string(), mods, progs, sym: BTreeMap::new(), file: BTreeMap::new(), sched: vec![] };
        let mut r2 = rng.fork();
        let mut r3 = rng.fork();
        fill_tables(
            &mut c,
            &mut |_, _| (r2.range(1, 4) as u32, *r2.pick(&[SRes::Ok, SRes::Ok, SRes::On, SRes::Nf, SRes::Pe])),
            &mut |_, _, _| (r3.range(0, 2) as u32, r3.chance(1, 2)),
        );
        emit(render_rcase(&c));
    }
}

impl Engine for Once {
    fn name(&self) -> &'static str {
        "once"
    }
    fn rule(&self) -> String {
        "[run] case = (executor, one program of module keys per task, supplier table key -> (suspensions, outcome), poll schedule). Exhaustive part: ALL poll sequences (leaves of the prefix-closed tree; the trace is compared after every poll, so every prefix is covered) of length 2*lookups+suspensions (2 tasks, capped at 11 quick / 12 thorough) resp. lookups+suspensions+3|4 (3 tasks, capped at 8 / 9) for 2 tasks x <=2 lookups x <=2 keys x <=2 suspensions and 3 tasks x 1 lookup x 2 keys x <=1 suspension, arbitrary-poll executor; random part: 2..4 tasks x 1..3 lookups x 1..3 keys x 0..3 suspensions x outcomes ok/nf/pe under the arbitrary-poll executor (random schedules with spurious polls), the waker-respecting executor (random choices among woken tasks) and join_all on a tokio runtime. [req] case = (executor, module table of identities (code file absent/empty/path, code id, debug file, debug id, each possibly None), 0..3 providers = real Symbolizers over mock suppliers behind a real MultiSymbolProvider (or one bare Symbolizer), one program of requests per task: fill_symbol / walk_frame / get_file_path(kind) on a module, per provider locate_symbols table (suspensions, ok-with-CFI / ok-without-CFI / NotFound / ParseError) and locate_file table, poll schedule); compared after every poll: supplier calls and returns, what every provider answered to which request, the combined answers, pending_stats() of every provider and of the MultiSymbolProvider, wake and finished flags; at the end also stats() of every provider and the merged one. Exhaustive part: ALL poll sequences up to the completion length (cap 9 quick / 11 thorough) of 2 tasks over 8 request-program pairs x {bare, 1, 2 providers} x outcome profiles x suspension profiles; module identity: every subset of the four components differing in every way (value, None vs Some, absent vs empty code file) x {bare, 2 providers} x 4 schedules; random: 2..4 tasks x 1..3 requests x 1..4 modules (same-key duplicates, one-component variants, shared leaf names) x 0..3 providers x executors a/w/j/m; multi-thread smoke run: 4..8 tasks spawned on a tokio multi-thread runtime with 4 workers, suspending suppliers that keep the lock ~30us per suspension (final summary and oracle only: SAMPLING of real parallel polls). [http] case = (executor j/m, module table, 0..3 server URLs, request programs of locate_file_internal(kind) / fill_symbol, per (module key, kind) which server answers 200 and whether the file is already in the cache directory): final answers, pending_stats and the per-server GET counts are compared. non-trivial = at least two tasks ask for a common key and at least one poll found the lock taken (blocked poll), or a runtime executor ran >= 2 such tasks with a suspending supplier / real HTTP; distinct = distinct case line".into()
    }
    fn exhaustive_part(&self) -> Option<String> {
        Some("all poll sequences (task ids incl. spurious polls) up to the length bound for every configuration of 2 tasks x <=2 lookups x <=2 keys x <=2 suspensions (up to task/key symmetry) and 3 tasks x 1 lookup x 2 keys x <=1 suspension [run]; all poll sequences up to the completion length of 2 tasks over 8 program pairs mixing fill_symbol / walk_frame / get_file_path x {bare Symbolizer, MultiSymbolProvider with 1 and 2 providers} x outcome and suspension profiles [req]; all 16 subsets of differing identity components [req]; each compared with the model after every poll".into())
    }

    fn generate(&self, tier: Tier, rng: &mut Rng, emit: &mut dyn FnMut(String)) {
        let quick = tier == Tier::Quick;
        // ---- exhaustive: 2 tasks x <=2 lookups x <=2 keys x <=2 suspensions
        let progs2: Vec<Vec<u64>> = vec![vec![0], vec![1], vec![0, 0], vec![0, 1], vec![1, 0], vec![1, 1]];
        let outcomes: [(Res, Res); 3] = [(Res::Ok, Res::Nf), (Res::Pe, Res::Ok), (Res::Nf, Res::Pe)];
        let mut oc = 0usize;
        for (ia, pa) in progs2.iter().enumerate() {
            for pb in progs2.iter().skip(ia) {
                // key symmetry: the first key mentioned is 0
                if pa[0] != 0 {
                    continue;
                }
                for d0 in 0..=2u32 {
                    for d1 in 0..=2u32 {
                        let uses1 = pa.iter().chain(pb.iter()).any(|k| *k == 1);
                        if !uses1 && d1 != 0 {
                            continue;
                        }
                        let (r0, r1) = outcomes[oc % 3];
                        oc += 1;
                        let mut sup = BTreeMap::new();
                        sup.insert(0u64, (d0, r0));
                        if uses1 {
                            sup.insert(1u64, (d1, r1));
                        }
                        // alternate the API used, deterministically
                        let progs: Vec<Vec<(u64, bool)>> = [pa, pb]
                            .iter()
                            .enumerate()
                            .map(|(t, p)| p.iter().enumerate().map(|(i, k)| (*k, (t + i + oc) % 3 == 0)).collect())
                            .collect();
                        let lookups: usize = progs.iter().map(|p| p.len()).sum();
                        let len = sched_len(&progs, &sup, lookups, if quick { 11 } else { 12 });
                        all_seqs(2, len, &mut |s| emit(fmt_cfg(&progs, &sup, 'a', s.to_vec())));
                    }
                }
            }
        }
        // ---- exhaustive: 3 tasks x 1 lookup x 2 keys x <=1 suspension
        for prog in [[0u64, 0, 0], [0, 0, 1], [0, 1, 0], [1, 0, 0]] {
            for d0 in 0..=1u32 {
                for d1 in 0..=1u32 {
                    for (r0, r1) in outcomes {
                        let mut sup = BTreeMap::new();
                        sup.insert(0u64, (d0, r0));
                        sup.insert(1u64, (d1, r1));
                        let progs: Vec<Vec<(u64, bool)>> = prog.iter().map(|k| vec![(*k, false)]).collect();
                        let len = sched_len(&progs, &sup, if quick { 3 } else { 4 }, if quick { 8 } else { 9 });
                        all_seqs(3, len, &mut |s| emit(fmt_cfg(&progs, &sup, 'a', s.to_vec())));
                    }
                }
            }
        }
        // ---- random: up to 4 x 3 x 3 x 3, three executors
        let n = if quick { 40_000 } else { 1_500_000 };
        for i in 0..n {
            let nt = rng.range(2, 4) as usize;
            let nk = rng.range(1, 3);
            let maxd = rng.range(0, 3) as u32;
            let mut sup = BTreeMap::new();
            for k in 0..nk {
                let r = *rng.pick(&[Res::Ok, Res::Ok, Res::Nf, Res::Pe]);
                sup.insert(k, (rng.range(0, maxd as u64) as u32, r));
            }
            let progs: Vec<Vec<(u64, bool)>> = (0..nt)
                .map(|_| {
                    let l = rng.range(1, 3);
                    (0..l).map(|_| (rng.below(nk), rng.chance(1, 4))).collect()
                })
                .collect();
            let total = sched_len(&progs, &sup, 0, 1000);
            let mode = match i % 16 {
                0 => 'j',
                1..=5 => 'w',
                _ => 'a',
            };
            let sched: Vec<u64> = match mode {
                'j' => vec![],
                'w' => (0..rng.range(0, 2 * total as u64)).map(|_| rng.below(4)).collect(),
                _ => {
                    let len = rng.range(0, 3 * total as u64);
                    // biased: sometimes hammer one task (spurious polls), sometimes uniform
                    let hammer = rng.below(nt as u64);
                    let bias = rng.below(3);
                    (0..len)
                        .map(|_| {
                            if bias == 0 && rng.chance(1, 2) {
                                hammer
                            } else if rng.chance(1, 50) {
                                nt as u64 // an id that is no task
                            } else {
                                rng.below(nt as u64)
                            }
                        })
                        .collect()
                }
            };
            emit(fmt_cfg(&progs, &sup, mode, sched));
        }
        gen_req(tier, rng, emit);
        gen_http(tier, rng, emit);
    }

    fn model_request(&self, case: &str) -> Option<String> {
        if case.starts_with("once req ") || case.starts_with("once http ") {
            return Some(case.to_string());
        }
        // the model knows keys, not how a module's identity is spelled: it gets the case without the variant
        let mut c = parse_case(case)?;
        c.variant = '0';
        Some(render(&c))
    }

    fn exec(&self, case: &str) -> ImplResult {
        let mut res = ImplResult::default();
        if case.starts_with("once req ") {
            return match parse_rcase(case) {
                Some(c) => rexec_case(&c),
                None => {
                    res.out = "bad-op".into();
                    res
                }
            };
        }
        if case.starts_with("once http ") {
            return match parse_hcase(case) {
                Some(c) => hexec_case(&c),
                None => {
                    res.out = "bad-op".into();
                    res
                }
            };
        }
        let Some(c) = parse_case(case) else {
            res.out = "bad-op".into();
            return res;
        };
        let run = catch(|| if c.mode == 'j' { run_join_all(&c) } else { run_scheduled(&c) });
        let r = match run {
            Ok(r) => r,
            Err(msg) => {
                res.out = "PANIC".into();
                res.oracle.push(("panic".into(), msg));
                return res;
            }
        };
        res.out = format!("{} {}", r.trace.join(";"), r.summary);
        res.oracle = oracle(&c, &r);
        let mut users: BTreeMap<u64, BTreeSet<usize>> = BTreeMap::new();
        for (t, p) in c.progs.iter().enumerate() {
            for (k, _) in p {
                users.entry(*k).or_default().insert(t);
            }
        }
        let shared_key = users.values().any(|u| u.len() >= 2);
        let suspending = c.sup.values().any(|(d, _)| *d > 0);
        res.nontrivial = shared_key && (r.blocked_polls > 0 || (c.mode == 'j' && suspending));
        res.tags.push(format!("exec:{}", c.mode));
        res.tags.push(format!("identity-variant:{}", c.variant));
        res.tags.push(format!("tasks:{}", c.progs.len()));
        res.tags.push(format!("keys:{}", c.sup.len()));
        res.tags.push(format!("max-suspensions:{}", c.sup.values().map(|(d, _)| *d).max().unwrap_or(0)));
        res.tags.push(format!("blocked-polls:{}", r.blocked_polls.min(5)));
        if shared_key {
            res.tags.push("shared-key".into());
        }
        for (_, (_, rr)) in &c.sup {
            res.tags.push(format!("outcome:{}", rr.s()));
        }
        if c.progs.iter().flatten().any(|(_, w)| *w) {
            res.tags.push("api:walk_frame".into());
        }
        res.tags.push(if r.finished.iter().all(|f| *f) { "all-finished".into() } else { "unfinished".into() });
        res
    }

    fn shrink(&self, case: &str, still_fails: &dyn Fn(&str) -> bool) -> String {
        if case.starts_with("once req ") {
            return rshrink(case, still_fails);
        }
        if case.starts_with("once http ") {
            return hshrink(case, still_fails);
        }
        let Some(mut c) = parse_case(case) else { return case.to_string() };
        let mut progress = true;
        while progress {
            progress = false;
            // drop schedule entries
            let mut i = 0;
            while i < c.sched.len() {
                let mut d = c.clone();
                d.sched.remove(i);
                if still_fails(&render(&d)) {
                    c = d;
                    progress = true;
                } else {
                    i += 1;
                }
            }
            // drop lookups (keep at least one task)
            for t in 0..c.progs.len() {
                let mut i = 0;
                while i < c.progs[t].len() {
                    let mut d = c.clone();
                    d.progs[t].remove(i);
                    if still_fails(&render(&d)) {
                        c = d;
                        progress = true;
                    } else {
                        i += 1;
                    }
                }
            }
            // drop the last task when its program is empty and the schedule never names it
            while c.progs.len() > 1 && c.progs.last().map(|p| p.is_empty()).unwrap_or(false) {
                let mut d = c.clone();
                d.progs.pop();
                if still_fails(&render(&d)) {
                    c = d;
                    progress = true;
                } else {
                    break;
                }
            }
            // smaller suspension counts, plain api
            let keys: Vec<u64> = c.sup.keys().copied().collect();
            for k in keys {
                while c.sup[&k].0 > 0 {
                    let mut d = c.clone();
                    d.sup.get_mut(&k).unwrap().0 -= 1;
                    if still_fails(&render(&d)) {
                        c = d;
                        progress = true;
                    } else {
                        break;
                    }
                }
            }
            for t in 0..c.progs.len() {
                for i in 0..c.progs[t].len() {
                    if c.progs[t][i].1 {
                        let mut d = c.clone();
                        d.progs[t][i].1 = false;
                        if still_fails(&render(&d)) {
                            c = d;
                            progress = true;
                        }
                    }
                }
            }
        }
        // cosmetic: with an empty schedule task ids do not matter — drop empty programs; drop
        // supplier entries no program mentions
        if c.sched.is_empty() && c.progs.iter().any(|p| p.is_empty()) && c.progs.iter().any(|p| !p.is_empty()) {
            let mut d = c.clone();
            d.progs.retain(|p| !p.is_empty());
            if still_fails(&render(&d)) {
                c = d;
            }
        }
        let used: BTreeSet<u64> = c.progs.iter().flatten().map(|(k, _)| *k).collect();
        if used.len() < c.sup.len() && !used.is_empty() {
            let mut d = c.clone();
            d.sup.retain(|k, _| used.contains(k));
            if still_fails(&render(&d)) {
                c = d;
            }
        }
        render(&c)
    }
}
