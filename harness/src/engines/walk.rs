//! Engine `walk` (C05, and the walk bound of C03): `minidump_unwind::walk_stack` on arbitrary
//! contexts / stack bytes / module lists / symbol records against the Lean model `MdModel.Walk`,
//! plus the property's own oracle (`WF`) evaluated on the implementation's `CallStack`.
//!
//! case line (see lean/MdModel/Walk.lean):
//!   walk <arch> <os> ctx:<r=v,..> valid:<all|-|r,..> stack:<none|base:hex> mods:<-|base:size:name,..>
//!        (sym:<module>:<records>)* (symraw:<module>:<hex text>)*
//! STACK CFI rule text inside `sym:` records: `C`/`A` readable (`_` = space, plain texts only),
//! `c`/`a` hex-encoded UTF-8 (anything a symbol-file line can hold).
//! optional LAST field `be:1` (`be:0`): the stack memory is read big-endian (a big-endian dump).
//! `symraw` fields carry arbitrary symbol text (corrupted files, STACK WIN records): such cases are
//! oracle-only (the model is not asked). The shared pieces are `pub` for the `chain` engine.

use crate::common::*;
use minidump::format as md;
use minidump::system_info::{Cpu, Os};
use minidump::*;
use minidump_unwind::{string_symbol_supplier, walk_stack, CallStack, FrameTrust, Symbolizer, SystemInfo};
use std::collections::{HashMap, HashSet};

pub struct Walk;

pub const ARCHS: &[&str] = &["x86", "amd64", "arm", "arm64", "arm64old", "mips32", "mips64"];
pub const OSES: &[&str] = &["windows", "linux", "macos", "ios", "android"];

#[derive(Clone, Debug, PartialEq)]
pub enum Rec {
    F { addr: u64, size: u32, psize: u32, name: String },
    P { addr: u64, psize: u32, name: String },
    C { addr: u64, size: u32, rules: String },
    A { addr: u64, rules: String },
}

#[derive(Clone, Debug, Default)]
pub struct Case {
    pub engine: String,
    pub arch: String,
    pub os: String,
    pub regs: Vec<(String, u64)>,
    pub valid: Option<Vec<String>>,
    pub stack: Option<(u64, Vec<u8>)>,
    pub mods: Vec<(u64, u32, String)>,
    pub syms: Vec<(String, Vec<Rec>)>,
    pub symraw: Vec<(String, Vec<u8>)>,
    /// extra leading fields of other engines (`chain` puts its technique/expectation there)
    pub extra: Vec<String>,
    /// the stack memory belongs to a big-endian dump (optional trailing field `be:1`)
    pub be: bool,
}

pub fn ptr_of(arch: &str) -> u64 {
    match arch {
        "x86" | "arm" | "mips32" => 4,
        _ => 8,
    }
}
pub fn adj_of(arch: &str) -> u64 {
    match arch {
        "x86" | "amd64" => 1,
        "arm" => 2,
        "arm64" | "arm64old" => 4,
        _ => 8,
    }
}
pub fn reg_max(arch: &str) -> u64 {
    match arch {
        "x86" | "arm" => u32::MAX as u64,
        _ => u64::MAX, // MIPS contexts store u64 in both modes
    }
}
pub fn ip_name(arch: &str) -> &'static str {
    match arch {
        "x86" => "eip",
        "amd64" => "rip",
        _ => "pc",
    }
}
pub fn sp_name(arch: &str) -> &'static str {
    match arch {
        "x86" => "esp",
        "amd64" => "rsp",
        _ => "sp",
    }
}
pub fn fp_name(arch: &str) -> &'static str {
    match arch {
        "x86" => "ebp",
        "amd64" => "rbp",
        _ => "fp",
    }
}
pub fn registers(arch: &str) -> &'static [&'static str] {
    match arch {
        "x86" => &["eip", "esp", "ebp", "ebx", "esi", "edi", "eax", "ecx", "edx", "eflags"],
        "amd64" => &[
            "rax", "rdx", "rcx", "rbx", "rsi", "rdi", "rbp", "rsp", "r8", "r9", "r10", "r11", "r12", "r13", "r14", "r15", "rip",
        ],
        "arm" => &["r0", "r1", "r2", "r3", "r4", "r5", "r6", "r7", "r8", "r9", "r10", "r12", "fp", "sp", "lr", "pc"],
        "arm64" | "arm64old" => &[
            "x0", "x1", "x2", "x3", "x4", "x5", "x6", "x7", "x8", "x9", "x10", "x11", "x12", "x13", "x14", "x15", "x16", "x17",
            "x18", "x19", "x20", "x21", "x22", "x23", "x24", "x25", "x26", "x27", "x28", "fp", "lr", "sp", "pc",
        ],
        _ => &["gp", "sp", "fp", "ra", "pc", "s0", "s1", "s2", "s3", "s4", "s5", "s6", "s7"],
    }
}
pub fn alias_names(arch: &str) -> &'static [&'static str] {
    match arch {
        "arm" => &["r11", "r13", "r14", "r15"],
        "arm64" | "arm64old" => &["x29", "x30"],
        _ => &[],
    }
}
fn static_name(arch: &str, n: &str) -> Option<&'static str> {
    registers(arch).iter().chain(alias_names(arch).iter()).find(|x| **x == n).copied()
}

// ------------------------------------------------------------------------------------ case text

// STACK CFI rule text travels in one of two forms: readable (`C|addr|size|rules`, `A|addr|rules`,
// `_` standing for a space) for plain texts, hex-encoded UTF-8 (`c|addr|size|hex`, `a|addr|hex`) for
// everything else a symbol-file line can hold (leading blanks, tabs, form feeds, `_ ; | ,`, non-ASCII).
// The readable form is exact on plain texts only, so it is used for nothing else; both are parsed
// (old corpus lines keep working).
fn enc_rules(r: &str) -> String {
    r.replace(' ', "_")
}
fn dec_rules(r: &str) -> String {
    r.replace('_', " ")
}
/// texts the readable form carries exactly
pub fn plain_rules(r: &str) -> bool {
    !r.is_empty()
        && !r.starts_with(' ')
        && r.chars().all(|c| c == ' ' || (c.is_ascii_graphic() && !matches!(c, '_' | ';' | '|' | ',')))
}
/// a symbol-file line cannot hold CR / LF
fn dec_hex_rules(h: &str) -> Option<String> {
    let t = String::from_utf8(unhex(h)?).ok()?;
    if t.contains('\n') || t.contains('\r') {
        return None;
    }
    Some(t)
}

pub fn render_recs(recs: &[Rec]) -> String {
    recs.iter()
        .map(|r| match r {
            Rec::F { addr, size, psize, name } => format!("F|{addr}|{size}|{psize}|{name}"),
            Rec::P { addr, psize, name } => format!("P|{addr}|{psize}|{name}"),
            Rec::C { addr, size, rules } if plain_rules(rules) => format!("C|{addr}|{size}|{}", enc_rules(rules)),
            Rec::A { addr, rules } if plain_rules(rules) => format!("A|{addr}|{}", enc_rules(rules)),
            Rec::C { addr, size, rules } => format!("c|{addr}|{size}|{}", hex(rules.as_bytes())),
            Rec::A { addr, rules } => format!("a|{addr}|{}", hex(rules.as_bytes())),
        })
        .collect::<Vec<_>>()
        .join(";")
}

impl Case {
    pub fn render(&self) -> String {
        let mut s = format!("{} ", self.engine);
        for e in &self.extra {
            s.push_str(e);
            s.push(' ');
        }
        s.push_str(&format!("{} {} ctx:", self.arch, self.os));
        s.push_str(&self.regs.iter().map(|(n, v)| format!("{n}={v}")).collect::<Vec<_>>().join(","));
        s.push_str(" valid:");
        match &self.valid {
            None => s.push_str("all"),
            Some(v) if v.is_empty() => s.push('-'),
            Some(v) => s.push_str(&v.join(",")),
        }
        match &self.stack {
            None => s.push_str(" stack:none"),
            Some((b, bytes)) => s.push_str(&format!(" stack:{}:{}", b, hex(bytes))),
        }
        s.push_str(" mods:");
        if self.mods.is_empty() {
            s.push('-');
        } else {
            s.push_str(&self.mods.iter().map(|(b, z, n)| format!("{b}:{z}:{n}")).collect::<Vec<_>>().join(","));
        }
        for (n, recs) in &self.syms {
            s.push_str(&format!(" sym:{}:{}", n, render_recs(recs)));
        }
        for (n, text) in &self.symraw {
            s.push_str(&format!(" symraw:{}:{}", n, hex(text)));
        }
        if self.be {
            s.push_str(" be:1");
        }
        s
    }

    /// `n_extra`: number of engine-specific fields between the engine name and the architecture
    pub fn parse(line: &str, n_extra: usize) -> Option<Case> {
        let f: Vec<&str> = line.split(' ').filter(|s| !s.is_empty()).collect();
        if f.len() < 7 + n_extra {
            return None;
        }
        let mut c = Case { engine: f[0].to_string(), ..Default::default() };
        c.extra = f[1..1 + n_extra].iter().map(|s| s.to_string()).collect();
        let f = &f[1 + n_extra..];
        c.arch = f[0].to_string();
        if !ARCHS.contains(&f[0]) {
            return None;
        }
        c.os = f[1].to_string();
        let regs = f[2].strip_prefix("ctx:")?;
        for a in regs.split(',').filter(|s| !s.is_empty()) {
            let (n, v) = a.split_once('=')?;
            let v: u64 = v.parse().ok()?;
            static_name(&c.arch, n)?;
            if v > reg_max(&c.arch) {
                return None;
            }
            c.regs.push((n.to_string(), v));
        }
        let valid = f[3].strip_prefix("valid:")?;
        c.valid = match valid {
            "all" => None,
            "-" => Some(vec![]),
            v => Some(v.split(',').filter(|s| !s.is_empty()).map(|s| s.to_string()).collect()),
        };
        let stack = f[4].strip_prefix("stack:")?;
        c.stack = if stack == "none" {
            None
        } else {
            let (b, h) = stack.split_once(':')?;
            Some((b.parse().ok()?, unhex(h)?))
        };
        let mods = f[5].strip_prefix("mods:")?;
        if mods != "-" {
            for m in mods.split(',').filter(|s| !s.is_empty()) {
                let p: Vec<&str> = m.split(':').collect();
                if p.len() != 3 {
                    return None;
                }
                c.mods.push((p[0].parse().ok()?, p[1].parse().ok()?, p[2].to_string()));
            }
        }
        let mut tail = &f[6..];
        if let Some(last) = tail.last().filter(|l| **l == "be:1" || **l == "be:0") {
            c.be = *last == "be:1";
            tail = &tail[..tail.len() - 1];
        }
        for s in tail {
            if let Some(body) = s.strip_prefix("sym:") {
                let (n, recs) = body.split_once(':').unwrap_or((body, ""));
                let mut out = vec![];
                for r in recs.split(';').filter(|s| !s.is_empty()) {
                    let p: Vec<&str> = r.split('|').collect();
                    out.push(match p.as_slice() {
                        ["F", a, z, ps, n] => Rec::F { addr: a.parse().ok()?, size: z.parse().ok()?, psize: ps.parse().ok()?, name: n.to_string() },
                        ["P", a, ps, n] => Rec::P { addr: a.parse().ok()?, psize: ps.parse().ok()?, name: n.to_string() },
                        ["C", a, z, r] => Rec::C { addr: a.parse().ok()?, size: z.parse().ok()?, rules: dec_rules(r) },
                        ["A", a, r] => Rec::A { addr: a.parse().ok()?, rules: dec_rules(r) },
                        ["c", a, z, h] => Rec::C { addr: a.parse().ok()?, size: z.parse().ok()?, rules: dec_hex_rules(h)? },
                        ["a", a, h] => Rec::A { addr: a.parse().ok()?, rules: dec_hex_rules(h)? },
                        _ => return None,
                    });
                }
                c.syms.push((n.to_string(), out));
            } else if let Some(body) = s.strip_prefix("symraw:") {
                let (n, h) = body.split_once(':')?;
                c.symraw.push((n.to_string(), unhex(h)?));
            } else {
                return None;
            }
        }
        Some(c)
    }
}

/// breakpad text of a record list
pub fn sym_text(name: &str, recs: &[Rec]) -> String {
    let mut t = format!("MODULE Linux x86 000000000000000000000000000000000 {name}\n");
    for r in recs {
        match r {
            Rec::F { addr, size, psize, name } => t.push_str(&format!("FUNC {addr:x} {size:x} {psize:x} {name}\n")),
            Rec::P { addr, psize, name } => t.push_str(&format!("PUBLIC {addr:x} {psize:x} {name}\n")),
            Rec::C { addr, size, rules } => t.push_str(&format!("STACK CFI INIT {addr:x} {size:x} {rules}\n")),
            Rec::A { addr, rules } => t.push_str(&format!("STACK CFI {addr:x} {rules}\n")),
        }
    }
    t
}

// ----------------------------------------------------------------------------- running the code

fn set_all<C: CpuContext>(c: &mut C, regs: &[(String, u64)], conv: impl Fn(u64) -> C::Register) {
    for (n, v) in regs {
        c.set_register(n, conv(*v)).expect("register name");
    }
}

pub fn build_context(case: &Case) -> MinidumpContext {
    let raw = match case.arch.as_str() {
        "x86" => {
            let mut c = md::CONTEXT_X86::default();
            set_all(&mut c, &case.regs, |v| v as u32);
            MinidumpRawContext::X86(c)
        }
        "amd64" => {
            let mut c = md::CONTEXT_AMD64::default();
            set_all(&mut c, &case.regs, |v| v);
            MinidumpRawContext::Amd64(c)
        }
        "arm" => {
            let mut c = md::CONTEXT_ARM::default();
            set_all(&mut c, &case.regs, |v| v as u32);
            MinidumpRawContext::Arm(c)
        }
        "arm64" => {
            let mut c = md::CONTEXT_ARM64::default();
            set_all(&mut c, &case.regs, |v| v);
            MinidumpRawContext::Arm64(c)
        }
        "arm64old" => {
            let mut c = md::CONTEXT_ARM64_OLD::default();
            set_all(&mut c, &case.regs, |v| v);
            MinidumpRawContext::OldArm64(c)
        }
        m => {
            let mut c = md::CONTEXT_MIPS::default();
            c.context_flags = if m == "mips64" {
                (md::ContextFlagsCpu::CONTEXT_MIPS | md::ContextFlagsCpu::CONTEXT_MIPS64).bits()
            } else {
                md::ContextFlagsCpu::CONTEXT_MIPS.bits()
            };
            set_all(&mut c, &case.regs, |v| v);
            MinidumpRawContext::Mips(c)
        }
    };
    let valid = match &case.valid {
        None => MinidumpContextValidity::All,
        Some(names) => {
            MinidumpContextValidity::Some(names.iter().map(|n| static_name(&case.arch, n).expect("validity name")).collect::<HashSet<_>>())
        }
    };
    MinidumpContext { raw, valid }
}

pub fn system_info(case: &Case) -> SystemInfo {
    SystemInfo {
        os: match case.os.as_str() {
            "windows" => Os::Windows,
            "ios" => Os::Ios,
            "macos" => Os::MacOs,
            "android" => Os::Android,
            _ => Os::Linux,
        },
        os_version: None,
        os_build: None,
        cpu: match case.arch.as_str() {
            "x86" => Cpu::X86,
            "amd64" => Cpu::X86_64,
            "arm" => Cpu::Arm,
            "arm64" | "arm64old" => Cpu::Arm64,
            "mips32" => Cpu::Mips,
            _ => Cpu::Mips64,
        },
        cpu_info: None,
        cpu_microcode_version: None,
        cpu_count: 1,
    }
}

thread_local! {
    static RT: tokio::runtime::Runtime = tokio::runtime::Builder::new_current_thread().build().unwrap();
}

pub fn symbol_map(case: &Case) -> HashMap<String, String> {
    let mut m = HashMap::new();
    for (n, recs) in &case.syms {
        m.insert(n.clone(), sym_text(n, recs));
    }
    for (n, text) in &case.symraw {
        m.insert(n.clone(), String::from_utf8_lossy(text).into_owned());
    }
    m
}

/// the real walker on the case; `Err` = it panicked
pub fn run_walk(case: &Case) -> Result<CallStack, String> {
    let context = build_context(case);
    let modules = MinidumpModuleList::from_modules(case.mods.iter().map(|(b, z, n)| MinidumpModule::new(*b, *z, n)).collect());
    let sysinfo = system_info(case);
    let symbols = symbol_map(case);
    catch(|| {
        let symbolizer = Symbolizer::new(string_symbol_supplier(symbols));
        let mut stack = CallStack::with_context(context);
        let mem = case.stack.as_ref().map(|(base, bytes)| MinidumpMemory {
            desc: Default::default(),
            base_address: *base,
            size: bytes.len() as u64,
            bytes,
            endian: if case.be { scroll::BE } else { scroll::LE },
        });
        // a walk that does not stop would exhaust memory: cut it off well past the C03 bound
        let limit = case.stack.as_ref().map(|s| s.1.len()).unwrap_or(0) + 64;
        let guard = move |idx: usize, _f: &minidump_unwind::StackFrame| {
            if idx > limit {
                panic!("walk exceeded {limit} frames (stack bytes + 64): no progress");
            }
        };
        RT.with(|rt| {
            rt.block_on(walk_stack(0, guard, &mut stack, mem.as_ref().map(UnifiedMemory::Memory), &modules, &sysinfo, &symbolizer))
        });
        stack
    })
}

pub fn trust_str(t: FrameTrust) -> &'static str {
    t.as_str()
}

/// canonical line of a call stack (same format as the model's answer)
pub fn show_stack(case: &Case, stack: &CallStack) -> String {
    let mut out = String::from("frames:");
    for (i, f) in stack.frames.iter().enumerate() {
        if i > 0 {
            out.push(';');
        }
        let m = match &f.module {
            Some(m) => case
                .mods
                .iter()
                .position(|(b, z, n)| *b == m.base_address() && *z as u64 == m.size() && *n == m.name)
                .map(|i| i.to_string())
                .unwrap_or_else(|| "?".into()),
            None => "-".into(),
        };
        let func = match (&f.function_name, f.function_base, f.parameter_size) {
            (Some(n), Some(b), Some(p)) => format!("{n}@{b}/{p}"),
            (None, None, None) => "-".into(),
            _ => "?".into(),
        };
        let valid = match &f.context.valid {
            MinidumpContextValidity::All => "all".to_string(),
            MinidumpContextValidity::Some(set) => {
                let mut names: Vec<&&str> = set.iter().collect();
                names.sort();
                names.iter().map(|n| format!("{}={}", n, f.context.get_register_always(n))).collect::<Vec<_>>().join(",")
            }
        };
        out.push_str(&format!(
            "{}|ip={}|in={}|sp={}|m={}|f={}|v={}",
            trust_str(f.trust),
            f.context.get_instruction_pointer(),
            f.instruction,
            f.context.get_stack_pointer(),
            m,
            func,
            valid
        ));
    }
    out
}

/// a `w`-byte word in the given byte order
fn read_word(bytes: &[u8], off: u64, w: u64, be: bool) -> Option<u64> {
    let off = usize::try_from(off).ok()?;
    let end = off.checked_add(w as usize)?;
    let s = bytes.get(off..end)?;
    let mut v = 0u64;
    for (i, b) in s.iter().enumerate() {
        v |= (*b as u64) << (8 * if be { s.len() - 1 - i } else { i });
    }
    Some(v)
}

/// The property's oracle: C05's `WF` (and C03's frame bound) evaluated on what `walk_stack`
/// returned, using nothing but the case's inputs.
pub fn wf_oracle(case: &Case, stack: &CallStack) -> Vec<(String, String)> {
    let mut bad: Vec<(String, String)> = vec![];
    let arch = case.arch.as_str();
    let frames = &stack.frames;
    let Some(f0) = frames.first() else {
        bad.push(("no-context-frame".into(), "walk_stack returned no frame".into()));
        return bad;
    };
    let ip0 = case.regs.iter().rev().find(|(n, _)| canon(arch, n) == ip_name(arch)).map(|x| x.1).unwrap_or(0);
    if f0.trust != FrameTrust::Context || f0.instruction != ip0 || f0.resume_address != ip0 || f0.context.get_instruction_pointer() != ip0 {
        bad.push((
            "context-frame".into(),
            format!("frame 0: trust={} instruction={} resume={} context ip={ip0}", f0.trust.as_str(), f0.instruction, f0.resume_address),
        ));
    }
    let leaf_ok = !matches!(arch, "x86" | "amd64");
    for (i, f) in frames.iter().enumerate() {
        let ra = f.resume_address;
        if f.context.get_instruction_pointer() != ra {
            bad.push(("resume-not-context-ip".into(), format!("frame {i}: resume_address {ra} != context ip {}", f.context.get_instruction_pointer())));
        }
        if i > 0 {
            let prev = &frames[i - 1];
            if ra < 4096 {
                bad.push(("return-address-below-4096".into(), format!("frame {i}: return address {ra}")));
            }
            if Some(f.instruction) != ra.checked_sub(adj_of(arch)) {
                bad.push(("lookup-address-not-adjusted".into(), format!("frame {i}: instruction {} for return address {ra} (adjustment {})", f.instruction, adj_of(arch))));
            }
            if !matches!(f.trust, FrameTrust::CallFrameInfo | FrameTrust::FramePointer | FrameTrust::Scan) {
                bad.push(("trust-not-cfi-fp-scan".into(), format!("frame {i}: trust {}", f.trust.as_str())));
            }
            let (sp, psp) = (f.context.get_stack_pointer(), prev.context.get_stack_pointer());
            let repeat_ok = leaf_ok && i == 1 && sp == psp;
            if sp <= psp && !repeat_ok {
                bad.push(("sp-not-increasing".into(), format!("frame {}: sp {psp} -> frame {i}: sp {sp}", i - 1)));
            }
            if f.trust == FrameTrust::Scan {
                // width of the word the previous frame was scanned with
                let w = match &prev.context.raw {
                    MinidumpRawContext::Mips(c) => {
                        if c.context_flags & md::ContextFlagsCpu::CONTEXT_MIPS64.bits() != 0 {
                            8
                        } else {
                            4
                        }
                    }
                    _ => ptr_of(arch),
                };
                let word = case.stack.as_ref().and_then(|(base, bytes)| {
                    let addr = sp.checked_sub(w)?;
                    read_word(bytes, addr.checked_sub(*base)?, w, case.be)
                });
                if word != Some(ra) {
                    bad.push(("scan-word-mismatch".into(), format!("frame {i}: sp {sp}, return address {ra}, word below sp inside the stack memory: {word:?}")));
                }
            }
        }
        // module / function cover the lookup address
        if let Some(m) = &f.module {
            let (b, z) = (m.base_address(), m.size());
            if !(b <= f.instruction && f.instruction - b < z) {
                bad.push(("module-does-not-cover".into(), format!("frame {i}: instruction {} module {}+{}", f.instruction, b, z)));
            }
            if let (Some(name), Some(fb)) = (&f.function_name, f.function_base) {
                let mut ok = fb <= f.instruction && fb >= b;
                if ok {
                    if let Some((_, recs)) = case.syms.iter().find(|(n, _)| *n == m.name) {
                        let rel = f.instruction - b;
                        ok = recs.iter().any(|r| match r {
                            Rec::F { addr, size, name: n, .. } => addr + b == fb && n == name && *addr <= rel && rel - addr < *size as u64,
                            // a PUBLIC has no end: it covers every address at or above it (whether a FUNC
                            // in between should cut it short is C11's question, not asked here)
                            Rec::P { addr, name: n, .. } => addr + b == fb && n == name && *addr <= rel,
                            _ => false,
                        });
                    }
                }
                if !ok {
                    bad.push(("function-does-not-cover".into(), format!("frame {i}: instruction {} function {name}@{fb} module base {b}", f.instruction)));
                }
            }
        } else if f.function_name.is_some() {
            bad.push(("function-without-module".into(), format!("frame {i}")));
        }
    }
    // C03: no thread is walked for more frames than its stack memory has bytes (plus two)
    let bytes = case.stack.as_ref().map(|s| s.1.len()).unwrap_or(0);
    if frames.len() > bytes + 2 {
        bad.push(("too-many-frames".into(), format!("{} frames for {} bytes of stack memory", frames.len(), bytes)));
    }
    bad
}

pub fn canon(arch: &str, n: &str) -> &'static str {
    match (arch, n) {
        ("arm", "r11") => "fp",
        ("arm", "r13") => "sp",
        ("arm", "r14") => "lr",
        ("arm", "r15") => "pc",
        ("arm64" | "arm64old", "x29") => "fp",
        ("arm64" | "arm64old", "x30") => "lr",
        _ => static_name(arch, n).unwrap_or("?"),
    }
}

/// distribution tags of a walk
pub fn walk_tags(case: &Case, stack: &CallStack, res: &mut ImplResult) {
    res.tags.push(format!("arch:{}", case.arch));
    res.tags.push(format!("os:{}", case.os));
    let n = stack.frames.len();
    res.tags.push(format!("frames:{}", if n <= 4 { n.to_string() } else if n <= 16 { "5-16".into() } else { "17+".into() }));
    for f in stack.frames.iter().skip(1) {
        res.tags.push(format!("via:{}", f.trust.as_str()));
    }
    if let Some((base, bytes)) = &case.stack {
        if base.checked_add(bytes.len() as u64).map_or(true, |e| e >= u64::MAX - 64) {
            res.tags.push("stack-at-top".into());
        }
        let sp = stack.frames[0].context.get_stack_pointer();
        if sp < *base || sp - *base >= bytes.len() as u64 {
            res.tags.push("sp-outside-stack".into());
        }
    }
    if stack.frames.len() > 1 && stack.frames[1].context.get_stack_pointer() == stack.frames[0].context.get_stack_pointer() {
        res.tags.push("leaf-repeat".into());
    }
    // STACK CFI rule texts only the hex form of the protocol carries
    let texts = case.syms.iter().flat_map(|(_, recs)| recs.iter()).filter_map(|r| match r {
        Rec::C { rules, .. } | Rec::A { rules, .. } => Some(rules.as_str()),
        _ => None,
    });
    let (mut hexed, mut lead) = (false, false);
    for t in texts {
        hexed |= !plain_rules(t);
        lead |= t.starts_with(' ') || t.starts_with('\t');
    }
    if hexed {
        res.tags.push("cfi-text:hex".into());
        if stack.frames.iter().skip(1).any(|f| f.trust == FrameTrust::CallFrameInfo) {
            res.tags.push("cfi-text:hex+cfi-frame".into());
        }
    }
    if lead {
        res.tags.push("cfi-text:leading-blank".into());
    }
}

// ----------------------------------------------------------------------------------- generator

fn boundary(rng: &mut Rng, arch: &str) -> u64 {
    let m = reg_max(arch).min(if ptr_of(arch) == 4 { u32::MAX as u64 } else { u64::MAX });
    match rng.below(8) {
        0 => 0,
        1 => u32::MAX as u64,
        2 => m,
        3 => m - rng.below(32),
        4 => rng.below(8192),
        5 => (u32::MAX as u64).wrapping_add(rng.below(16)).min(m),
        _ => rng.next() & m,
    }
}

pub struct World {
    pub mods: Vec<(u64, u32, String)>,
    pub syms: Vec<(String, Vec<Rec>)>,
    /// plausible return addresses: (absolute address, has a FUNC/PUBLIC covering it)
    pub rets: Vec<u64>,
}

/// `cfi_rules`, now and then written the way only the hex form of the protocol can carry: leading
/// blanks / tabs (swallowed by the symbol-file parser: matters for the order of two deltas at one
/// address), tabs / form feeds / runs of blanks between tokens, a leading form feed (NOT swallowed),
/// trailing blanks, and tokens with `_`, `;`, `|`, `,` or non-ASCII characters (unknown registers)
fn cfi_rules_text(rng: &mut Rng, arch: &str) -> String {
    let mut s = cfi_rules(rng, arch);
    if !rng.chance(1, 10) {
        return s;
    }
    if rng.chance(1, 2) {
        const ODD: &[&str] = &["r_x: 1", "$r_x: .cfa", "a|b: 2", "x;y: 3", "p,q: 4", "\u{e9}: 5", "\u{10000}z: 6", "_: 7",
            "$rbx: $r_x", "$ebx: a|b", "x19: \u{a0}"];
        s.push(' ');
        s.push_str(*rng.pick(ODD));
    }
    if rng.chance(1, 2) {
        const SEP: &[&str] = &["\t", "  ", "\x0c", " \t ", "\t\t"];
        let sep = *rng.pick(SEP);
        let n = 1 + rng.below(3) as usize;
        for _ in 0..n {
            let idx: Vec<usize> = s.match_indices(' ').map(|(i, _)| i).collect();
            if idx.is_empty() {
                break;
            }
            let i = *rng.pick(&idx[..]);
            s.replace_range(i..i + 1, sep);
        }
    }
    match rng.below(6) {
        0 => s.insert(0, ' '),
        1 => s.insert(0, '\t'),
        2 => s.insert_str(0, " \t  "),
        3 => s.insert(0, '\x0c'),
        4 => s.push_str(" \t"),
        _ => {}
    }
    s
}

fn cfi_rules(rng: &mut Rng, arch: &str) -> String {
    let d = if matches!(arch, "x86" | "amd64" | "mips32" | "mips64") { "$" } else { "" };
    let sp = format!("{d}{}", sp_name(arch));
    let fp = format!("{d}{}", fp_name(arch));
    let w = ptr_of(arch) as i64;
    let n: i64 = match rng.below(10) {
        0 => 0,
        1 => -w,
        2 => -1,
        3 => 1,
        4 => w,
        5 => 2 * w,
        6 => 4 * w,
        7 => rng.below(256) as i64,
        8 => -(rng.below(64) as i64),
        _ => 6 * w,
    };
    let cfa = match rng.below(12) {
        0 => format!("{fp} {n} +"),
        1 => format!("{}", rng.below(1 << 20)),
        2 => ".cfa 8 +".to_string(),
        3 => format!("{sp} {} @", 1u64 << rng.below(6)),
        4 => format!("{sp} {n} -"),
        5 => format!("{sp}"),
        _ => format!("{sp} {n} +"),
    };
    let lr = match arch {
        "arm" | "arm64" | "arm64old" => "lr".to_string(),
        "mips32" | "mips64" => "$ra".to_string(),
        _ => format!("{d}{}", ip_name(arch)),
    };
    let ra = match rng.below(12) {
        0 => format!("{}", 4096 + rng.below(1 << 30)),
        1 => format!("{}", rng.below(5000)),
        2 => lr,
        3 => ".undef".to_string(),
        4 => format!(".cfa {} - ^", w),
        5 => format!(".cfa {} + ^", rng.below(4) as i64 * w),
        6 => format!("{sp} ^"),
        7 => "$nosuchreg".to_string(),
        8 => format!("{}", (1u64 << 32) + rng.below(1 << 20)),
        9 if rng.chance(1, 3) => {
            const EDGE: &[&str] = &["0", "1", "-1", "-9223372036854775808", "9223372036854775807", "4294967296", "-2147483648"];
            format!("{} {} {}", rng.pick(EDGE), rng.pick(EDGE), rng.pick(&["/", "%", "*", "+", "-", "@"]))
        }
        _ => format!(".cfa -{} + ^", w),
    };
    let mut s = format!(".cfa: {cfa} .ra: {ra}");
    // saved registers
    let saved: &[&str] = match arch {
        "x86" => &["$ebp", "$ebx", "$esi", "$edi", "$eax"],
        "amd64" => &["$rbp", "$rbx", "$r12", "$r15", "$rax"],
        "arm" => &["r4", "r7", "r11", "fp", "lr", "r14"],
        "arm64" | "arm64old" => &["x19", "x29", "fp", "x30", "lr", "x0"],
        _ => &["$s0", "$fp", "$gp", "$sp", "$ra"],
    };
    for _ in 0..rng.below(4) {
        let r = *rng.pick(saved);
        let e = match rng.below(7) {
            0 => ".undef".to_string(),
            1 => format!("{r}"),
            2 => format!("{}", rng.next() >> rng.below(64)),
            3 => "1 +".to_string(),
            // arithmetic at the edges of i64 / u64: every operator on every pair of extreme operands
            // (a signed or checked reading of an operator panics or differs exactly here)
            4 => {
                const EDGE: &[&str] = &["0", "1", "-1", "2", "-2", "-9223372036854775808", "9223372036854775807",
                    "-9223372036854775807", "4294967296", "-4294967296", "2147483647", "-2147483648", "64", "63"];
                format!("{} {} {}", rng.pick(EDGE), rng.pick(EDGE), rng.pick(&["/", "%", "*", "+", "-", "@"]))
            }
            _ => format!(".cfa {} - ^", (2 + rng.below(6)) as i64 * w),
        };
        s.push_str(&format!(" {r}: {e}"));
    }
    s
}

pub fn gen_world(rng: &mut Rng, arch: &str, with_cfi: bool) -> World {
    let wide = ptr_of(arch) == 8;
    let nmods = rng.below(4);
    let mut w = World { mods: vec![], syms: vec![], rets: vec![] };
    for i in 0..nmods {
        let base = match rng.below(if wide { 7 } else { 5 }) {
            0 => 0x1000 + rng.below(0x4000),
            1 => 0x40_0000 + rng.below(16) * 0x1_0000,
            2 => 0xf000_0000u64 + rng.below(0x0ff0_0000),
            3 => rng.below(0x2000),
            4 => 0x0800_0000 + rng.below(0x100_0000),
            5 => 0x7400_c000_0000u64 + rng.below(16) * 0x10_0000,
            _ => match rng.below(3) {
                0 => 0xffff_8000_0000_0000u64 + rng.below(1 << 30),
                1 => (1u64 << 52) - 0x8000 + rng.below(0x10000),
                _ => u64::MAX - rng.below(0x20000),
            },
        };
        let size = match rng.below(6) {
            0 => 0,
            1 => 1 + rng.below(64),
            2 => u32::MAX as u64,
            _ => 0x1000 + rng.below(0x2_0000),
        } as u32;
        // sometimes overlap the previous module
        let base = if i > 0 && rng.chance(1, 6) { w.mods[i as usize - 1].0.wrapping_add(rng.below(0x800)) } else { base };
        // ... or sit exactly behind it (first byte = one past the previous module's last byte)
        let base = if i > 0 && rng.chance(1, 6) {
            let (pb, pz, _) = &w.mods[i as usize - 1];
            pb.wrapping_add(*pz as u64)
        } else {
            base
        };
        let name = format!("m{i}");
        let mut recs = vec![];
        let mut cycle_entry: Option<u64> = None;
        let have_syms = rng.chance(3, 4);
        if have_syms {
            let nf = rng.below(5);
            let mut at = rng.below(0x200);
            for k in 0..nf {
                let size = match rng.below(8) {
                    0 => 0,
                    1 => 1,
                    _ => 8 + rng.below(0x400),
                };
                recs.push(Rec::F { addr: at, size: size as u32, psize: rng.below(3) as u32 * 4, name: format!("f{i}x{k}") });
                if with_cfi && rng.chance(2, 3) {
                    recs.push(Rec::C { addr: at, size: if rng.chance(1, 8) { size as u32 / 2 } else { size as u32 }, rules: cfi_rules_text(rng, arch) });
                    for _ in 0..rng.below(3) {
                        recs.push(Rec::A { addr: at + rng.below(size.max(1) + 2), rules: cfi_rules_text(rng, arch) });
                    }
                    if rng.chance(1, 12) {
                        // two deltas at ONE address that give one register different values and differ in
                        // their leading blanks: which one wins is decided by the order of the STORED texts
                        let a2 = at + rng.below(size.max(1) + 1);
                        let r = match arch {
                            "x86" => "$ebx",
                            "amd64" => "$rbx",
                            "arm" => "r4",
                            "arm64" | "arm64old" => "x19",
                            _ => "$s0",
                        };
                        let lead = *rng.pick(&[" ", "\t", "  ", " \t"]);
                        let (v1, v2) = (1 + rng.below(4), 5 + rng.below(4)); // stored order: t2 < t1; order as written in the file: t1 < t2
                        let (t1, t2) = (format!("{lead}{r}: {v2}"), format!("{r}: {v1}"));
                        if rng.chance(1, 2) {
                            recs.push(Rec::A { addr: a2, rules: t1 });
                            recs.push(Rec::A { addr: a2, rules: t2 });
                        } else {
                            recs.push(Rec::A { addr: a2, rules: t2 });
                            recs.push(Rec::A { addr: a2, rules: t1 });
                        }
                    }
                }
                // next function: adjacent, gap, or overlapping
                at = match rng.below(6) {
                    0 => at + size / 2,
                    1 => at + size,
                    _ => at + size + rng.below(0x80),
                };
            }
            for k in 0..rng.below(3) {
                recs.push(Rec::P { addr: rng.below(at + 0x100), psize: 0, name: format!("p{i}x{k}") });
            }
            if with_cfi && rng.chance(1, 4) {
                // CFI without a FUNC
                recs.push(Rec::C { addr: at + 0x100, size: 0x100, rules: cfi_rules(rng, arch) });
            }
            if with_cfi && size > 0 && rng.chance(1, 5) {
                // hostile CFI that sends the walk in circles: k records whose constant return addresses
                // point into one another and whose CFA does not move (or crawls by one byte) - the only
                // thing that ends such a walk is the unwinder's own progress / in-stack test (C03's bound)
                let k = 1 + rng.below(3);
                let first = at + 0x200;
                let sp = if matches!(arch, "x86" | "amd64" | "mips32" | "mips64") { format!("${}", sp_name(arch)) } else { sp_name(arch).to_string() };
                for j in 0..k {
                    let next = first + ((j + 1) % k) * 0x40 + 0x10 + rng.below(8);
                    let cfa = match rng.below(4) {
                        0 => sp.clone(),
                        1 => format!("{sp} 0 +"),
                        2 => format!("{sp} 1 +"),
                        _ => format!("{sp} {} +", ptr_of(arch)),
                    };
                    recs.push(Rec::C { addr: first + j * 0x40, size: 0x40, rules: format!(".cfa: {cfa} .ra: {}", base.wrapping_add(next)) });
                }
                cycle_entry = Some(base.wrapping_add(first + 0x10 + rng.below(8)));
            }
            w.syms.push((name.clone(), recs.clone()));
        }
        if let Some(e) = cycle_entry.take() {
            // make the cycle reachable: several candidates for the context ip / stack words
            for _ in 0..4 {
                w.rets.push(e);
            }
        }
        // plausible return addresses inside this module
        if size > 0 {
            for r in &recs {
                if let Rec::F { addr, size: fs, .. } = r {
                    if *fs > 0 {
                        w.rets.push(base.wrapping_add(*addr + rng.below(*fs as u64 + 1)));
                    }
                }
                if let Rec::P { addr, .. } = r {
                    w.rets.push(base.wrapping_add(*addr + 1 + rng.below(16)));
                }
            }
            w.rets.push(base.wrapping_add(rng.below(size as u64)));
            w.rets.push(base.wrapping_add(1));
            w.rets.push(base.wrapping_add(size as u64));
            // return addresses whose LOOKUP address (ret - call adjustment) is the first / last byte of the
            // module or the first byte behind it (= first byte of a module mapped right after it)
            let adj = adj_of(arch);
            w.rets.push(base.wrapping_add(size as u64).wrapping_add(adj));
            w.rets.push(base.wrapping_add(size as u64).wrapping_add(adj).wrapping_sub(1));
            w.rets.push(base.wrapping_add(adj));
        }
        w.mods.push((base, size, name));
    }
    if !wide {
        w.rets.retain(|r| *r <= u32::MAX as u64);
    }
    w
}

fn gen_stack(rng: &mut Rng, arch: &str, world: &World) -> (u64, Vec<u8>) {
    let p = ptr_of(arch);
    let wide = p == 8;
    let words = match rng.below(10) {
        0 => 0,
        1 => rng.below(4),
        2 => 160 + rng.below(120),
        3 => 256 + rng.below(64),
        _ => 4 + rng.below(80),
    };
    let mut len = words * p + if rng.chance(1, 6) { rng.below(p) } else { 0 };
    let top: u64 = if wide { u64::MAX } else { u32::MAX as u64 };
    let base = match rng.below(12) {
        0 => (top - len).wrapping_add(1),          // base + size = 2^w exactly
        1 => top - len,                          // ends one below the top
        2 => (top - len).saturating_sub(rng.below(64)),
        3 => top - rng.below(len + 1),           // overflows the address space
        4 => rng.below(64),
        5 if wide => (1u64 << 32) - rng.below(len + 1),
        6 if wide => 0x7fff_ffff_f000 - rng.below(0x1000),
        _ => (0x1000 + (rng.next() & if wide { 0x0000_7fff_ffff_ffff } else { 0x7fff_ffff })) & !(p - 1) | if rng.chance(1, 10) { rng.below(p) } else { 0 },
    };
    if !wide && rng.chance(1, 30) {
        len = len.min(64);
    }
    let mut bytes = vec![0u8; len as usize];
    let nwords = len / p;
    let addr_mask = if wide { u64::MAX } else { u32::MAX as u64 };
    // plausible frame pointers form chains upwards
    let ret_density = *rng.pick(&[0u64, 2, 5, 12, 40]);
    for i in 0..nwords {
        let here = base.wrapping_add(i * p);
        let v: u64 = match rng.below(100) {
            x if x < ret_density && !world.rets.is_empty() => *rng.pick(&world.rets),
            x if x < ret_density + 15 => here.wrapping_add((1 + rng.below(12)) * p), // pointer up the stack
            x if x < ret_density + 20 => here.wrapping_sub(rng.below(8) * p),       // pointer down / self
            x if x < ret_density + 24 => boundary(rng, arch),
            x if x < ret_density + 28 => rng.below(8192),
            x if x < ret_density + 50 => rng.next(),
            _ => 0,
        } & addr_mask;
        for k in 0..p {
            bytes[(i * p + k) as usize] = (v >> (8 * k)) as u8;
        }
    }
    (base, bytes)
}

fn gen_case(rng: &mut Rng, arch: &str, os: &str, with_cfi: bool) -> Case {
    let p = ptr_of(arch);
    let world = gen_world(rng, arch, with_cfi);
    let stack = gen_stack(rng, arch, &world);
    let (base, len) = (stack.0, stack.1.len() as u64);
    let m = if p == 4 { u32::MAX as u64 } else { u64::MAX };
    let inside = |rng: &mut Rng| -> u64 {
        if len == 0 {
            return base;
        }
        let words = (len / p).max(1);
        (base.wrapping_add(match rng.below(8) {
            0 => 0,
            1 => len - 1,
            2 => len.saturating_sub(p),
            3 => rng.below(len),
            _ => rng.below(words.min(24)) * p,
        })) & m
    };
    let mut regs: Vec<(String, u64)> = vec![];
    // instruction pointer
    let ip = match rng.below(8) {
        0 => boundary(rng, arch),
        1 => rng.below(5000),
        _ if !world.rets.is_empty() => *rng.pick(&world.rets),
        _ => rng.next() & m,
    };
    regs.push((ip_name(arch).into(), ip & if arch.starts_with("mips") { u64::MAX } else { m }));
    let sp = match rng.below(16) {
        0 => boundary(rng, arch),
        1 => base.wrapping_sub(1 + rng.below(16)) & m,
        2 => base.wrapping_add(len + rng.below(16)) & m,
        3 if arch.starts_with("mips") => inside(rng) | (rng.below(3) << 32),
        _ => inside(rng),
    };
    regs.push((sp_name(arch).into(), sp));
    let fp = match rng.below(10) {
        0 => boundary(rng, arch),
        1 => 0,
        2 => sp,
        3 => m - rng.below(24),
        _ => inside(rng),
    };
    regs.push((fp_name(arch).into(), fp));
    // a few other registers (callee-saved ones matter for CFI forwarding)
    for r in registers(arch) {
        if [ip_name(arch), sp_name(arch), fp_name(arch)].contains(r) {
            continue;
        }
        if rng.chance(1, 4) {
            let v = match rng.below(4) {
                0 => inside(rng),
                1 if !world.rets.is_empty() => *rng.pick(&world.rets),
                _ => rng.next() & m,
            };
            regs.push((r.to_string(), v));
        }
    }
    let valid = if rng.chance(4, 5) {
        None
    } else {
        let mut v: Vec<String> = vec![];
        for r in registers(arch).iter().chain(alias_names(arch).iter()) {
            let important = [ip_name(arch), sp_name(arch), fp_name(arch)].contains(r);
            if rng.chance(if important { 3 } else { 1 }, if important { 4 } else { 3 }) {
                v.push(r.to_string());
            }
        }
        Some(v)
    };
    Case {
        engine: "walk".into(),
        arch: arch.into(),
        os: os.into(),
        regs,
        valid,
        stack: if rng.chance(1, 40) { None } else { Some(stack) },
        mods: world.mods,
        syms: world.syms,
        symraw: vec![],
        extra: vec![],
        be: false,
    }
}


/// function of a tidy world: module index, absolute start, size, frame size in words if it has CFI
#[derive(Clone, Debug)]
pub struct GFunc {
    pub module: usize,
    pub start: u64,
    pub size: u64,
    pub cfi_words: Option<u64>,
    pub saves_fp: bool,
}

/// `$`-prefix convention of the breakpad dumpers per architecture
pub fn reg_tok(arch: &str, r: &str) -> String {
    if matches!(arch, "x86" | "amd64" | "mips32" | "mips64") {
        format!("${r}")
    } else {
        r.to_string()
    }
}

/// canonical rule `.cfa: $sp N + .ra: .cfa -W + ^ [fp: .cfa -2W + ^]`
pub fn canonical_cfi(arch: &str, words: u64, saves_fp: bool) -> String {
    let w = ptr_of(arch);
    let mut s = format!(".cfa: {} {} + .ra: .cfa -{} + ^", reg_tok(arch, sp_name(arch)), words * w, w);
    if saves_fp {
        s.push_str(&format!(" {}: .cfa -{} + ^", reg_tok(arch, fp_name(arch)), 2 * w));
    }
    s
}

/// modules that do not overlap, each with FUNC records (some with canonical CFI)
pub fn tidy_world(rng: &mut Rng, arch: &str, cfi_share: u64) -> (World, Vec<GFunc>) {
    let wide = ptr_of(arch) == 8;
    let mut w = World { mods: vec![], syms: vec![], rets: vec![] };
    let mut funcs = vec![];
    let nmods = 1 + rng.below(3);
    let arm64 = matches!(arch, "arm64" | "arm64old");
    let mut base: u64 = match rng.below(if arm64 { 5 } else if wide { 4 } else { 3 }) {
        0 => 0x1_0000 + rng.below(16) * 0x1000,
        1 => 0x40_0000 + rng.below(64) * 0x1_0000,
        2 => 0x7000_0000 + rng.below(0x100) * 0x1_0000,
        3 => 0x7400_c000_0000u64 + rng.below(64) * 0x10_0000,
        // ARM64 only: modules at and above 2^47 (the pointer-authentication mask is derived from the
        // HIGHEST module end, wherever that module sits in the module list)
        _ => (1u64 << 47) - 0x8000 * rng.below(2) + rng.below(64) * 0x10_0000 + if rng.chance(1, 2) { 1u64 << 48 } else { 0 },
    };
    for i in 0..nmods as usize {
        let name = format!("m{i}");
        let mut recs = vec![];
        let nf = 1 + rng.below(5);
        let mut at = rng.below(0x100);
        for k in 0..nf {
            let size = 32 + rng.below(0x300);
            let has_cfi = rng.below(100) < cfi_share;
            let words = 1 + rng.below(12);
            let saves_fp = has_cfi && words >= 2 && rng.chance(1, 2);
            recs.push(Rec::F { addr: at, size: size as u32, psize: 0, name: format!("f{i}x{k}") });
            if has_cfi {
                recs.push(Rec::C { addr: at, size: size as u32, rules: canonical_cfi(arch, words, saves_fp) });
            }
            funcs.push(GFunc { module: i, start: base + at, size, cfi_words: if has_cfi { Some(words) } else { None }, saves_fp });
            at += size + rng.below(0x40);
        }
        let msize = at + rng.below(0x1000) + 1;
        w.syms.push((name.clone(), recs));
        w.mods.push((base, msize as u32, name));
        base += msize + rng.below(0x10_0000);
    }
    // the module LIST need not be in address order (a dump lists modules in load order): half of the
    // worlds get their modules permuted (indices of the functions follow)
    if w.mods.len() > 1 && rng.chance(1, 2) {
        let n = w.mods.len();
        let mut perm: Vec<usize> = (0..n).collect();
        for i in (1..n).rev() {
            let j = rng.below(i as u64 + 1) as usize;
            perm.swap(i, j);
        }
        let mods: Vec<_> = perm.iter().map(|&k| w.mods[k].clone()).collect();
        let syms: Vec<_> = perm.iter().map(|&k| w.syms[k].clone()).collect();
        let mut inv = vec![0usize; n];
        for (newi, &old) in perm.iter().enumerate() {
            inv[old] = newi;
        }
        for f in funcs.iter_mut() {
            f.module = inv[f.module];
        }
        w.mods = mods;
        w.syms = syms;
    }
    (w, funcs)
}

pub fn put_word(bytes: &mut [u8], idx: u64, p: u64, v: u64) {
    for k in 0..p {
        if let Some(b) = bytes.get_mut((idx * p + k) as usize) {
            *b = (v >> (8 * k)) as u8;
        }
    }
}

/// mostly well-formed stacks: a chain of frames laid out for alternating techniques, then
/// (half of the time) perturbed. No expectation is attached — the model and the oracle judge.
fn gen_guided(rng: &mut Rng, arch: &str, os: &str) -> Case {
    let p = ptr_of(arch);
    let share = *rng.pick(&[0u64, 30, 60, 100]);
    let (world, funcs) = tidy_world(rng, arch, share);
    let nwords = 64 + rng.below(400);
    let wide = p == 8;
    let base: u64 = match rng.below(6) {
        0 if wide => u64::MAX - nwords * p - rng.below(3) * p,
        0 => (u32::MAX as u64 - nwords * p - rng.below(3) * p) & !(p - 1),
        1 if wide => 0x8000_0000_8000_0000,
        _ => (0x2000_0000 + rng.below(0x4000_0000)) & !(p - 1),
    } & !(p - 1);
    let mut bytes = vec![0u8; (nwords * p) as usize];
    let maxd = *rng.pick(&[3u64, 8, 24, 64]);
    let depth = 1 + rng.below(maxd);
    let pick_ret = |rng: &mut Rng| -> (usize, u64) {
        let k = rng.below(funcs.len() as u64) as usize;
        let f = &funcs[k];
        (k, f.start + adj_of(arch) + 1 + rng.below(f.size - adj_of(arch) - 1))
    };
    let (mut cur, ip) = {
        let k = rng.below(funcs.len() as u64) as usize;
        (k, funcs[k].start + rng.below(funcs[k].size))
    };
    let mut s = rng.below(4);
    let sp0 = s;
    let mut fp_idx = s + rng.below(6);
    let fp0 = fp_idx;
    let fp_arch = matches!(arch, "x86" | "amd64" | "arm64" | "arm64old") || (arch == "arm" && os == "ios");
    for _ in 0..depth {
        let (next, ret) = pick_ret(rng);
        let f = &funcs[cur];
        if let Some(n) = f.cfi_words {
            if s + n + 8 >= nwords {
                break;
            }
            put_word(&mut bytes, s + n - 1, p, ret);
            if f.saves_fp {
                fp_idx = s + n + rng.below(6);
                put_word(&mut bytes, s + n - 2, p, base + fp_idx * p);
            }
            s += n;
        } else if fp_arch && rng.chance(2, 3) {
            let f_at = fp_idx.max(s);
            if f_at + 12 >= nwords {
                break;
            }
            let next_fp = f_at + 2 + rng.below(6);
            put_word(&mut bytes, f_at, p, base + next_fp * p);
            put_word(&mut bytes, f_at + 1, p, ret);
            s = f_at + 2;
            fp_idx = next_fp;
        } else {
            let k = rng.below(if arch == "mips32" { 12 } else { 8 }) + if arch == "mips32" { 4 } else { 0 };
            if s + k + 8 >= nwords {
                break;
            }
            put_word(&mut bytes, s + k, p, ret);
            s += k + 1;
        }
        cur = next;
    }
    let m = if p == 4 { u32::MAX as u64 } else { u64::MAX };
    let mut regs = vec![
        (ip_name(arch).to_string(), ip & m),
        (sp_name(arch).to_string(), (base + sp0 * p) & m),
        (fp_name(arch).to_string(), (base + fp0 * p) & m),
    ];
    // perturbation
    if rng.chance(1, 2) {
        for _ in 0..1 + rng.below(3) {
            match rng.below(5) {
                0 => {
                    let i = rng.below(3) as usize;
                    regs[i].1 = match rng.below(4) {
                        0 => boundary(rng, arch),
                        1 => regs[i].1.wrapping_add(rng.below(9)).wrapping_sub(4) & m,
                        _ => (base + rng.below(nwords) * p) & m,
                    };
                }
                _ => {
                    let i = rng.below(s + 4);
                    let v = match rng.below(5) {
                        0 => boundary(rng, arch),
                        1 => (base + rng.below(nwords) * p) & m,
                        2 => pick_ret(rng).1,
                        3 => rng.below(8192),
                        _ => 0,
                    };
                    put_word(&mut bytes, i, p, v);
                }
            }
        }
    }
    let valid = if rng.chance(9, 10) {
        None
    } else {
        let mut v: Vec<String> = vec![ip_name(arch).into(), sp_name(arch).into()];
        if rng.chance(1, 2) {
            v.push(fp_name(arch).into());
        }
        Some(v)
    };
    Case {
        engine: "walk".into(),
        arch: arch.into(),
        os: os.into(),
        regs,
        valid,
        stack: Some((base, bytes)),
        mods: world.mods,
        syms: world.syms,
        symraw: vec![],
        extra: vec![],
        be: false,
    }
}

/// oracle-only variants: corrupted symbol text, STACK WIN records
fn make_raw(rng: &mut Rng, mut c: Case) -> Case {
    let syms = std::mem::take(&mut c.syms);
    for (n, recs) in syms {
        let mut text = sym_text(&n, &recs).into_bytes();
        match rng.below(3) {
            0 => {
                // byte corruption
                for _ in 0..1 + rng.below(4) {
                    if !text.is_empty() {
                        let i = rng.below(text.len() as u64) as usize;
                        text[i] = *rng.pick(&[b' ', b'\n', b'0', b'f', b':', b'$', b'^', 0xff, b'-']);
                    }
                }
            }
            1 => {
                // STACK WIN records (x86 style programs) over the functions
                for r in &recs {
                    if let Rec::F { addr, size, .. } = r {
                        let prog = *rng.pick(&[
                            "$T0 $ebp = $eip $T0 4 + ^ = $ebp $T0 ^ = $esp $T0 8 + =",
                            "$eip $esp ^ = $esp $esp 4 + =",
                            "$eip 4096 = $esp $esp 1 - =",
                            "$eip .raSearchStart ^ = $esp .raSearchStart 4 + =",
                            "$eip 70000 = $esp 0 =",
                        ]);
                        text.extend_from_slice(format!("STACK WIN 4 {addr:x} {size:x} 0 0 {:x} 0 {:x} 0 1 {prog}\n", rng.below(3) * 4, rng.below(4) * 4).as_bytes());
                        if rng.chance(1, 3) {
                            text.extend_from_slice(format!("STACK WIN 0 {addr:x} {size:x} 0 0 {:x} 0 {:x} 0 0 {}\n", rng.below(3) * 4, rng.below(4) * 4, rng.below(2)).as_bytes());
                        }
                    }
                }
            }
            _ => {
                let keep = rng.below(text.len() as u64 + 1) as usize;
                text.truncate(keep);
            }
        }
        c.symraw.push((n, text));
    }
    c
}

impl Engine for Walk {
    fn name(&self) -> &'static str {
        "walk"
    }
    fn rule(&self) -> String {
        "case = (arch in 7 context kinds/modes, os in 5, register context incl. boundary values 0/2^32-1/2^64-1 and sp inside/outside the stack, validity All or a random subset incl. alias names, stack memory at low/typical/4GiB/top-of-address-space bases incl. overflowing and empty ones with words drawn from {module return addresses, pointers up/down the stack, boundary values, random}, 0..3 modules incl. overlapping/zero-sized/huge ones, per-module FUNC/PUBLIC/STACK CFI records with cfa below/equal/above sp, constant/undefined/register/memory return addresses, saved-register rules). Model compared on every case with record-form symbols; cases with corrupted symbol text or STACK WIN records are oracle-only. non-trivial = the walk produced at least two frames or evaluated the in-range stop with a present stack; distinct = distinct case line".into()
    }

    fn generate(&self, tier: Tier, rng: &mut Rng, emit: &mut dyn FnMut(String)) {
        let n = if tier == Tier::Quick { 36000 } else { 200000 };
        for arch in ARCHS {
            for i in 0..n {
                let os = OSES[(i % OSES.len() as u64) as usize];
                // ARM frame pointers are iOS-only, the x64 probe is Windows-only: weight them
                let os = match *arch {
                    "arm" if i % 2 == 0 => "ios",
                    "amd64" if i % 2 == 0 => "windows",
                    _ => os,
                };
                let with_cfi = i % 3 != 0;
                let c = if i % 2 == 1 { gen_guided(rng, arch, os) } else { gen_case(rng, arch, os, with_cfi) };
                if i % 25 == 3 {
                    // the same stack as a big-endian dump holds it: every aligned word byte-swapped,
                    // read back big-endian (unaligned reads see other words than the original's)
                    let mut b = c.clone();
                    if let Some((_, bytes)) = &mut b.stack {
                        for w in bytes.chunks_mut(ptr_of(arch) as usize) {
                            w.reverse();
                        }
                    }
                    b.be = true;
                    emit(b.render());
                }
                if i % 8 == 7 && !c.syms.is_empty() {
                    emit(make_raw(rng, c).render());
                } else {
                    emit(c.render());
                }
            }
        }
    }

    fn exec(&self, case: &str) -> ImplResult {
        let mut res = ImplResult::default();
        let Some(c) = Case::parse(case, 0) else {
            res.out = "bad-op".into();
            return res;
        };
        match run_walk(&c) {
            Err(msg) => {
                res.out = "PANIC".into();
                res.tags.push("panic".into());
                if msg.starts_with("walk exceeded") {
                    res.oracle.push(("too-many-frames".into(), msg));
                } else {
                    res.oracle.push(("walk-panics".into(), msg));
                }
            }
            Ok(stack) => {
                res.out = show_stack(&c, &stack);
                res.oracle = wf_oracle(&c, &stack);
                walk_tags(&c, &stack, &mut res);
                let in_range = c.stack.as_ref().is_some_and(|(b, bytes)| {
                    let sp = stack.frames[0].context.get_stack_pointer();
                    !bytes.is_empty() && sp >= *b && sp - *b < bytes.len() as u64
                });
                res.nontrivial = stack.frames.len() >= 2 || in_range;
            }
        }
        if !c.symraw.is_empty() {
            res.tags.push("oracle-only".into());
        }
        res
    }

    fn model_request(&self, case: &str) -> Option<String> {
        if case.contains(" symraw:") {
            None
        } else {
            Some(case.to_string())
        }
    }

    fn shrink(&self, case: &str, still_fails: &dyn Fn(&str) -> bool) -> String {
        let Some(c) = Case::parse(case, 0) else { return case.to_string() };
        shrink_case(c, 0, still_fails).render()
    }
}

/// greedy structural shrinking shared with `chain`
pub fn shrink_case(mut c: Case, _n_extra: usize, still_fails: &dyn Fn(&str) -> bool) -> Case {
    let mut progress = true;
    let mut rounds = 0;
    while progress && rounds < 6 {
        progress = false;
        rounds += 1;
        // drop symbol files, then records
        let mut i = 0;
        while i < c.syms.len() {
            let mut d = c.clone();
            d.syms.remove(i);
            if still_fails(&d.render()) {
                c = d;
                progress = true;
            } else {
                i += 1;
            }
        }
        for si in 0..c.syms.len() {
            let mut i = 0;
            while i < c.syms[si].1.len() {
                let mut d = c.clone();
                d.syms[si].1.remove(i);
                // an `A` record must keep a `C` before it
                let ok = !matches!(d.syms[si].1.first(), Some(Rec::A { .. }));
                if ok && still_fails(&d.render()) {
                    c = d;
                    progress = true;
                } else {
                    i += 1;
                }
            }
        }
        let mut i = 0;
        while i < c.symraw.len() {
            let mut d = c.clone();
            d.symraw.remove(i);
            if still_fails(&d.render()) {
                c = d;
                progress = true;
            } else {
                i += 1;
            }
        }
        // drop trailing modules (indices of the others stay put)
        while !c.mods.is_empty() {
            let mut d = c.clone();
            d.mods.pop();
            if still_fails(&d.render()) {
                c = d;
                progress = true;
            } else {
                break;
            }
        }
        // shorten the stack from the end, then zero words
        if let Some((base, bytes)) = c.stack.clone() {
            let mut len = bytes.len();
            let mut stepsz = len / 2;
            while stepsz >= 1 {
                if len >= stepsz {
                    let mut d = c.clone();
                    d.stack = Some((base, bytes[..len - stepsz].to_vec()));
                    if still_fails(&d.render()) {
                        len -= stepsz;
                        c = d;
                        progress = true;
                        continue;
                    }
                }
                stepsz /= 2;
            }
            let p = ptr_of(&c.arch) as usize;
            let bytes = c.stack.clone().unwrap().1;
            let mut cur = bytes.clone();
            for w in 0..cur.len() / p {
                if cur[w * p..(w + 1) * p].iter().all(|b| *b == 0) {
                    continue;
                }
                let mut t = cur.clone();
                for b in &mut t[w * p..(w + 1) * p] {
                    *b = 0;
                }
                let mut d = c.clone();
                d.stack = Some((base, t.clone()));
                if still_fails(&d.render()) {
                    cur = t;
                    c = d;
                    progress = true;
                }
            }
        }
        // drop register assignments
        let mut i = 0;
        while i < c.regs.len() {
            let mut d = c.clone();
            d.regs.remove(i);
            if still_fails(&d.render()) {
                c = d;
                progress = true;
            } else {
                i += 1;
            }
        }
        if c.valid.is_some() {
            let mut d = c.clone();
            d.valid = None;
            if still_fails(&d.render()) {
                c = d;
                progress = true;
            }
        }
    }
    c
}
